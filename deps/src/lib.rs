// empty: only the dependency rlibs are of interest
