//! anchors: parse a Rust source file with `syn` and print, as JSON, the byte-exact
//! anchors the splicer needs (functions, their signature parts, loops, closures,
//! match arms with or-pattern + guard, macro invocations, items, blocks).
//!
//! usage: anchors FILE...   → one JSON object {"file": [...records...], ...} on stdout
use proc_macro2::Span;
use std::fmt::Write as _;
use syn::spanned::Spanned;
use syn::visit::{self, Visit};

struct Src {
    line_starts: Vec<usize>,
    text: String,
}
impl Src {
    fn new(text: String) -> Self {
        let mut line_starts = vec![0usize];
        for (i, b) in text.bytes().enumerate() {
            if b == b'\n' {
                line_starts.push(i + 1);
            }
        }
        Src { line_starts, text }
    }
    fn off(&self, lc: proc_macro2::LineColumn) -> usize {
        let ls = self.line_starts[lc.line - 1];
        let mut o = ls;
        let mut n = 0;
        for ch in self.text[ls..].chars() {
            if n == lc.column {
                break;
            }
            o += ch.len_utf8();
            n += 1;
        }
        o
    }
    fn span(&self, s: Span) -> (usize, usize) {
        (self.off(s.start()), self.off(s.end()))
    }
}

fn js(s: &str) -> String {
    let mut o = String::from("\"");
    for c in s.chars() {
        match c {
            '"' => o.push_str("\\\""),
            '\\' => o.push_str("\\\\"),
            '\n' => o.push_str("\\n"),
            '\t' => o.push_str("\\t"),
            '\r' => o.push_str("\\r"),
            c if (c as u32) < 0x20 => write!(o, "\\u{:04x}", c as u32).unwrap(),
            c => o.push(c),
        }
    }
    o.push('"');
    o
}
fn sp(p: (usize, usize)) -> String {
    format!("[{},{}]", p.0, p.1)
}

fn const_record(src: &Src, c: &syn::ItemConst) -> String {
    let mut elems = vec![];
    let mut all_str = false;
    if let syn::Expr::Array(a) = &*c.expr {
        all_str = true;
        for e in a.elems.iter() {
            if let syn::Expr::Lit(l) = e {
                if let syn::Lit::Str(st) = &l.lit {
                    elems.push(format!("{{\"value\":{},\"span\":{}}}", js(&st.value()), sp(src.span(st.span()))));
                    continue;
                }
            }
            all_str = false;
        }
    }
    format!(
        "{{\"name\":{},\"span\":{},\"ty\":{},\"str_array\":{},\"elems\":[{}]}}",
        js(&c.ident.to_string()),
        sp(src.span(c.span())),
        sp(src.span(c.ty.span())),
        all_str,
        elems.join(",")
    )
}

fn attrs_info(attrs: &[syn::Attribute]) -> (bool, bool, Vec<String>) {
    let mut cfg_test = false;
    let mut macro_export = false;
    let mut derives = vec![];
    for a in attrs {
        let p = a.path();
        if p.is_ident("cfg") {
            let s = quote_tokens(&a.meta);
            if s.contains("test") {
                cfg_test = true;
            }
        } else if p.is_ident("test") {
            cfg_test = true;
        } else if p.is_ident("macro_export") {
            macro_export = true;
        } else if p.is_ident("derive") {
            let _ = a.parse_nested_meta(|m| {
                derives.push(path_str(&m.path));
                Ok(())
            });
        }
    }
    (cfg_test, macro_export, derives)
}
fn quote_tokens(m: &syn::Meta) -> String {
    match m {
        syn::Meta::List(l) => l.tokens.to_string(),
        _ => String::new(),
    }
}
fn path_str(p: &syn::Path) -> String {
    p.segments
        .iter()
        .map(|s| s.ident.to_string())
        .collect::<Vec<_>>()
        .join("::")
}
fn type_str(t: &syn::Type) -> String {
    match t {
        syn::Type::Path(p) => p
            .path
            .segments
            .iter()
            .map(|s| s.ident.to_string())
            .collect::<Vec<_>>()
            .join("::"),
        syn::Type::Reference(r) => type_str(&r.elem),
        _ => "?".to_string(),
    }
}

struct Ctx<'a> {
    src: &'a Src,
    out: Vec<String>,
    mods: Vec<String>,
    qual: Vec<String>, // impl/trait qualifier stack
    in_test: u32,
}

/// visitor collecting the anchors inside one function body
struct BodyV<'a> {
    src: &'a Src,
    loops: Vec<String>,
    closures: Vec<String>,
    arms: Vec<String>,
    macros: Vec<String>,
    binders: Vec<String>,
    strlits: Vec<String>,
    nested_fns: u32,
    call_of: std::collections::HashMap<usize, (usize, usize)>,
    consts: Vec<String>,
    and_thens: Vec<String>,
    calls: Vec<String>,
    returns: u32,
    tries: u32,
    in_closure: u32,
}
impl<'a, 'ast> Visit<'ast> for BodyV<'a> {
    fn visit_expr_return(&mut self, e: &'ast syn::ExprReturn) {
        if self.in_closure == 0 { self.returns += 1; }
        visit::visit_expr_return(self, e);
    }
    fn visit_expr_try(&mut self, e: &'ast syn::ExprTry) {
        if self.in_closure == 0 { self.tries += 1; }
        visit::visit_expr_try(self, e);
    }
    fn visit_item_fn(&mut self, _i: &'ast syn::ItemFn) {
        // nested fn items are reported (count only); they are not descended into
        self.nested_fns += 1;
    }
    fn visit_expr_while(&mut self, e: &'ast syn::ExprWhile) {
        let b = self.src.span(e.body.brace_token.span.join());
        let kw = self.src.span(e.while_token.span);
        self.loops.push(format!(
            "{{\"kind\":\"while\",\"kw\":{},\"span\":{},\"body\":{},\"label\":{}}}",
            sp(kw),
            sp(self.src.span(e.span())),
            sp(b),
            e.label.is_some()
        ));
        visit::visit_expr_while(self, e);
    }
    fn visit_expr_loop(&mut self, e: &'ast syn::ExprLoop) {
        let b = self.src.span(e.body.brace_token.span.join());
        let kw = self.src.span(e.loop_token.span);
        // `loop { if C { break; } REST }` (the desugared form of `while !C { REST }`): report the leading guard so that the
        // splicer can normalise it back (R16)
        let mut head_break = "null".to_string();
        if let Some(first) = e.body.stmts.first() {
            let (ex, stmt_span) = match first {
                syn::Stmt::Expr(ex, _) => (Some(ex), self.src.span(first.span())),
                _ => (None, (0, 0)),
            };
            // `loop { let PAT = EXPR else { break }; REST }` (the desugared form of `while let PAT = EXPR { REST }`)
            if let syn::Stmt::Local(l) = first {
                if let Some(init) = &l.init {
                    if let Some((_, div)) = &init.diverge {
                        let plain_break = match &**div {
                            syn::Expr::Block(b) => b.block.stmts.len() == 1
                                && matches!(&b.block.stmts[0], syn::Stmt::Expr(syn::Expr::Break(br), _) if br.label.is_none() && br.expr.is_none()),
                            _ => false,
                        };
                        if plain_break && e.label.is_none() && !matches!(&l.pat, syn::Pat::Type(_)) {
                            head_break = format!("{{\"stmt\":{},\"let_pat\":{},\"let_expr\":{}}}", sp(self.src.span(first.span())), sp(self.src.span(l.pat.span())), sp(self.src.span(init.expr.span())));
                        }
                    }
                }
            }
            if let Some(syn::Expr::If(i)) = ex {
                let plain_break = i.then_branch.stmts.len() == 1
                    && matches!(&i.then_branch.stmts[0], syn::Stmt::Expr(syn::Expr::Break(b), _) if b.label.is_none() && b.expr.is_none());
                if i.else_branch.is_none() && plain_break && !matches!(&*i.cond, syn::Expr::Let(_)) && e.label.is_none() {
                    head_break = format!("{{\"stmt\":{},\"cond\":{}}}", sp(stmt_span), sp(self.src.span(i.cond.span())));
                }
            }
        }
        self.loops.push(format!(
            "{{\"kind\":\"loop\",\"kw\":{},\"span\":{},\"body\":{},\"label\":{},\"head_break\":{}}}",
            sp(kw),
            sp(self.src.span(e.span())),
            sp(b),
            e.label.is_some(),
            head_break
        ));
        visit::visit_expr_loop(self, e);
    }
    fn visit_expr_for_loop(&mut self, e: &'ast syn::ExprForLoop) {
        let b = self.src.span(e.body.brace_token.span.join());
        let kw = self.src.span(e.for_token.span);
        self.loops.push(format!(
            "{{\"kind\":\"for\",\"kw\":{},\"span\":{},\"body\":{},\"pat\":{},\"expr\":{},\"label\":{}}}",
            sp(kw),
            sp(self.src.span(e.span())),
            sp(b),
            sp(self.src.span(e.pat.span())),
            sp(self.src.span(e.expr.span())),
            e.label.is_some()
        ));
        visit::visit_expr_for_loop(self, e);
    }
    fn visit_item_const(&mut self, c: &'ast syn::ItemConst) {
        self.consts.push(const_record(self.src, c));
    }
    fn visit_expr_method_call(&mut self, e: &'ast syn::ExprMethodCall) {
        let cs = self.src.span(e.span());
        if e.method == "and_then" && e.args.len() == 1 {
            if let syn::Expr::Closure(c) = &e.args[0] {
                if c.inputs.len() == 1 {
                    self.and_thens.push(format!(
                        "{{\"call\":{},\"recv\":{},\"param\":{},\"body\":{}}}",
                        sp(cs), sp(self.src.span(e.receiver.span())), sp(self.src.span(c.inputs[0].span())), sp(self.src.span(c.body.span()))));
                }
            }
        }
        for a in e.args.iter() {
            if let syn::Expr::Closure(c) = a {
                self.call_of.insert(self.src.span(c.span()).0, cs);
            }
        }
        let self_recv = matches!(&*e.receiver, syn::Expr::Path(pth) if pth.path.is_ident("self"));
        if !self_recv {
            // a method call on another receiver: only the name is recorded (the splicer checks it against functions the contracts do not know)
            self.calls.push(format!("{{\"form\":\"method\",\"name\":{},\"span\":{},\"args\":[],\"in_closure\":{}}}", js(&e.method.to_string()), sp(cs), self.in_closure > 0));
        }
        if let syn::Expr::Path(pth) = &*e.receiver {
            if pth.path.is_ident("self") && e.turbofish.is_none() {
                let args: Vec<String> = e.args.iter().map(|a| sp(self.src.span(a.span()))).collect();
                self.calls.push(format!("{{\"form\":\"self_method\",\"name\":{},\"span\":{},\"args\":[{}],\"in_closure\":{}}}", js(&e.method.to_string()), sp(cs), args.join(","), self.in_closure > 0));
            }
        }
        visit::visit_expr_method_call(self, e);
    }
    fn visit_expr_call(&mut self, e: &'ast syn::ExprCall) {
        let cs = self.src.span(e.span());
        for a in e.args.iter() {
            if let syn::Expr::Closure(c) = a {
                self.call_of.insert(self.src.span(c.span()).0, cs);
            }
        }
        if let syn::Expr::Path(pth) = &*e.func {
            let segs: Vec<String> = pth.path.segments.iter().map(|s| s.ident.to_string()).collect();
            let plain = pth.qself.is_none() && pth.path.segments.iter().all(|s| s.arguments.is_none());
            let form = if plain && segs.len() == 1 { Some("path") } else if plain && segs.len() == 2 && segs[0] == "Self" { Some("self_path") } else { None };
            if let Some(form) = form {
                let args: Vec<String> = e.args.iter().map(|a| sp(self.src.span(a.span()))).collect();
                self.calls.push(format!("{{\"form\":{},\"name\":{},\"span\":{},\"args\":[{}],\"in_closure\":{}}}", js(form), js(segs.last().unwrap()), sp(cs), args.join(","), self.in_closure > 0));
            }
        }
        visit::visit_expr_call(self, e);
    }
    fn visit_expr_closure(&mut self, e: &'ast syn::ExprClosure) {
        let call = match self.call_of.get(&self.src.span(e.span()).0) { Some(c) => sp(*c), None => "null".to_string() };
        let mut ins = vec![];
        for p in e.inputs.iter() {
            let typed = matches!(p, syn::Pat::Type(_));
            ins.push(format!(
                "{{\"span\":{},\"typed\":{}}}",
                sp(self.src.span(p.span())),
                typed
            ));
        }
        let body_is_block = matches!(&*e.body, syn::Expr::Block(_));
        self.closures.push(format!(
            "{{\"span\":{},\"call\":{},\"or1\":{},\"or2\":{},\"inputs\":[{}],\"body\":{},\"body_is_block\":{},\"has_output\":{}}}",
            sp(self.src.span(e.span())),
            call,
            sp(self.src.span(e.or1_token.span)),
            sp(self.src.span(e.or2_token.span)),
            ins.join(","),
            sp(self.src.span(e.body.span())),
            body_is_block,
            !matches!(e.output, syn::ReturnType::Default)
        ));
        self.in_closure += 1;
        visit::visit_expr_closure(self, e);
        self.in_closure -= 1;
    }
    fn visit_arm(&mut self, a: &'ast syn::Arm) {
        let has_or = matches!(&a.pat, syn::Pat::Or(_));
        if has_or && a.guard.is_some() {
            let mut cases = vec![];
            if let syn::Pat::Or(o) = &a.pat {
                for c in o.cases.iter() {
                    cases.push(sp(self.src.span(c.span())));
                }
            }
            let g = a.guard.as_ref().unwrap();
            let gspan = (self.src.span(g.0.span).0, self.src.span(g.1.span()).1);
            let body = self.src.span(a.body.span());
            let comma = a.comma.map(|c| self.src.span(c.span));
            self.arms.push(format!(
                "{{\"pat\":{},\"cases\":[{}],\"guard\":{},\"arrow\":{},\"body\":{},\"comma\":{}}}",
                sp(self.src.span(a.pat.span())),
                cases.join(","),
                sp(gspan),
                sp(self.src.span(a.fat_arrow_token.span())),
                sp(body),
                match comma {
                    Some(c) => sp(c),
                    None => "null".into(),
                }
            ));
        }
        visit::visit_arm(self, a);
    }
    fn visit_macro(&mut self, m: &'ast syn::Macro) {
        let d = match &m.delimiter {
            syn::MacroDelimiter::Paren(p) => p.span.join(),
            syn::MacroDelimiter::Brace(p) => p.span.join(),
            syn::MacroDelimiter::Bracket(p) => p.span.join(),
        };
        self.macros.push(format!(
            "{{\"path\":{},\"span\":{},\"delim\":{},\"stmt\":false}}",
            js(&path_str(&m.path)),
            sp(self.src.span(m.span())),
            sp(self.src.span(d))
        ));
        // try to descend into the macro arguments as an expression list (matches!, assert!, …)
        visit::visit_macro(self, m);
    }
    fn visit_stmt_macro(&mut self, s: &'ast syn::StmtMacro) {
        let m = &s.mac;
        let d = match &m.delimiter {
            syn::MacroDelimiter::Paren(p) => p.span.join(),
            syn::MacroDelimiter::Brace(p) => p.span.join(),
            syn::MacroDelimiter::Bracket(p) => p.span.join(),
        };
        self.macros.push(format!(
            "{{\"path\":{},\"span\":{},\"delim\":{},\"stmt\":true}}",
            js(&path_str(&m.path)),
            sp(self.src.span(s.span())),
            sp(self.src.span(d))
        ));
    }
    fn visit_lit_str(&mut self, l: &'ast syn::LitStr) {
        self.strlits.push(format!(
            "{{\"value\":{},\"span\":{}}}",
            js(&l.value()),
            sp(self.src.span(l.span()))
        ));
    }
    fn visit_pat_ident(&mut self, p: &'ast syn::PatIdent) {
        self.binders.push(format!(
            "{{\"name\":{},\"span\":{}}}",
            js(&p.ident.to_string()),
            sp(self.src.span(p.ident.span()))
        ));
        visit::visit_pat_ident(self, p);
    }
}

impl<'a> Ctx<'a> {
    fn fn_record(
        &mut self,
        attrs: &[syn::Attribute],
        vis_span: Option<(usize, usize)>,
        sig: &syn::Signature,
        block: Option<&syn::Block>,
        item_span: (usize, usize),
        semi: Option<(usize, usize)>,
    ) {
        let (cfg_test, _, _) = attrs_info(attrs);
        let name = sig.ident.to_string();
        let mut path = self.qual.clone();
        path.push(name.clone());
        let out_ty = match &sig.output {
            syn::ReturnType::Default => "null".to_string(),
            syn::ReturnType::Type(_, t) => sp(self.src.span(t.span())),
        };
        let mut params = vec![];
        for a in sig.inputs.iter() {
            match a {
                syn::FnArg::Receiver(r) => {
                    let m = if r.reference.is_some() {
                        if r.mutability.is_some() {
                            "&mut self"
                        } else {
                            "&self"
                        }
                    } else {
                        "self"
                    };
                    params.push(format!("{{\"name\":\"self\",\"recv\":{},\"span\":{}}}", js(m), sp(self.src.span(r.span()))));
                }
                syn::FnArg::Typed(t) => {
                    let n = match &*t.pat {
                        syn::Pat::Ident(i) => i.ident.to_string(),
                        _ => "_".to_string(),
                    };
                    let is_mut_ref = matches!(&*t.ty, syn::Type::Reference(r) if r.mutability.is_some());
                    params.push(format!(
                        "{{\"name\":{},\"span\":{},\"pat\":{},\"ty\":{},\"mut_ref\":{}}}",
                        js(&n),
                        sp(self.src.span(t.span())),
                        sp(self.src.span(t.pat.span())),
                        sp(self.src.span(t.ty.span())),
                        is_mut_ref
                    ));
                }
            }
        }
        let mut bv = BodyV {
            src: self.src,
            loops: vec![],
            closures: vec![],
            arms: vec![],
            macros: vec![],
            binders: vec![],
            strlits: vec![],
            nested_fns: 0,
            call_of: Default::default(),
            consts: vec![],
            and_thens: vec![],
            calls: vec![],
            returns: 0,
            tries: 0,
            in_closure: 0,
        };
        let body = match block {
            Some(b) => {
                for s in &b.stmts {
                    bv.visit_stmt(s);
                }
                sp(self.src.span(b.brace_token.span.join()))
            }
            None => "null".into(),
        };
        let where_span = match &sig.generics.where_clause {
            Some(w) => sp(self.src.span(w.span())),
            None => "null".into(),
        };
        let sig_span = self.src.span(sig.span());
        let rec = format!(
            "{{\"rec\":\"fn\",\"mods\":{},\"qual\":{},\"name\":{},\"path\":{},\"cfg_test\":{},\"item\":{},\"vis\":{},\"sig\":{},\"ident\":{},\"out_ty\":{},\"where\":{},\"params\":[{}],\"body\":{},\"semi\":{},\"loops\":[{}],\"closures\":[{}],\"arms\":[{}],\"macros\":[{}],\"binders\":[{}],\"strlits\":[{}],\"consts\":[{}],\"and_thens\":[{}],\"calls\":[{}],\"returns\":{},\"tries\":{},\"generic\":{},\"nested_fns\":{}}}",
            js(&self.mods.join("::")),
            js(&self.qual.join("::")),
            js(&name),
            js(&path.join("::")),
            cfg_test || self.in_test > 0,
            sp(item_span),
            match vis_span { Some(v) => sp(v), None => "null".into() },
            sp(sig_span),
            sp(self.src.span(sig.ident.span())),
            out_ty,
            where_span,
            params.join(","),
            body,
            match semi { Some(s) => sp(s), None => "null".into() },
            bv.loops.join(","),
            bv.closures.join(","),
            bv.arms.join(","),
            bv.macros.join(","),
            bv.binders.join(","),
            bv.strlits.join(","),
            bv.consts.join(","),
            bv.and_thens.join(","),
            bv.calls.join(","),
            bv.returns,
            bv.tries,
            !sig.generics.params.is_empty(),
            bv.nested_fns
        );
        self.out.push(rec);
    }

    fn item_record(&mut self, kind: &str, name: &str, attrs: &[syn::Attribute], span: (usize, usize), extra: &str) {
        let (cfg_test, macro_export, derives) = attrs_info(attrs);
        let attr_start = attrs.iter().map(|a| self.src.span(a.span()).0).min();
        let full = (attr_start.map(|a| a.min(span.0)).unwrap_or(span.0), span.1);
        self.out.push(format!(
            "{{\"rec\":\"item\",\"kind\":{},\"name\":{},\"mods\":{},\"cfg_test\":{},\"macro_export\":{},\"derives\":[{}],\"span\":{},\"depth\":{}{}}}",
            js(kind),
            js(name),
            js(&self.mods.join("::")),
            cfg_test || self.in_test > 0,
            macro_export,
            derives.iter().map(|d| js(d)).collect::<Vec<_>>().join(","),
            sp(full),
            self.qual.len() + self.mods.len(),
            extra
        ));
    }

    fn items(&mut self, items: &[syn::Item]) {
        for it in items {
            self.item(it);
        }
    }

    fn item(&mut self, it: &syn::Item) {
        let span = self.src.span(it.span());
        match it {
            syn::Item::Fn(f) => {
                let (t, _, _) = attrs_info(&f.attrs);
                self.item_record("fn", &f.sig.ident.to_string(), &f.attrs, span, "");
                if t {
                    self.in_test += 1;
                }
                let vis = match &f.vis {
                    syn::Visibility::Inherited => None,
                    v => Some(self.src.span(v.span())),
                };
                self.fn_record(&f.attrs, vis, &f.sig, Some(&f.block), span, None);
                if t {
                    self.in_test -= 1;
                }
            }
            syn::Item::Impl(i) => {
                let self_ty = type_str(&i.self_ty);
                let tr = i.trait_.as_ref().map(|(_, p, _)| { let sp0 = self.src.span(p.span()); self.src.text[sp0.0..sp0.1].split_whitespace().collect::<String>() });
                let q = match &tr {
                    Some(t) => format!("<{} as {}>", self_ty, t),
                    None => self_ty.clone(),
                };
                let brace = self.src.span(i.brace_token.span.join());
                let extra = format!(
                    ",\"self_ty\":{},\"trait\":{},\"brace\":{}",
                    js(&self_ty),
                    match &tr { Some(t) => js(t), None => "null".into() },
                    sp(brace)
                );
                self.item_record("impl", &q, &i.attrs, span, &extra);
                let (t, _, _) = attrs_info(&i.attrs);
                if t {
                    self.in_test += 1;
                }
                self.qual.push(q);
                for ii in &i.items {
                    if let syn::ImplItem::Fn(f) = ii {
                        let vis = match &f.vis {
                            syn::Visibility::Inherited => None,
                            v => Some(self.src.span(v.span())),
                        };
                        let s = self.src.span(f.span());
                        self.fn_record(&f.attrs, vis, &f.sig, Some(&f.block), s, None);
                    }
                }
                self.qual.pop();
                if t {
                    self.in_test -= 1;
                }
            }
            syn::Item::Trait(tr) => {
                let brace = self.src.span(tr.brace_token.span.join());
                let extra = format!(",\"brace\":{}", sp(brace));
                self.item_record("trait", &tr.ident.to_string(), &tr.attrs, span, &extra);
                self.qual.push(tr.ident.to_string());
                for ti in &tr.items {
                    if let syn::TraitItem::Fn(f) = ti {
                        let s = self.src.span(f.span());
                        let semi = f.semi_token.map(|t| self.src.span(t.span));
                        self.fn_record(&f.attrs, None, &f.sig, f.default.as_ref(), s, semi);
                    }
                }
                self.qual.pop();
            }
            syn::Item::Mod(m) => {
                let (t, _, _) = attrs_info(&m.attrs);
                match &m.content {
                    Some((b, items)) => {
                        let brace = self.src.span(b.span.join());
                        let extra = format!(",\"inline\":true,\"brace\":{}", sp(brace));
                        self.item_record("mod", &m.ident.to_string(), &m.attrs, span, &extra);
                        if t {
                            self.in_test += 1;
                        }
                        self.mods.push(m.ident.to_string());
                        self.items(items);
                        self.mods.pop();
                        if t {
                            self.in_test -= 1;
                        }
                    }
                    None => {
                        self.item_record("mod", &m.ident.to_string(), &m.attrs, span, ",\"inline\":false");
                    }
                }
            }
            syn::Item::Struct(s) => self.item_record("struct", &s.ident.to_string(), &s.attrs, span, ""),
            syn::Item::Enum(s) => self.item_record("enum", &s.ident.to_string(), &s.attrs, span, ""),
            syn::Item::Const(s) => self.item_record("const", &s.ident.to_string(), &s.attrs, span, ""),
            syn::Item::Static(s) => self.item_record("static", &s.ident.to_string(), &s.attrs, span, ""),
            syn::Item::Type(s) => self.item_record("type", &s.ident.to_string(), &s.attrs, span, ""),
            syn::Item::Use(s) => {
                let txt = self.src.text[span.0..span.1].to_string();
                self.item_record("use", &txt, &s.attrs, span, "")
            }
            syn::Item::Macro(m) => {
                let n = m.ident.as_ref().map(|i| i.to_string()).unwrap_or_else(|| path_str(&m.mac.path));
                self.item_record("macro", &n, &m.attrs, span, "")
            }
            _ => self.item_record("other", "", &[], span, ""),
        }
    }
}

fn main() {
    let mut first = true;
    print!("{{");
    for path in std::env::args().skip(1) {
        let text = std::fs::read_to_string(&path).expect("read");
        let src = Src::new(text);
        let file = match syn::parse_file(&src.text) {
            Ok(f) => f,
            Err(e) => {
                eprintln!("anchors: parse error in {}: {}", path, e);
                std::process::exit(3);
            }
        };
        let mut ctx = Ctx { src: &src, out: vec![], mods: vec![], qual: vec![], in_test: 0 };
        ctx.items(&file.items);
        if !first {
            print!(",");
        }
        first = false;
        print!("{}:[{}]", js(&path), ctx.out.join(",\n"));
    }
    println!("}}");
}
