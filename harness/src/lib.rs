//! In-memory workspace for driving the real `ide` crate.
use std::collections::HashMap;
use std::path::Path;
use std::sync::Arc;

use ide::analysis::{Analysis, AnalysisHost};
use ide::file_system::{FileId, FilePath, FileSystem};

#[derive(Default)]
pub struct MemFs {
    pub files: HashMap<FilePath, String>,
    ids: HashMap<FilePath, FileId>,
    paths: HashMap<FileId, FilePath>,
    next: u32,
}

impl MemFs {
    pub fn add(&mut self, path: &str, content: &str) -> FileId {
        let p = FilePath::from(Path::new(path));
        self.files.insert(p.clone(), content.to_string());
        self.assign_or_get_file_id(p)
    }
}

impl FileSystem for MemFs {
    fn assign_or_get_file_id(&mut self, path: FilePath) -> FileId {
        if let Some(id) = self.ids.get(&path) {
            return *id;
        }
        let id = FileId(self.next);
        self.next += 1;
        self.ids.insert(path.clone(), id);
        self.paths.insert(id, path);
        id
    }
    fn path_for_file(&self, file_id: &FileId) -> &FilePath {
        &self.paths[file_id]
    }
    fn read_content(&self, file_path: &FilePath) -> Option<String> {
        self.files.get(file_path).cloned()
    }
}

/// build a workspace: files = [(path, content)], the first one is the root
pub fn workspace(files: &[(&str, &str)]) -> (AnalysisHost, MemFs, Vec<FileId>) {
    let mut fs = MemFs::default();
    let mut host = AnalysisHost::new();
    let mut ids = vec![];
    for (p, c) in files {
        let id = fs.add(p, c);
        host.set_file_content(id, Arc::from(*c));
        ids.push(id);
    }
    host.set_root_file(&mut fs, ids[0]);
    (host, fs, ids)
}

pub fn analysis(files: &[(&str, &str)]) -> (Analysis, Vec<FileId>) {
    let (host, _fs, ids) = workspace(files);
    (host.analysis(), ids)
}

/// run f on another thread; None if it does not finish within `secs` (hang or stack overflow kill the process instead)
pub fn with_timeout<T: Send + 'static>(secs: u64, f: impl FnOnce() -> T + Send + 'static) -> Option<T> {
    let (tx, rx) = std::sync::mpsc::channel();
    std::thread::Builder::new().stack_size(64 << 20).spawn(move || { let _ = tx.send(f()); }).unwrap();
    rx.recv_timeout(std::time::Duration::from_secs(secs)).ok()
}
