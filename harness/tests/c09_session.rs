//! BOUNDED stand-in for the to_proto conversions of structured results (document symbols with children, folding ranges, document links,
//! inlay hints: `to_proto::*` bodies are outside the verified text of unit LS, which proves WHICH line index each conversion uses): one
//! recorded session on the real server.  Every range the server sends for root.td (CRLF, non-ASCII, astral characters) and for the
//! included inc.td must denote, in that document's own text, exactly the span the analysis computed for it (the analysis is asked
//! directly, its byte ranges are converted by an independent reference written from the LSP definition of a position).
use async_lsp::{AnyNotification, AnyRequest, ClientSocket, LspService};
use ide::analysis::AnalysisHost;
use ide::file_system::{FilePath, FileRange, FileSystem};
use ide::handlers::document_symbol::DocumentSymbol;
use serde_json::{json, Value};
use std::sync::Arc;
use std::time::Duration;
use tower::Service;

fn uri(p: &std::path::Path) -> String { format!("file://{}", p.display()) }
/// reference: (line, UTF-16 column) of a byte offset; lines end at LF, CRLF or a lone CR
fn pos(text: &str, off: usize) -> (u64, u64) {
    let b = text.as_bytes();
    let (mut line, mut start, mut i) = (0u64, 0usize, 0usize);
    while i < off {
        if b[i] == b'\n' { line += 1; start = i + 1; }
        else if b[i] == b'\r' && !(i + 1 < b.len() && b[i + 1] == b'\n') { line += 1; start = i + 1; }
        i += 1;
    }
    (line, text[start..off].encode_utf16().count() as u64)
}
fn jpos(v: &Value) -> (u64, u64) { (v["line"].as_u64().unwrap(), v["character"].as_u64().unwrap()) }
fn flat_ide(text: &str, syms: &[DocumentSymbol], depth: usize, out: &mut Vec<(usize, String, (u64, u64), (u64, u64))>) {
    for s in syms {
        out.push((depth, s.name.to_string(), pos(text, usize::from(s.range.start())), pos(text, usize::from(s.range.end()))));
        flat_ide(text, &s.children, depth + 1, out);
    }
}
fn flat_lsp(v: &Value, depth: usize, out: &mut Vec<(usize, String, (u64, u64), (u64, u64))>) {
    for s in v.as_array().cloned().unwrap_or_default() {
        out.push((depth, s["name"].as_str().unwrap().to_string(), jpos(&s["range"]["start"]), jpos(&s["range"]["end"])));
        assert_eq!(s["range"], s["selectionRange"], "WITNESS selection range differs from the range of {}", s["name"]);
        flat_lsp(&s["children"], depth + 1, out);
    }
}
async fn ask(router: &mut async_lsp::router::Router<lsp::server::Server>, method: &str, params: Value) -> Result<Value, String> {
    let req: AnyRequest = serde_json::from_value(json!({"id": 1, "method": method, "params": params})).unwrap();
    tokio::time::timeout(Duration::from_secs(20), router.call(req)).await.map_err(|_| format!("{method} timed out"))?.map_err(|e| format!("{method}: {e:?}"))
}

async fn run() -> Result<(), String> {
    let dir = std::env::temp_dir().join(format!("c09_session_{}", std::process::id()));
    let _ = std::fs::remove_dir_all(&dir);
    std::fs::create_dir_all(&dir).unwrap();
    let inc_text = "// é ü — header\nclass Base<int width, string n = \"x\"> {\n  int w = width; // 😀\n  string name = n;\n}\nmulticlass Pair<int k> {\n  def _l : Base<k>;\n}\n";
    let root_text = "include \"inc.td\"\r\n/* 😀😀 */ def d /* é */ : Base<1,\r\n    \"ü\"> { let w = 2; }\r\ndefset list<Base> S = {\r\n  def s0 : Base<3>;\r\n}\r\nforeach i = [1] in {\r\n  def f : Base<i>;\r\n}\r\ndefm p : Pair<4>;\r\n";
    let inc = dir.join("inc.td");
    let root = dir.join("root.td");
    std::fs::write(&inc, inc_text).unwrap();
    std::fs::write(&root, root_text).unwrap();

    // what the analysis computes (byte ranges), asked directly
    let mut vfs = lsp::vfs::Vfs::new();
    let mut host = AnalysisHost::new();
    let root_id = vfs.assign_or_get_file_id(FilePath::from(root.as_path()));
    host.set_file_content(root_id, Arc::from(root_text));
    host.set_root_file(&mut vfs, root_id);
    let inc_id = vfs.assign_or_get_file_id(FilePath::from(inc.as_path()));
    let a = host.analysis();

    let mut router = lsp::server::Server::new_router(ClientSocket::new_closed());
    let open: AnyNotification = serde_json::from_value(json!({"method": "textDocument/didOpen", "params": {"textDocument": {"uri": uri(&root), "languageId": "tablegen", "version": 1, "text": root_text}}})).unwrap();
    let _ = router.notify(open);
    tokio::time::sleep(Duration::from_millis(700)).await;

    let (mut nfold, mut nlink, mut nhint) = (0, 0, 0);
    for (path, id, text) in [(&root, root_id, root_text), (&inc, inc_id, inc_text)] {
        let doc = json!({"uri": uri(path)});
        // document symbols, with children
        let got = ask(&mut router, "textDocument/documentSymbol", json!({"textDocument": doc})).await?;
        let (mut w, mut g) = (vec![], vec![]);
        flat_ide(text, &a.document_symbol(id).unwrap_or_default(), 0, &mut w);
        flat_lsp(&got, 0, &mut g);
        if w != g { return Err(format!("document symbols of {:?} (depth, name, start, end as line / UTF-16 column of that document): the analysis computed {w:?}, the server sent {g:?}", path.file_name().unwrap())); }
        if w.is_empty() { return Err("the session is vacuous: no document symbols".into()); }
        // folding ranges: lines
        let got = ask(&mut router, "textDocument/foldingRange", json!({"textDocument": doc})).await?;
        let mut w: Vec<(u64, u64)> = a.folding_range(id).unwrap_or_default().iter().map(|f| (pos(text, usize::from(f.range.start())).0, pos(text, usize::from(f.range.end())).0)).collect();
        let mut g: Vec<(u64, u64)> = got.as_array().cloned().unwrap_or_default().iter().map(|f| (f["startLine"].as_u64().unwrap(), f["endLine"].as_u64().unwrap())).collect();
        w.sort(); g.sort();
        nfold += w.len();
        if w != g { return Err(format!("folding ranges of {:?} (start line, end line): the analysis computed {w:?}, the server sent {g:?}", path.file_name().unwrap())); }
        // document links
        let got = ask(&mut router, "textDocument/documentLink", json!({"textDocument": doc})).await?;
        let w: Vec<((u64, u64), (u64, u64))> = a.document_link(id).unwrap_or_default().iter().map(|l| (pos(text, usize::from(l.range.start())), pos(text, usize::from(l.range.end())))).collect();
        let g: Vec<((u64, u64), (u64, u64))> = got.as_array().cloned().unwrap_or_default().iter().map(|l| (jpos(&l["range"]["start"]), jpos(&l["range"]["end"]))).collect();
        nlink += w.len();
        if w != g { return Err(format!("document links of {:?}: the analysis computed {w:?}, the server sent {g:?}", path.file_name().unwrap())); }
        // inlay hints for the whole document
        let end = pos(text, text.len());
        let got = ask(&mut router, "textDocument/inlayHint", json!({"textDocument": doc, "range": {"start": {"line": 0, "character": 0}, "end": {"line": end.0, "character": end.1}}})).await?;
        let full = syntax::parser::TextRange::new(0.into(), (text.len() as u32).into());
        let mut w: Vec<((u64, u64), String)> = a.inlay_hint(FileRange::new(id, full)).unwrap_or_default().iter().map(|h| (pos(text, usize::from(h.position)), h.label.clone())).collect();
        let mut g: Vec<((u64, u64), String)> = got.as_array().cloned().unwrap_or_default().iter().map(|h| (jpos(&h["position"]), h["label"].as_str().unwrap_or("").to_string())).collect();
        w.sort(); g.sort();
        nhint += w.len();
        if w != g { return Err(format!("inlay hints of {:?} (position, label): the analysis computed {w:?}, the server sent {g:?}", path.file_name().unwrap())); }
    }
    let _ = std::fs::remove_dir_all(&dir);
    if nfold < 5 || nlink != 1 || nhint < 6 { return Err(format!("the session is vacuous: {nfold} folding ranges, {nlink} links, {nhint} hints")); }
    Ok(())
}

#[test]
fn structured_results_are_sent_in_the_coordinates_of_their_document() {
    std::thread::spawn(|| { std::thread::sleep(Duration::from_secs(90)); eprintln!("WITNESS the server did not answer within 90 s"); std::process::exit(3); });
    let rt = tokio::runtime::Builder::new_multi_thread().enable_all().build().unwrap();
    let r = rt.block_on(run());
    let _ = std::fs::remove_dir_all(std::env::temp_dir().join(format!("c09_session_{}", std::process::id())));
    if let Err(e) = r { panic!("WITNESS {e}"); }
}
