//! BOUNDED stand-in for the document-symbol half of C18 (iterator chains over the symbol map, outside the contracts): a fixed corpus
//! written from the property statement.  The document symbols of a file list, in source order, exactly the classes, named defs,
//! defsets and multiclasses declared in that file (a def inside a defset is that defset's child), each with the right kind, name and
//! the range of its declaring identifier, with one child per template argument and per field declared or overridden in its body.
use ide::handlers::document_symbol::{DocumentSymbol, DocumentSymbolKind};
use verifharness::analysis;

fn render(text: &str, syms: &[DocumentSymbol], out: &mut Vec<String>, depth: usize) {
    for s in syms {
        let kind = match s.kind { DocumentSymbolKind::Class => "class", DocumentSymbolKind::TemplateArgument => "targ", DocumentSymbolKind::Field => "field", DocumentSymbolKind::Def => "def",
            DocumentSymbolKind::Variable => "var", DocumentSymbolKind::Defset => "defset", DocumentSymbolKind::Multiclass => "multiclass" };
        let r = (usize::from(s.range.start()), usize::from(s.range.end()));
        out.push(format!("{}{} {} @{}", "  ".repeat(depth), kind, s.name, &text[r.0..r.1]));
        render(text, &s.children, out, depth + 1);
    }
}
fn outline(files: &[(&str, &str)], which: usize) -> Vec<String> {
    let (a, ids) = analysis(files);
    let mut out = vec![];
    render(files[which].1, &a.document_symbol(ids[which]).unwrap_or_default(), &mut out, 0);
    out
}
#[test]
fn outline_lists_the_declarations_in_source_order() {
    let t = "class Base<int w, string n = \"x\"> { int width = w; string name = n; }\ndef d0 : Base<8> { let width = 16; }\nmulticlass M<int x> { defvar q = x; }\ndefset list<Base> S = { def s0 : Base<5>; def s1 : Base<6>; }\nclass Later;\ndefm m : M<1>;\n";
    let got = outline(&[("/main.td", t)], 0);
    let want = vec!["class Base @Base", "  targ w @w", "  targ n @n", "  field width @width", "  field name @name", "def d0 @d0", "  field width @width", "multiclass M @M", "  targ x @x",
                    "defset S @S", "  def s0 @s0", "  def s1 @s1", "class Later @Later"];
    assert_eq!(got, want.iter().map(|s| s.to_string()).collect::<Vec<_>>(), "WITNESS outline of {t:?}");
}
#[test]
fn redeclared_names_and_both_branches_are_listed() {
    let t = "class Foo;\nclass Bar;\nclass Foo { int a; int b; }\n";
    assert_eq!(outline(&[("/main.td", t)], 0), vec!["class Foo @Foo", "class Bar @Bar", "class Foo @Foo", "  field a @a", "  field b @b"], "WITNESS outline of {t:?}");
}
#[test]
fn only_the_files_own_declarations_are_listed() {
    let files = [("/main.td", "include \"sub.td\"\nclass Foo { int a; }\nclass Baz;\n"), ("/sub.td", "class Foo;\nclass Sub;\n")];
    assert_eq!(outline(&files, 0), vec!["class Foo @Foo", "  field a @a", "class Baz @Baz"], "WITNESS outline of main.td in {files:?}");
    assert_eq!(outline(&files, 1), vec!["class Foo @Foo", "class Sub @Sub"], "WITNESS outline of sub.td in {files:?}");
}
#[test]
fn a_def_inside_a_defset_keeps_its_field_children() {
    let t = "class Base<int w> { int width = w; int depth = 0; }\ndefset list<Base> S = {\n  def s0 : Base<5> { let width = 1; int extra = 2; }\n  def s1 : Base<6>;\n}\n";
    assert_eq!(outline(&[("/main.td", t)], 0), vec!["class Base @Base", "  targ w @w", "  field width @width", "  field depth @depth", "defset S @S", "  def s0 @s0", "    field width @width", "    field extra @extra", "  def s1 @s1"],
        "WITNESS outline of {t:?}");
}
#[test]
fn anonymous_defs_are_not_listed_and_multiclass_template_arguments_are_children() {
    // (where the named defs of a multiclass body appear is not fixed by the property: they are left out of the comparison)
    let t = "class A;\ndef : A;\nmulticlass M<int x, string s = \"d\"> { def _one : A; }\ndef named : A;\n";
    let got: Vec<String> = outline(&[("/main.td", t)], 0).into_iter().filter(|l| !l.contains("_one")).collect();
    assert_eq!(got, vec!["class A @A", "multiclass M @M", "  targ x @x", "  targ s @s", "def named @named"], "WITNESS outline of {t:?}");
}
#[test]
fn defs_declared_inside_let_if_and_foreach_blocks_are_listed() {
    let t = "class A { int v = 0; }\nlet v = 1 in { def inlet : A; }\nif !eq(1, 1) then { def inthen : A; } else { def inelse : A { let v = 2; } }\nforeach i = [1] in { def inloop : A; }\nclass Last;\n";
    assert_eq!(outline(&[("/main.td", t)], 0), vec!["class A @A", "  field v @v", "def inlet @inlet", "def inthen @inthen", "def inelse @inelse", "  field v @v", "def inloop @inloop", "class Last @Last"], "WITNESS outline of {t:?}");
}
