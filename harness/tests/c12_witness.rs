//! C12 witness: an open document's editor text wins over its on-disk text, also when the document is reached only through
//! an include of the current root.  Drives the real lsp::server::Server through its tower service interface.
use async_lsp::{AnyNotification, AnyRequest, ClientSocket, LspService};
use serde_json::json;
use std::time::Duration;
use tower::Service;

fn uri(p: &std::path::Path) -> String { format!("file://{}", p.display()) }
fn open(u: &str, text: &str) -> AnyNotification {
    serde_json::from_value(json!({"method": "textDocument/didOpen", "params": {"textDocument": {"uri": u, "languageId": "tablegen", "version": 1, "text": text}}})).unwrap()
}
fn change(u: &str, text: &str, v: i32) -> AnyNotification {
    serde_json::from_value(json!({"method": "textDocument/didChange", "params": {"textDocument": {"uri": u, "version": v}, "contentChanges": [{"text": text}]}})).unwrap()
}
async fn definition(router: &mut async_lsp::router::Router<lsp::server::Server>, u: &str, line: u32, ch: u32) -> Result<serde_json::Value, String> {
    let req: AnyRequest = serde_json::from_value(json!({"id": 1, "method": "textDocument/definition", "params": {"textDocument": {"uri": u}, "position": {"line": line, "character": ch}}})).unwrap();
    tokio::time::timeout(Duration::from_secs(20), router.call(req)).await.map_err(|_| "definition timed out".to_string())?.map_err(|e| format!("{e:?}"))
}

async fn run() -> Result<(), String> {
    let dir = std::env::temp_dir().join(format!("c12_witness_{}", std::process::id()));
    let _ = std::fs::remove_dir_all(&dir);
    std::fs::create_dir_all(&dir).unwrap();
    let inc = dir.join("inc.td");
    std::fs::write(&inc, "class Old;\n").unwrap();                       // on disk
    let root = dir.join("root.td");
    let root_text = "include \"inc.td\"\ndef d : New;\n";
    std::fs::write(&root, root_text).unwrap();

    let mut router = lsp::server::Server::new_router(ClientSocket::new_closed());
    // (pauses: a notification that arrives while the diagnostics task of the previous one still holds its snapshot can block
    //  the main loop for good - that is property C08, not the subject here)
    let _ = router.notify(open(&uri(&inc), "class First;\n"));         // the editor's buffer of inc.td differs from the disk ...
    tokio::time::sleep(Duration::from_millis(700)).await;
    let _ = router.notify(change(&uri(&inc), "class New;\n", 2));       // ... and is edited before the root is opened
    tokio::time::sleep(Duration::from_millis(700)).await;
    let _ = router.notify(open(&uri(&root), root_text));                // root.td includes inc.td
    tokio::time::sleep(Duration::from_millis(700)).await;
    let r1 = definition(&mut router, &uri(&root), 1, 8).await?;
    // editing the root must not replace the open buffer of inc.td by its on-disk version either
    let _ = router.notify(change(&uri(&root), "include \"inc.td\"\ndef e : New;\n", 2));
    tokio::time::sleep(Duration::from_millis(700)).await;
    let r2 = definition(&mut router, &uri(&root), 1, 8).await?;
    // a document the editor has opened but never saved (no file on disk) is reached through an include of the root as well
    let unsaved = dir.join("unsaved.td");
    let _ = router.notify(open(&uri(&unsaved), "class Fresh;\n"));
    tokio::time::sleep(Duration::from_millis(700)).await;
    let _ = router.notify(change(&uri(&root), "include \"inc.td\"\ninclude \"unsaved.td\"\ndef f : Fresh;\n", 3));
    tokio::time::sleep(Duration::from_millis(700)).await;
    let r3 = definition(&mut router, &uri(&root), 2, 8).await?;
    // an open document reached through a differently spelled path (sub/../inc.td) is still that open document
    std::fs::create_dir_all(dir.join("sub")).unwrap();
    let root2 = dir.join("sub").join("root2.td");
    let root2_text = "include \"../inc.td\"\ndef g : New;\n";
    std::fs::write(&root2, root2_text).unwrap();
    let _ = router.notify(open(&uri(&root2), root2_text));
    tokio::time::sleep(Duration::from_millis(700)).await;
    let r4 = definition(&mut router, &uri(&root2), 1, 8).await?;
    let _ = std::fs::remove_dir_all(&dir);
    let target4 = r4.get("uri").and_then(|u| u.as_str()).unwrap_or("");
    if !target4.ends_with("/inc.td") || target4.contains("..") || r4["range"]["start"]["line"] != 0 || r4["range"]["start"]["character"] != 6 {
        return Err(format!("after opening sub/root2.td, which includes \"../inc.td\": `New` is declared in the editor's buffer of inc.td (disk has `class Old;`): expected a definition at inc.td 0:6 under the document's own URI, got {r4}"));
    }
    let target3 = r3.get("uri").and_then(|u| u.as_str()).unwrap_or("");
    if !target3.ends_with("unsaved.td") || r3["range"]["start"]["line"] != 0 || r3["range"]["start"]["character"] != 6 {
        return Err(format!("after including an open, never saved document: `Fresh` is declared in the editor's buffer of unsaved.td (no file on disk): expected a definition at unsaved.td 0:6, got {r3}"));
    }
    for (what, r) in [("after opening the root", &r1), ("after editing the root", &r2)] {
        let target = r.get("uri").and_then(|u| u.as_str()).unwrap_or("");
        if !target.ends_with("inc.td") || r["range"]["start"]["line"] != 0 || r["range"]["start"]["character"] != 6 {
            return Err(format!("{what}: `New` is declared in the editor's buffer of inc.td (disk has `class Old;`): expected a definition at inc.td 0:6, got {r}"));
        }
    }
    Ok(())
}

#[test]
fn open_buffer_of_an_included_file_wins_over_the_disk() {
    // watchdog: a blocked main loop cannot be interrupted from inside the runtime
    std::thread::spawn(|| { std::thread::sleep(Duration::from_secs(60)); eprintln!("WITNESS the server did not answer within 60 s (blocked main loop)"); std::process::exit(3); });
    let rt = tokio::runtime::Builder::new_multi_thread().enable_all().build().unwrap();
    let r = rt.block_on(run());
    let _ = std::fs::remove_dir_all(std::env::temp_dir().join(format!("c12_witness_{}", std::process::id())));
    if let Err(e) = r { panic!("WITNESS {e}"); }
}
