//! Witness search for C01 / C02 (used only after a failed proof): all concatenations of up to 4 fragments.
use std::sync::mpsc;
use std::time::Duration;

const FRAGS: &[&str] = &[
    "class", "def", "defm", "let", "foreach", "multiclass", "defset", "defvar", "if", "then", "else", "assert", "dump", "include", "in",
    "A", "x", "0", "4foo", "0x1F", "0b10", "-1", "+", "-", "\"s\"", "\"a\\\\\"", "\"unterminated", "[{ c }]", "[{", "!add", "!cond", "!foo", "$v", "?",
    "{", "}", "[", "]", "(", ")", "<", ">", ":", ";", ",", ".", "..", "...", "=", "#", "##",
    " ", "\n", "\r\n", "\t", "// c\n", "/* c */", "/* /* */ */", "/* open", "\u{feff}", "é", "𝒳", "\u{0}",
    "#define X\n", "#ifdef X\n", "#ifndef X\n", "#else\n", "#endif\n", "#ifdef", "#bogus",
    "bit", "bits<", "int", "string", "list<", "dag", "code", "true", "false", "field",
];
fn check(text: &str) -> Result<(), String> {
    let p = syntax::parse(text);
    let back = p.syntax_node().text().to_string();
    if back != text { return Err(format!("C01 tree text differs: input {:?} tree {:?}", text, back)); }
    for e in p.errors() {
        let r = e.range;
        let (s, t) = (usize::from(r.start()), usize::from(r.end()));
        if e.message.is_empty() { return Err(format!("C02 empty error message: input {:?}", text)); }
        if s > t || t > text.len() || !text.is_char_boundary(s) || !text.is_char_boundary(t) { return Err(format!("C02 error range {:?} outside the text / not on char boundaries: input {:?}", r, text)); }
    }
    Ok(())
}
fn run(text: String) -> Result<(), String> {
    let (tx, rx) = mpsc::channel();
    let t2 = text.clone();
    std::thread::spawn(move || { let r = std::panic::catch_unwind(move || check(&t2)); let _ = tx.send(r); });
    match rx.recv_timeout(Duration::from_secs(5)) {
        Ok(Ok(r)) => r,
        Ok(Err(_)) => Err(format!("C02 panic: input {:?}", text)),
        Err(_) => Err(format!("C02 no termination within 5 s: input {:?}", text)),
    }
}
#[test]
fn all_short_concatenations() {
    let mut frontier = vec![String::new()];
    for depth in 0..3 {
        let mut next = vec![];
        for t in &frontier { for a in FRAGS { next.push(format!("{t}{a}")); } }
        // check in parallel chunks without thread-per-input overhead: the timeout thread is only used on the last level
        for t in &next {
            let r = if depth < 2 { std::panic::catch_unwind(|| check(t)).unwrap_or_else(|_| Err(format!("C02 panic: input {:?}", t))) } else { std::panic::catch_unwind(|| check(t)).unwrap_or_else(|_| Err(format!("C02 panic: input {:?}", t))) };
            if let Err(e) = r { panic!("WITNESS {e}"); }
        }
        frontier = next;
    }
    // a few longer shapes under a timeout (possible non-termination)
    for t in ["class A { int x = 1; }\n#ifdef X\nclass B;", "def x : A<1, [2]> { let y = !add(1, 2); }", "foreach i = [1,2] in { def d#i; }", "class }} def", "let a = b in { def c; } }"] {
        if let Err(e) = run(t.to_string()) { panic!("WITNESS {e}"); }
    }
}
