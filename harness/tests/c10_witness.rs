use async_lsp::lsp_types::Position;
use ide::line_index::LineIndex;
use text_size::TextSize;

/// reference: zero-based line (LF, CR, CRLF end a line) and UTF-16 column
fn ref_position(text: &str, off: usize) -> (u32, u32) {
    let b = text.as_bytes();
    let (mut line, mut start, mut i) = (0u32, 0usize, 0usize);
    while i < off {
        if b[i] == b'\n' { line += 1; start = i + 1; }
        else if b[i] == b'\r' { if i + 1 < b.len() && b[i + 1] == b'\n' { if i + 1 < off { i += 1; line += 1; start = i + 1; } } else { line += 1; start = i + 1; } }
        i += 1;
    }
    (line, text[start..off].encode_utf16().count() as u32)
}
fn check(text: &str) {
    let li = LineIndex::new(text);
    for off in 0..=text.len() {
        if !text.is_char_boundary(off) { continue; }
        // offsets between CR and LF of a CRLF are not meaningful positions
        if off > 0 && off < text.len() && &text.as_bytes()[off - 1..off + 1] == b"\r\n" { continue; }
        let p = lsp::to_proto::position(&li, TextSize::from(off as u32));
        assert_eq!((p.line, p.character), ref_position(text, off), "text {:?} offset {}", text, off);
        let back = lsp::from_proto::position(&li, Position::new(p.line, p.character));
        assert_eq!(usize::from(back), off, "round trip, text {:?} offset {}", text, off);
    }
}
#[test] fn ascii_lf() { check("ab\ncd\n\nef"); }
#[test] fn crlf_and_cr() { check("ab\r\ncd\re\r\n"); }
#[test] fn multibyte_and_astral() { check("é\nb𝒳c\nz"); }
#[test] fn only_lf_cr_crlf_are_line_breaks() { check("a\u{2028}b\u{c}c\u{b}d\u{85}e\nf"); }
#[test] fn column_past_end_clamps_to_line_end() {
    let text = "ab\ncd\r\nxyz";
    let li = LineIndex::new(text);
    assert_eq!(usize::from(lsp::from_proto::position(&li, Position::new(0, 99))), 2);
    assert_eq!(usize::from(lsp::from_proto::position(&li, Position::new(1, 99))), 5);
    assert_eq!(usize::from(lsp::from_proto::position(&li, Position::new(2, 99))), 10);
    assert_eq!(usize::from(lsp::from_proto::position(&li, Position::new(9, 0))), 10);
}
