//! BOUNDED stand-in for the hover / label / placement clauses of C19 (rowan navigation + format!, outside the contracts): a fixed corpus
//! written from the property statement.  Hover on a resolved identifier shows the kind, name and declared type of the very symbol
//! go-to-definition jumps to, together with exactly the contiguous `//` comment lines directly above its declaration.  Inlay hints
//! label each positional template argument with the name of the parameter it binds (label punctuation is not compared), placed at the argument's first character, and
//! each field override with the field's declared type, placed right after the field name.
use ide::file_system::{FilePosition, FileRange};
use ide::handlers::inlay_hint::InlayHintKind;
use syntax::parser::TextRange;
use verifharness::analysis;

fn at(t: &str, marker: &str, delta: usize) -> u32 { (t.find(marker).unwrap_or_else(|| panic!("marker {marker:?}")) + delta) as u32 }

#[test]
fn hover_shows_the_symbol_definition_jumps_to_with_its_contiguous_doc_lines() {
    let t = "// not part: separated by a blank line\n\n// first line\n// second line\nclass Foo<int a, string b> {\n  // the width\n  int width = a;\n  int plain;\n}\n// doc of d\ndef d : Foo<1, \"x\"> { let width = 2; }\nclass Bare;\ndef e : Bare;\n";
    let (a, ids) = analysis(&[("/main.td", t)]);
    // (offset, words the signature must show: kind / name / declared types, doc lines, declaration the definition jumps to)
    let cases: Vec<(u32, Vec<&str>, Vec<&str>, &str)> = vec![
        (at(t, "def d : Foo", 8), vec!["class", "Foo", "int", "a", "string", "b"], vec!["first line", "second line"], "class Foo"),
        (at(t, "let width", 4), vec!["int", "width"], vec!["the width"], "int width"),
        (at(t, "= a;", 2), vec!["int", "a"], vec![], "<int a"),
        (at(t, "def e : Bare", 8), vec!["class", "Bare"], vec![], "class Bare"),
        (at(t, "def d", 4), vec!["def", "d"], vec!["doc of d"], "def d"),
    ];
    for (off, sig, doc, decl) in cases {
        let pos = FilePosition::new(ids[0], off.into());
        let h = a.hover(pos).unwrap_or_else(|| panic!("WITNESS no hover at offset {off} of {t:?}"));
        let words: Vec<&str> = h.signature.split(|c: char| !(c.is_alphanumeric() || c == '_')).filter(|w| !w.is_empty()).collect();
        let mut it = words.iter();
        assert!(sig.iter().all(|w| it.any(|x| x == w)), "WITNESS hover signature {:?} at offset {off} of {t:?} does not show {sig:?} in this order", h.signature);
        let lines: Vec<String> = h.document.as_deref().unwrap_or("").lines().map(|l| l.trim().to_string()).filter(|l| !l.is_empty()).collect();
        assert_eq!(lines, doc, "WITNESS hover doc comment at offset {off} of {t:?}");
        // the very symbol go-to-definition jumps to: its target is the declaring identifier of `decl`
        let target = a.goto_definition(pos).unwrap_or_else(|| panic!("WITNESS no definition at offset {off} of {t:?}"));
        let name_off = t.find(decl).unwrap() + decl.rfind(|c: char| c == ' ' || c == '<').map(|i| i + 1).unwrap_or(0);
        assert_eq!(usize::from(target.range.start()), name_off, "WITNESS definition target at offset {off} of {t:?}");
    }
}
#[test]
fn hover_in_an_included_file_reads_that_files_comments() {
    let files = [("/main.td", "include \"sub.td\"\n// wrong comment, same offsets do not matter\ndef d : Sub<1>;\n"), ("/sub.td", "// doc of Sub\nclass Sub<int n>;\n")];
    let (a, ids) = analysis(&files);
    let h = a.hover(FilePosition::new(ids[0], at(files[0].1, "Sub<1>", 1).into())).expect("WITNESS no hover on Sub in main.td");
    assert!(h.signature.contains("Sub") && h.signature.contains("class"), "WITNESS hover signature {:?} on a class of an included file {files:?}", h.signature);
    assert_eq!(h.document.as_deref().map(str::trim), Some("doc of Sub"), "WITNESS hover doc on a class of an included file {files:?}");
}
#[test]
fn hints_name_the_bound_parameter_at_the_arguments_first_character_and_the_field_type_after_its_name() {
    let t = "class Foo<int first, string second, bit third = 0> { int width = first; string label = second; }\ndef d : Foo< 10 ,\n   \"x\"> { let width = 2; let label = \"y\"; }\ndef v { Foo f = Foo<7, \"z\", 1>; }\n";
    let (a, ids) = analysis(&[("/main.td", t)]);
    let full = TextRange::new(0.into(), (t.len() as u32).into());
    let mut got: Vec<(usize, String, bool)> = a.inlay_hint(FileRange::new(ids[0], full)).unwrap_or_default().into_iter()
        .map(|h| (usize::from(h.position), h.label.trim_matches(|c: char| c == ':' || c == '=' || c.is_whitespace()).to_string(), matches!(h.kind, InlayHintKind::TemplateArg))).collect();
    got.sort();
    let mut want: Vec<(usize, String, bool)> = vec![
        (t.find("10").unwrap(), "first".into(), true),
        (t.find("\"x\"").unwrap(), "second".into(), true),
        (t.find("let width").unwrap() + "let width".len(), "int".into(), false),
        (t.find("let label").unwrap() + "let label".len(), "string".into(), false),
        (t.find("7,").unwrap(), "first".into(), true),
        (t.find("\"z\"").unwrap(), "second".into(), true),
        (t.find("1>").unwrap(), "third".into(), true),
    ];
    want.sort();
    assert_eq!(got, want, "WITNESS inlay hints of {t:?}");
}
#[test]
fn a_class_named_as_a_type_inside_an_argument_gets_no_hint_of_its_own() {
    let t = "class Foo<int p>;\nclass Outer<Foo f>;\ndef X : Outer<!cast<Foo>(\"y\")>;\n";
    let (a, ids) = analysis(&[("/main.td", t)]);
    let full = TextRange::new(0.into(), (t.len() as u32).into());
    let got: Vec<(usize, String)> = a.inlay_hint(FileRange::new(ids[0], full)).unwrap_or_default().into_iter()
        .map(|h| (usize::from(h.position), h.label.trim_matches(|c: char| c == ':' || c == '=' || c.is_whitespace()).to_string())).collect();
    assert_eq!(got, vec![(t.find("!cast").unwrap(), "f".to_string())], "WITNESS inlay hints of {t:?}: the only positional argument binds Outer's parameter f");
}
#[test]
fn hover_on_variables_defsets_and_multiclasses() {
    let t = "class A { int width = 1; }\n// the answer\ndefvar answer = 42;\ndefvar twice = !add(answer, answer);\n// a set of A\ndefset list<A> Group = { def g0 : A; }\ndefvar all = Group;\n// makes two\nmulticlass Pair<int n> { def _l : A; def _r : A; }\ndefm p : Pair<1>;\nclass B : A { int w2 = width; }\n";
    let (a, ids) = analysis(&[("/main.td", t)]);
    // (offset of a use, words the signature must show in this order, doc lines, text at the go-to-definition target)
    let cases: Vec<(u32, Vec<&str>, Vec<&str>, &str)> = vec![
        (at(t, "!add(answer", 5), vec!["int", "answer"], vec!["the answer"], "defvar answer"),
        (at(t, "= Group;", 2), vec!["list", "A", "Group"], vec!["a set of A"], "list<A> Group"),
        (at(t, "defm p : Pair", 9), vec!["multiclass", "Pair"], vec!["makes two"], "multiclass Pair"),
        (at(t, "int w2 = width", 9), vec!["int", "A", "width"], vec![], "int width"),
    ];
    for (off, sig, doc, name) in cases {
        let pos = FilePosition::new(ids[0], off.into());
        let h = a.hover(pos).unwrap_or_else(|| panic!("WITNESS no hover at offset {off} of {t:?}"));
        let words: Vec<&str> = h.signature.split(|c: char| !(c.is_alphanumeric() || c == '_')).filter(|w| !w.is_empty()).collect();
        let mut it = words.iter();
        assert!(sig.iter().all(|w| it.any(|x| x == w)), "WITNESS hover signature {:?} at offset {off} of {t:?} does not show {sig:?} in this order", h.signature);
        let lines: Vec<String> = h.document.as_deref().unwrap_or("").lines().map(|l| l.trim().to_string()).filter(|l| !l.is_empty()).collect();
        assert_eq!(lines, doc, "WITNESS hover doc comment at offset {off} of {t:?}");
        let target = a.goto_definition(pos).unwrap_or_else(|| panic!("WITNESS no definition at offset {off} of {t:?}"));
        // `name` = the declaration, its last word is the declaring identifier
        let want = t.find(name).unwrap() + name.rfind(' ').unwrap() + 1;
        assert_eq!(usize::from(target.range.start()), want, "WITNESS definition target at offset {off} of {t:?} is not the declaring identifier");
    }
}
#[test]
fn a_blank_line_ends_the_doc_comment_also_in_crlf_files_and_when_it_carries_indentation() {
    let t = "class Reg;\r\n// legacy, kept for the old backend\r\n\r\n// bank of registers\r\ndefset list<Reg> Bank = {\r\n  def R0 : Reg;\r\n}\r\nclass Holder {\r\n  // scratch value\r\n  \r\n  // number of registers\r\n  int Count = 1;\r\n}\r\ndef H : Holder { let Count = 2; }\r\ndefvar all = Bank;\r\n";
    let (a, ids) = analysis(&[("/main.td", t)]);
    for (off, doc) in [(at(t, "defvar all = Bank", 14), vec!["bank of registers"]), (at(t, "let Count", 5), vec!["number of registers"])] {
        let h = a.hover(FilePosition::new(ids[0], off.into())).unwrap_or_else(|| panic!("WITNESS no hover at offset {off} of {t:?}"));
        let lines: Vec<String> = h.document.as_deref().unwrap_or("").lines().map(|l| l.trim().to_string()).filter(|l| !l.is_empty()).collect();
        assert_eq!(lines, doc, "WITNESS hover doc comment at offset {off} of {t:?}: only the contiguous // lines directly above the declaration");
    }
    let t2 = "class Holder {\n  // scratch value\n  \n  // number of registers\n  int Count = 1;\n}\ndef H : Holder { let Count = 2; }\n";
    let (a, ids) = analysis(&[("/main.td", t2)]);
    let h = a.hover(FilePosition::new(ids[0], at(t2, "let Count", 5).into())).unwrap_or_else(|| panic!("WITNESS no hover in {t2:?}"));
    assert_eq!(h.document.as_deref().map(str::trim), Some("number of registers"), "WITNESS hover doc comment of Count in {t2:?}");
}
