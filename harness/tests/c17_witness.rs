//! C17 recorded inputs: every range of every diagnostic names a workspace file and lies inside that file's text on char boundaries
//! with start <= end, also for non-ASCII and malformed input and for included files.
use verifharness::{analysis, with_timeout};

fn check(files: &[(&str, &str)]) {
    let owned: Vec<(String, String)> = files.iter().map(|(p, c)| (p.to_string(), c.to_string())).collect();
    let r = with_timeout(20, move || {
        let refs: Vec<(&str, &str)> = owned.iter().map(|(p, c)| (p.as_str(), c.as_str())).collect();
        let (a, ids) = analysis(&refs);
        let d = a.diagnostics();
        let mut out = vec![];
        for (f, ds) in d.iter() { for x in ds { out.push((ids.iter().position(|i| i == f), x.location.file == *f, usize::from(x.location.range.start()), usize::from(x.location.range.end()), x.message.clone())); } }
        // the other results that carry ranges: symbols with children, folding ranges, links, hint positions of every file
        fn syms(v: &[ide::handlers::document_symbol::DocumentSymbol], idx: usize, out: &mut Vec<(Option<usize>, bool, usize, usize, String)>) {
            for s in v { out.push((Some(idx), true, usize::from(s.range.start()), usize::from(s.range.end()), format!("document symbol {}", s.name))); syms(&s.children, idx, out); }
        }
        for (idx, id) in ids.iter().enumerate() {
            syms(&a.document_symbol(*id).unwrap_or_default(), idx, &mut out);
            for f in a.folding_range(*id).unwrap_or_default() { out.push((Some(idx), true, usize::from(f.range.start()), usize::from(f.range.end()), "folding range".into())); }
            for l in a.document_link(*id).unwrap_or_default() { out.push((Some(idx), true, usize::from(l.range.start()), usize::from(l.range.end()), "document link".into())); }
            let len = refs[idx].1.len() as u32;
            if len > 0 {
                for h in a.inlay_hint(ide::file_system::FileRange::new(*id, syntax::parser::TextRange::new(0.into(), len.into()))).unwrap_or_default() {
                    out.push((Some(idx), true, usize::from(h.position), usize::from(h.position), format!("inlay hint {}", h.label)));
                }
            }
        }
        out
    });
    // a panic or a hang of the analysis is C02 / C03's subject, not a range that is invalid: no verdict from this input
    let Some(r) = r else { return; };
    for (idx, same_file, s, e, msg) in r {
        let idx = idx.unwrap_or_else(|| panic!("WITNESS a diagnostic names a file outside the workspace: {msg}"));
        assert!(same_file, "WITNESS a diagnostic is filed under a file other than its own: {msg}");
        let text = files[idx].1;
        assert!(s <= e && e <= text.len() && text.is_char_boundary(s) && text.is_char_boundary(e), "WITNESS range {s}..{e} of {msg:?} is not inside {:?} on char boundaries", text);
    }
}
#[test] fn non_ascii_and_malformed_root() { check(&[("/root.td", "clas é;\ndef 日本 : Übung { int ä = \"𝒳; }\n#ifdef X\n")]); }
#[test] fn errors_in_an_included_file() { check(&[("/root.td", "include \"inc.td\"\ndef d : Missing;\n"), ("/inc.td", "// é\nclass A { int x = undefined_ñ; }\nclas B;\n")]); }
#[test] fn unresolved_include_and_bad_template_args() { check(&[("/root.td", "include \"nope.td\"\nclass A<int x>;\ndef d : A<1, 2, \"ü\">;\n")]); }
#[test] fn semantic_diagnostic_over_non_ascii_text() { check(&[("/root.td", "class Foo<int x>;\ndef d : Foo<\"日本語\">;\ndef e : Foo<7 /* ｎｏｔ　ｓｔｒｉｎｇ */ , 8>;\n")]); }
#[test] fn diagnostic_after_a_nested_include_stays_in_its_file() {
    // main -> a -> b: what follows `include "b.td"` in a.td belongs to a.td (main.td is shorter than the offsets involved)
    check(&[("/m.td", "include \"a.td\"\n"), ("/a.td", "include \"b.td\"\n// padding padding padding padding\nclass A { int x = undefined_in_a; }\n"), ("/b.td", "class B;\n")]);
}
#[test] fn what_follows_a_repeated_include_stays_in_its_file() {
    // types.td is included by main.td and again by regs.td: the rest of regs.td belongs to regs.td (main.td is much shorter)
    check(&[("/main.td", "class M;\ninclude \"types.td\"\ninclude \"regs.td\"\n"), ("/types.td", "class Ty<int width>;\n"),
            ("/regs.td", "include \"types.td\"\n// register classes of the target, padding padding padding\nclass RegClass<Ty ty> { Ty Type = ty; }\ndef Bad : Missing;\n")]);
}
