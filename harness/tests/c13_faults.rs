//! BOUNDED stand-in for the semantic half of C13 (the type checker spread over the indexer is outside the contracts): a fixed corpus
//! written from the property statement.  A well-formed program of the supported core produces no diagnostics; seeding exactly one
//! fault produces at least one diagnostic whose range covers the seeded site, in the seeded file, and none in the other files.
use verifharness::{analysis, with_timeout};

fn diags(files: &[(&str, &str)]) -> Vec<Vec<(usize, usize, String)>> {
    let owned: Vec<(String, String)> = files.iter().map(|(p, c)| (p.to_string(), c.to_string())).collect();
    with_timeout(30, move || {
        let refs: Vec<(&str, &str)> = owned.iter().map(|(p, c)| (p.as_str(), c.as_str())).collect();
        let (a, ids) = analysis(&refs);
        let d = a.diagnostics();
        ids.iter().map(|i| d.get(i).cloned().unwrap_or_default().iter().map(|x| (usize::from(x.location.range.start()), usize::from(x.location.range.end()), x.message.clone())).collect()).collect()
    }).expect("diagnostics did not return")
}
const CORE: &str = "class Base<int w, string n = \"x\"> { int width = w; string name = n; }\nclass Derived<int w> : Base<w, \"d\"> { int twice = !add(w, w); }\ndef d0 : Base<8>;\ndef d1 : Derived<4> { let width = 16; }\ndefvar v = 3;\nforeach i = [1, 2] in { def f#i : Base<i>; }\nif !eq(v, 3) then { def t : Base<1>; } else { def e : Base<2>; }\ndefset list<Base> S = { def s0 : Base<5>; }\nmulticlass M<int x> { def _a : Base<x>; }\ndefm m : M<7>;\n";
#[test]
fn well_formed_programs_have_no_diagnostics() {
    let d = diags(&[("/root.td", CORE)]);
    assert!(d[0].is_empty(), "WITNESS a well-formed program got diagnostics: {:?}", d[0]);
    let d = diags(&[("/root.td", "include \"inc.td\"\ndef r : Inc<1>;\n"), ("/inc.td", "class Inc<int a> { int v = a; }\n")]);
    assert!(d[0].is_empty() && d[1].is_empty(), "WITNESS a well-formed two-file program got diagnostics: {:?}", d);
}
/// (program, the seeded site as a substring of it)
const FAULTS: &[(&str, &str)] = &[
    ("class A;\ndef d : Missing;\n", "Missing"),                                                   // undefined class
    ("multiclass M { def _a; }\ndefm m : Nope;\n", "Nope"),                                       // undefined multiclass
    ("class A { int x = undefined_name; }\n", "undefined_name"),                                   // undefined identifier
    ("defvar a = 1;\ndefvar l = [a, 2, undefined_later];\n", "undefined_later"),                  // undefined identifier, not the first element of a list
    ("def ops;\ndefvar d = (ops $x, undefined_arg);\n", "undefined_arg"),                          // undefined identifier after a bare $name in a dag
    ("foreach i = [1] in { def r#undefined_paste; }\n", "undefined_paste"),                         // undefined identifier pasted onto a def name
    ("include \"nope.td\"\nclass A;\n", "include \"nope.td\""),                                   // undefined include
    ("class A<int x> { int v = x; }\ndef d : A;\n", "A;"),                                          // missing template argument (none given)
    ("class A<int x, int y> { int v = x; int w = y; }\ndef d : A<1>;\n", "A<1>"),                  // missing template argument
    ("class A<int x> { int v = x; }\ndef d : A<1, 2>;\n", "A<1, 2>"),                              // surplus template argument
    ("class A<int x = 0, int y> { int v = x; int w = y; }\ndef d : A<1>;\n", "A<1>"),                // missing template argument declared AFTER a defaulted one
    ("class A<int x = 0, int y = 1, int z> { int v = z; }\ndef d : A<>;\n", "A<>"),                  // missing template argument behind two defaulted ones, none given
    ("class A<int x = 0, int y> { int v = y; }\ndefvar c = A<1>.v;\n", "A<1>"),                      // ... of a class value
    ("class A<int x>;\nmulticlass M<int p = 0, int q> { def _a : A<q>; }\ndefm m : M<1>;\n", "M<1>"), // ... of a defm
    ("class A<int x> { int v = x; }\ndef d : A<\"s\">;\n", "\"s\""),                              // type-incompatible argument
    ("class A { int v = \"s\"; }\n", "\"s\""),                                                     // type-incompatible initialiser
    ("class A { int v = 1; }\ndef d : A { let v = \"s\"; }\n", "\"s\""),                          // type-incompatible override
    ("defvar v = !add(1);\n", "!add(1)"),                                                           // wrong operator arity
    ("class A;\nclas B;\n", "clas B"),                                                                // syntax error in the root
    ("class A<int x>;\nmulticlass M<int y> { def _a : A<y, 2>; }\ndefm m : M<1>;\n", "A<y, 2>"),              // surplus template argument inside a multiclass body
    ("class A<int x>;\nmulticlass M<int y> { def _a : A<y>; }\ndefm m : M<1, 2>;\n", "M<1, 2>"),              // surplus template argument of a defm
    ("class A<int x>;\nmulticlass M<int y> { def _a : A<y>; }\ndefm m : M;\n", "M;"),                        // missing template argument of a defm
    ("class A<int x>;\nmulticlass M<int y> { def _a : A<y>; }\ndefm m : M<\"s\">;\n", "\"s\""),          // type-incompatible argument of a defm
    ("class A { int v = 1; }\nforeach i = [1, 2] in { def d#i : A { let v = undefined_in_loop; } }\n", "undefined_in_loop"), // undefined identifier in a foreach body
    ("class A { int v = 1; }\nif !eq(1, 1) then { def t : A; } else { def e : Missing; }\n", "Missing"),     // undefined class in an else branch
    ("class A { int v = 1; }\nlet v = \"s\" in { def d : A; }\n", "\"s\""),                               // type-incompatible value in a top-level let
    ("class A { int v = 1; }\ndefset list<A> S = { def d : Nope; }\n", "Nope"),                              // undefined class inside a defset
    ("class A<int x> { int v = x; }\ndefvar c = A<1, 2>.v;\n", "A<1, 2>"),                                   // surplus template argument of a class value
    ("class A<int x> { int v = x; }\ndef d : A<y = 1>;\n", "y"),                                             // named argument that does not exist
    ("class R<int size, string prefix = \"r\"> { int s = size; string p = prefix; }\ndef d : R<1, \"prefix\" = 7>;\n", "\"prefix\" = 7"),   // type-incompatible NAMED argument
    ("class R<int size, string prefix = \"r\"> { int s = size; string p = prefix; }\nmulticlass B<int w, string tag = \"b\"> { def _l : R<w, \"prefix\" = tag>; }\ndefm g : B<32, \"tag\" = 7>;\n", "\"tag\" = 7"),   // ... of a defm
    ("class A { int v = 1; }\ndefvar w = A<>.nofield;\n", "nofield"),                                        // undefined field
    ("defvar v = !foldl(0, [1], acc);\n", "!foldl(0, [1], acc)"),                                             // wrong operator arity (foldl)
];
#[test]
fn one_seeded_fault_is_diagnosed_at_its_site() {
    // every fault is tried; all undiagnosed ones are reported together (one line each)
    let mut missed = vec![];
    for (prog, site) in FAULTS {
        let d = diags(&[("/root.td", prog)]);
        let s = prog.find(site).unwrap();
        let e = s + site.len();
        if !d[0].iter().any(|(a, b, _)| *a < e && *b > s) { missed.push(format!("WITNESS no diagnostic covers the seeded site {site:?} ({s}..{e}) of {prog:?}: {:?}", d[0])); }
    }
    assert!(missed.is_empty(), "{}", missed.join("\n"));
}
#[test]
fn a_fault_in_an_included_file_is_diagnosed_there_only() {
    let d = diags(&[("/root.td", "include \"inc.td\"\ndef r : Inc;\n"), ("/inc.td", "class Inc { int v = missing_name; }\n")]);
    assert!(d[0].is_empty(), "WITNESS the root is not touched by the fault: {:?}", d[0]);
    assert!(d[1].iter().any(|(a, b, _)| *a <= 20 && *b >= 20 + 12 - 1), "WITNESS no diagnostic covers `missing_name` in the included file: {:?}", d[1]);
}
