//! C19 witness (the range clause): only inlay hints inside the requested range are returned.
use ide::file_system::FileRange;
use verifharness::analysis;

#[test]
fn only_hints_inside_the_requested_range_are_returned() {
    let t = "class Foo<int a, int b>;\ndef d : Foo<1,\n  2>;\ndef e : Foo<3, 4>;\n";
    let (a, ids) = analysis(&[("/main.td", t)]);
    // request exactly the line `def d : Foo<1,` (up to the end of that line)
    let s = t.find("def d").unwrap();
    let e = t.find("1,").unwrap() + 2;
    let r = syntax::parser::TextRange::new((s as u32).into(), (e as u32).into());
    let hints = a.inlay_hint(FileRange::new(ids[0], r)).unwrap_or_default();
    let pos: Vec<usize> = hints.iter().map(|h| usize::from(h.position)).collect();
    assert!(pos.iter().all(|p| s <= *p && *p <= e), "WITNESS requested {s}..{e} of {t:?}, got hint positions {pos:?}");
    assert!(pos.contains(&t.find("1,").unwrap()), "the hint of the first argument lies inside the range: {pos:?}");
}
