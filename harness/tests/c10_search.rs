//! Witness search for C10 (used only after a failed proof): exhaustive comparison of the real conversions with a
//! reference on all strings up to length 5 over {a, space, LF, CR, 2-, 3-, 4-byte char, FF, U+2028}.
use async_lsp::lsp_types::Position;
use ide::line_index::LineIndex;
use text_size::TextSize;

fn ref_position(text: &str, off: usize) -> (u32, u32) {
    let b = text.as_bytes();
    let (mut line, mut start, mut i) = (0u32, 0usize, 0usize);
    while i < off {
        if b[i] == b'\n' { line += 1; start = i + 1; }
        else if b[i] == b'\r' {
            if i + 1 < b.len() && b[i + 1] == b'\n' { if i + 1 < off { i += 1; line += 1; start = i + 1; } } else { line += 1; start = i + 1; }
        }
        i += 1;
    }
    (line, text[start..off].encode_utf16().count() as u32)
}
/// line starts and line ends (terminator excluded)
fn ref_lines(text: &str) -> Vec<(usize, usize)> {
    let b = text.as_bytes();
    let mut v = vec![];
    let (mut start, mut i) = (0usize, 0usize);
    while i < b.len() {
        if b[i] == b'\n' { v.push((start, i)); start = i + 1; }
        else if b[i] == b'\r' { v.push((start, i)); if i + 1 < b.len() && b[i + 1] == b'\n' { i += 1; } start = i + 1; }
        i += 1;
    }
    v.push((start, b.len()));
    v
}
fn check(text: &str) -> Result<(), String> {
    let li = LineIndex::new(text);
    for off in 0..=text.len() {
        if !text.is_char_boundary(off) { continue; }
        if off > 0 && off < text.len() && &text.as_bytes()[off - 1..off + 1] == b"\r\n" { continue; }
        let p = lsp::to_proto::position(&li, TextSize::from(off as u32));
        if (p.line, p.character) != ref_position(text, off) {
            return Err(format!("to_proto::position: text {:?} offset {} -> ({}, {}), expected {:?}", text, off, p.line, p.character, ref_position(text, off)));
        }
        let back = lsp::from_proto::position(&li, Position::new(p.line, p.character));
        if usize::from(back) != off { return Err(format!("round trip: text {:?} offset {} -> ({}, {}) -> {}", text, off, p.line, p.character, usize::from(back))); }
    }
    let lines = ref_lines(text);
    for (l, (s, e)) in lines.iter().enumerate() {
        let width = text[*s..*e].encode_utf16().count() as u32;
        for extra in [0u32, 1, 7] {
            let got = usize::from(lsp::from_proto::position(&li, Position::new(l as u32, width + extra)));
            if got != *e { return Err(format!("past the end: text {:?} line {} column {} -> {}, expected the line end {}", text, l, width + extra, got, e)); }
        }
    }
    let got = usize::from(lsp::from_proto::position(&li, Position::new(lines.len() as u32, 0)));
    if got != text.len() { return Err(format!("line past the last: text {:?} line {} -> {}, expected {}", text, lines.len(), got, text.len())); }
    Ok(())
}
#[test]
fn exhaustive_small_texts() {
    let alphabet = ["a", " ", "\n", "\r", "é", "€", "𝒳", "\u{c}", "\u{2028}"];
    let mut texts = vec![String::new()];
    let mut frontier = vec![String::new()];
    for _ in 0..5 {
        let mut next = vec![];
        for t in &frontier { for a in alphabet { next.push(format!("{t}{a}")); } }
        texts.extend(next.iter().cloned());
        frontier = next;
    }
    for t in &texts {
        let t2 = t.clone();
        let r = std::panic::catch_unwind(move || check(&t2));
        match r {
            Ok(Ok(())) => {}
            Ok(Err(e)) => panic!("WITNESS {e}"),
            Err(_) => panic!("WITNESS panic on text {:?}", t),
        }
    }
}
