//! BOUNDED stand-in for the parts of C05 outside the contracts (class references through the global tables, field suffixes, dag and list
//! elements, references lists: symbol-map and rowan code): a fixed corpus written from the property statement.  In a program where every
//! used name is in scope at its use, go-to-definition on each use lands exactly on the declaring identifier, and find-references on a
//! declaration returns exactly its uses.
use ide::file_system::FilePosition;
use verifharness::analysis;

/// `name#k` = the k-th occurrence (0-based) of `name` as a whole word in the text
fn occ(text: &str, name: &str, k: usize) -> usize {
    let b = text.as_bytes();
    let isw = |c: u8| c.is_ascii_alphanumeric() || c == b'_';
    let mut n = 0;
    let mut from = 0;
    while let Some(p) = text[from..].find(name) {
        let s = from + p;
        let e = s + name.len();
        let left_ok = s == 0 || !(isw(b[s - 1]) || b[s - 1] == b'$');
        let right_ok = e == b.len() || !isw(b[e]);
        if left_ok && right_ok { if n == k { return s; } n += 1; }
        from = s + 1;
    }
    panic!("occurrence {k} of {name} not found in {text:?}");
}
/// decls: (name, occurrence of the declaration, occurrences of its uses)
fn check(text: &str, decls: &[(&str, usize, &[usize])]) {
    let (a, ids) = analysis(&[("/main.td", text)]);
    let diags = a.diagnostics();
    assert!(diags.values().all(|v| v.is_empty()), "WITNESS {text:?}: every name is in scope, but diagnostics {diags:?}");
    for (name, d, uses) in decls {
        let dpos = occ(text, name, *d);
        for u in uses.iter() {
            let upos = occ(text, name, *u);
            let got = a.goto_definition(FilePosition::new(ids[0], (upos as u32).into()));
            assert!(matches!(got, Some(r) if r.file == ids[0] && usize::from(r.range.start()) == dpos && usize::from(r.range.end()) == dpos + name.len()),
                "WITNESS {text:?}: go-to-definition on the use of `{name}` at offset {upos} must land on its declaration at {dpos}, got {got:?}");
        }
        let mut refs: Vec<usize> = a.references(FilePosition::new(ids[0], (dpos as u32).into())).unwrap_or_default().into_iter().map(|r| usize::from(r.range.start())).collect();
        refs.sort();
        let mut want: Vec<usize> = uses.iter().map(|u| occ(text, name, *u)).collect();
        want.sort();
        assert_eq!(refs, want, "WITNESS {text:?}: find-references on the declaration of `{name}` at offset {dpos} must return exactly its uses");
    }
}
#[test]
fn classes_template_arguments_fields_and_heirs() {
    let t = "class Base<int width, string tag = \"t\"> { int w = width; string label = tag; int twice = !add(w, w); }\nclass Derived<int n> : Base<n, \"d\"> { int extra = !add(w, n); }\ndef d0 : Derived<4> { let w = 1; int mine = extra; }\ndefvar v = d0.mine;\n";
    check(t, &[("Base", 0, &[1]), ("width", 0, &[1]), ("tag", 0, &[1]), ("w", 0, &[1, 2, 3, 4]), ("Derived", 0, &[1]), ("n", 0, &[1, 2]), ("extra", 0, &[1]), ("d0", 0, &[1]), ("mine", 0, &[1])]);
}
#[test]
fn defvar_foreach_and_bang_operator_variables() {
    let t = "defvar base = 2;\ndefvar xs = [base, 3];\ndefvar ys = !foreach(x, xs, !add(x, base));\ndefvar s = !foldl(0, ys, acc, y, !add(acc, y));\nforeach i = xs in { defvar k = !add(i, 1); def r#i { int v = k; int j = i; } }\n";
    check(t, &[("base", 0, &[1, 2]), ("xs", 0, &[1, 2]), ("x", 0, &[1]), ("ys", 0, &[1]), ("acc", 0, &[1]), ("y", 0, &[1]), ("i", 0, &[1, 2, 3]), ("k", 0, &[1])]);
}
#[test]
fn dag_and_list_elements_after_a_bare_name_argument() {
    let t = "def ops;\ndef r;\ndef q;\nclass C { dag d = (ops $a, r, q:$b); list<dag> l = [(ops r), (ops $c, q)]; }\n";
    check(t, &[("ops", 0, &[1, 2, 3]), ("r", 0, &[1, 2]), ("q", 0, &[1, 2])]);
}
#[test]
fn multiclass_defm_defset_and_let() {
    let t = "class Inner<int i> { int val = i; }\nmulticlass M<int x> { def _a : Inner<x>; def _b : Inner<!add(x, 1)>; }\ndefm m : M<1>;\ndefset list<Inner> S = { def e : Inner<2>; }\nlet val = 3 in { def f : Inner<4>; }\ndefvar all = S;\n";
    check(t, &[("Inner", 0, &[1, 2, 3, 4, 5]), ("i", 0, &[1]), ("M", 0, &[1]), ("x", 0, &[1, 2]), ("S", 0, &[1])]);
}
