fn errs(t: &str) -> Vec<String> { let p = syntax::parse(t); assert_eq!(p.syntax_node().text().to_string(), t); p.errors().iter().map(|e| e.to_string()).collect() }
#[test] fn unterminated_disabled() { assert!(errs("#ifdef X\nclass A;").iter().any(|e| e.contains("without matching #endif")), "{:?}", errs("#ifdef X\nclass A;")); }
#[test] fn unterminated_enabled() { assert!(errs("#define X\n#ifdef X\nclass A;").iter().any(|e| e.contains("without matching #endif"))); }
#[test] fn unterminated_else() { assert!(errs("#define X\n#ifdef X\nclass A;\n#else\nclass B;").iter().any(|e| e.contains("without matching #endif"))); }
#[test] fn terminated_ok() { assert!(errs("#define X\n#ifdef X\nclass A;\n#else\nclass B;\n#endif\n#ifndef X\nclass C;\n#endif\nclass D;").is_empty()); }
#[test] fn nested_ok() { assert!(errs("#ifdef X\n#ifdef Y\n#else\n#endif\nclass A;\n#else\nclass B;\n#endif\n").is_empty()); }
