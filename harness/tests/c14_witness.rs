use syntax::lexer::Lexer;
use syntax::token_kind::TokenKind;
use syntax::token_stream::TokenStream;
fn toks(t: &str) -> Vec<(TokenKind, usize)> {
    let mut l = Lexer::new(t);
    let mut v = vec![];
    loop { let k = l.eat(); v.push((k, l.cursor())); if k == TokenKind::Eof { break; } }
    v
}
#[test] fn minus_at_eof() { assert_eq!(toks("a -")[2].0, TokenKind::Minus); }
#[test] fn plus_at_eof() { assert_eq!(toks("+")[0].0, TokenKind::Plus); }
#[test] fn digit_leading_ident() { assert_eq!(toks("4foo")[0], (TokenKind::Id, 4)); }
#[test] fn escaped_backslash() { assert_eq!(toks("\"a\\\\\" x")[0], (TokenKind::StrVal, 5)); }
#[test] fn nested_comment() { assert_eq!(toks("/* /* */ */ x")[0], (TokenKind::BlockComment, 11)); }
