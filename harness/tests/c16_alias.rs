//! C16 on a real (OS) file system: include paths that name the same file with a different spelling (`./a.td`, `sub/../a.td`)
//! must not multiply the workspace: the workspace consists of exactly the files reachable from the root, each indexed once.
use std::sync::Arc;
use ide::analysis::AnalysisHost;
use ide::file_system::{FilePath, FileSystem};
use verifharness::with_timeout;

fn workspace_of(dir_name: &str, files: &[(&str, &str)]) -> Option<(usize, usize)> {
    let dir = std::env::temp_dir().join(format!("{dir_name}_{}", std::process::id()));
    let _ = std::fs::remove_dir_all(&dir);
    std::fs::create_dir_all(dir.join("sub")).unwrap();
    for (n, t) in files { std::fs::write(dir.join(n), t).unwrap(); }
    let root = dir.join(files[0].0);
    let root_text = files[0].1.to_string();
    let r = with_timeout(60, move || {
        let mut vfs = lsp::vfs::Vfs::new();
        let mut host = AnalysisHost::new();
        let id = vfs.assign_or_get_file_id(FilePath::from(root.as_path()));
        host.set_file_content(id, Arc::from(root_text.as_str()));
        host.set_root_file(&mut vfs, id);
        let a = host.analysis();
        let diags = a.diagnostics();
        (diags.len(), diags.values().map(|v| v.len()).sum::<usize>())
    });
    let _ = std::fs::remove_dir_all(&dir);
    r
}
#[test]
fn self_include_through_a_dot_alias() {
    let files = [("a.td", "include \"./a.td\"\nclass A;\n")];
    let r = workspace_of("c16_alias_dot", &files);
    assert_eq!(r.map(|x| x.0), Some(1), "WITNESS {files:?} on the OS file system: the workspace must consist of exactly 1 file (a.td includes itself as ./a.td); got (files, diagnostics) = {r:?} (None = no answer within 60 s)");
}
#[test]
fn cycle_through_a_parent_dir_alias() {
    let files = [("a.td", "include \"sub/b.td\"\nclass A;\n"), ("sub/b.td", "include \"../a.td\"\nclass B;\n")];
    let r = workspace_of("c16_alias_dotdot", &files);
    assert_eq!(r.map(|x| x.0), Some(2), "WITNESS {files:?} on the OS file system: the workspace must consist of exactly 2 files (a.td <-> sub/b.td); got (files, diagnostics) = {r:?} (None = no answer within 60 s)");
}
#[test]
fn diamond_through_a_parent_dir_alias_is_indexed_once() {
    // main -> sub/x.td -> ../common.td   and   main -> common.td : common.td is one file, its class is declared once
    let files = [("main.td", "include \"sub/x.td\"\ninclude \"common.td\"\ndef d : Common;\n"), ("sub/x.td", "include \"../common.td\"\nclass X : Common;\n"), ("common.td", "class Common;\n")];
    let r = workspace_of("c16_alias_diamond", &files);
    assert_eq!(r, Some((3, 0)), "WITNESS {files:?} on the OS file system: exactly 3 files and no diagnostic (common.td is reached along two paths and indexed once); got (files, diagnostics) = {r:?}");
}
