//! C13 witness (the syntax-error clause): a syntax error in an included file produces a diagnostic in THAT file whose
//! range covers the faulty site, and none in files the fault does not touch.
use verifharness::{analysis, with_timeout};

#[test]
fn syntax_error_in_an_included_file_is_reported_there() {
    let r = with_timeout(20, || {
        let files = [("/root.td", "include \"inc.td\"\nclass Ok;\n"), ("/inc.td", "class A;\nclas B;\nclass C;\n")];
        let (a, ids) = analysis(&files);
        let d = a.diagnostics();
        let root = d.get(&ids[0]).cloned().unwrap_or_default();
        let inc = d.get(&ids[1]).cloned().unwrap_or_default();
        (root.iter().map(|x| format!("{:?} {}", x.location.range, x.message)).collect::<Vec<_>>(),
         inc.iter().map(|x| (usize::from(x.location.range.start()), usize::from(x.location.range.end()), x.message.clone())).collect::<Vec<_>>())
    }).expect("diagnostics did not return");
    let (root, inc) = r;
    assert!(root.is_empty(), "WITNESS the root file is not touched by the fault but got diagnostics: {:?}", root);
    // `clas B;` starts at byte 9 of inc.td
    assert!(inc.iter().any(|(s, e, _)| *s <= 9 + 4 && *e >= 9), "WITNESS no diagnostic covers the syntax error `clas B;` (bytes 9..16) of the included file: {:?}", inc);
}
#[test]
fn syntax_error_in_the_root_is_reported() {
    let (a, ids) = analysis(&[("/root.td", "clas B;\n")]);
    let d = a.diagnostics();
    assert!(!d.get(&ids[0]).cloned().unwrap_or_default().is_empty());
}
#[test]
fn syntax_error_two_includes_deep_is_reported_there() {
    let r = with_timeout(20, || {
        let files = [("/main.td", "include \"a.td\"\ndef Top : A;\n"), ("/a.td", "include \"b.td\"\nclass A : B;\n"), ("/b.td", "class B;\nclas Broken;\n")];
        let (a, ids) = analysis(&files);
        let d = a.diagnostics();
        (0..3).map(|i| d.get(&ids[i]).cloned().unwrap_or_default().iter().map(|x| (usize::from(x.location.range.start()), usize::from(x.location.range.end()))).collect::<Vec<_>>()).collect::<Vec<_>>()
    }).expect("diagnostics did not return");
    assert!(r[0].is_empty() && r[1].is_empty(), "WITNESS files the fault does not touch got diagnostics: {:?}", r);
    assert!(r[2].iter().any(|(s, e)| *s <= 9 + 4 && *e >= 9), "WITNESS no diagnostic covers the syntax error `clas Broken;` (bytes 9..21) of /b.td, which is reached through two includes: {:?}", r[2]);
}
