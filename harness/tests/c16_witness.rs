use verifharness::{analysis, with_timeout};

/// a file that includes itself: selecting the root must terminate
#[test]
fn self_include_terminates() {
    let r = with_timeout(10, || { let (a, _ids) = analysis(&[("/m.td", "include \"m.td\"\nclass A;\n")]); let _ = a.diagnostics(); true });
    assert_eq!(r, Some(true), "set_root_file / indexing did not return (include cycle)");
}
/// mutual include cycle
#[test]
fn include_cycle_terminates() {
    let r = with_timeout(10, || { let (a, _ids) = analysis(&[("/a.td", "include \"b.td\"\nclass A;\n"), ("/b.td", "include \"a.td\"\nclass B;\n")]); let _ = a.diagnostics(); true });
    assert_eq!(r, Some(true));
}
/// diamond: d.td is included along two paths; its declarations (and its diagnostics) must appear once
#[test]
fn diamond_is_indexed_once() {
    let files = [("/root.td", "include \"l.td\"\ninclude \"r.td\"\n"), ("/l.td", "include \"d.td\"\n"), ("/r.td", "include \"d.td\"\n"),
                 ("/d.td", "def X { int f = undefined_name; }\n")];
    let (a, ids) = analysis(&files);
    let d = a.diagnostics();
    let n = d.get(&ids[3]).map(|v| v.len()).unwrap_or(0);
    assert_eq!(n, 1, "diagnostics of d.td: {:?}", d.get(&ids[3]));
}
