use ide::file_system::{FilePosition, FileRange};
use verifharness::{analysis, with_timeout};

/// `class A : A;` then a field lookup through A: Record::find_field recursed forever (stack overflow)
#[test]
fn self_parent_class_does_not_overflow_the_stack() {
    let text = "class A : A;\ndef x : A { let f = 1; }\n";
    let r = with_timeout(20, move || {
        let (a, ids) = analysis(&[("/main.td", text)]);
        let _ = a.diagnostics();
        let _ = a.hover(FilePosition::new(ids[0], 30.into()));
        true
    });
    assert_eq!(r, Some(true));
}
/// inlay hints for an EMPTY range: iset panics ("Interval ... is empty") via SymbolMap::iter_symbols_in_range
#[test]
fn inlay_hint_with_empty_range_does_not_panic() {
    let text = "class A<int x>;\ndef d : A<1>;\n";
    let (a, ids) = analysis(&[("/main.td", text)]);
    let r = syntax::parser::TextRange::new(5.into(), 5.into());
    let _ = a.inlay_hint(FileRange::new(ids[0], r));
}
