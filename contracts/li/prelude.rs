// Unit LI prelude (C10).  ASSUMED contracts of ropey 1.6.1 `Rope` (written from its documentation, src/rope.rs "Index
// conversion methods" and src/lib.rs "A Note About Line Breaks") and of text-size's conversions.  The set of line
// breaks ropey recognises is a BUILD-TIME choice (cargo features cr_lines / unicode_lines); module `ropeycfg` is
// generated on every run from the features cargo reports for the ropey artifact of THIS build of /repo.
pub mod vprelude {
use vstd::prelude::*;
pub use ropey::Rope;
pub use syntax::parser::TextSize;
pub use crate::lispec::*;
pub use crate::ropeycfg::*;
verus!{
#[verifier::external_type_specification] #[verifier::external_body] pub struct ExRope(Rope);
#[verifier::external_type_specification] #[verifier::external_body] pub struct ExTextSize(TextSize);
/// the text a rope holds
pub uninterp spec fn rope_view(r: &Rope) -> Seq<char>;
pub uninterp spec fn ts_val(t: TextSize) -> nat;

/// ropey's line breaks: LF and CRLF always; CR with feature cr_lines (implied by unicode_lines); VT, FF, NEL, LS, PS with unicode_lines
pub open spec fn is_uni_brk(c: char) -> bool { c == '\u{0B}' || c == '\u{0C}' || c == '\u{85}' || c == '\u{2028}' || c == '\u{2029}' }
pub open spec fn ropey_brk() -> Brk {
    |s: Seq<char>, i: int| 1 <= i <= s.len() && (s[i - 1] == '\n'
        || ((ropey_cr_lines() || ropey_unicode_lines()) && s[i - 1] == '\r' && !(i < s.len() && s[i] == '\n'))
        || (ropey_unicode_lines() && is_uni_brk(s[i - 1])))
}
pub open spec fn rline(s: Seq<char>, i: int) -> nat { g_line_of(ropey_brk(), s, i) }
pub open spec fn rnth(s: Seq<char>, l: nat) -> int { g_nth(ropey_brk(), s, l) }
pub open spec fn rlines(s: Seq<char>) -> nat { rline(s, s.len() as int) + 1 }
/// proved: with cr_lines and without unicode_lines, ropey's line breaks are exactly the property's (LF, CR, CRLF)
pub proof fn lemma_ropey_lines(s: Seq<char>)
    requires ropey_cr_lines(), !ropey_unicode_lines()
    ensures ropey_brk() == ref_brk(), rlines(s) == nlines(s)
{ assert(ropey_brk() =~= ref_brk()); }

pub assume_specification [Rope::from_str] (text: &str) -> (r: Rope) ensures rope_view(&r) == text@;
pub assume_specification [Rope::len_bytes] (r: &Rope) -> (n: usize) ensures n == blen(rope_view(r));
pub assume_specification [Rope::len_chars] (r: &Rope) -> (n: usize) ensures n == rope_view(r).len();
pub assume_specification [Rope::len_lines] (r: &Rope) -> (n: usize) ensures n == rlines(rope_view(r));
pub assume_specification [Rope::len_utf16_cu] (r: &Rope) -> (n: usize) ensures n == ulen(rope_view(r));
// "Panics if byte_idx is out of bounds (i.e. byte_idx > len_bytes()).  If the byte is in the middle of a multi-byte char,
//  returns the index of the char that the byte belongs to.  byte_idx can be one-past-the-end."     (cob: lispec)
pub assume_specification [Rope::byte_to_char] (r: &Rope, byte_idx: usize) -> (c: usize)
    requires byte_idx <= blen(rope_view(r)) ensures c == cob(rope_view(r), byte_idx as nat);
// "functionally equivalent to counting the line endings before the specified byte"
pub assume_specification [Rope::byte_to_line] (r: &Rope, byte_idx: usize) -> (l: usize)
    requires byte_idx <= blen(rope_view(r)) ensures l == rline(rope_view(r), cob(rope_view(r), byte_idx as nat));
pub assume_specification [Rope::char_to_byte] (r: &Rope, char_idx: usize) -> (b: usize)
    requires char_idx <= rope_view(r).len() ensures b == boff(rope_view(r), char_idx as int);
pub assume_specification [Rope::char_to_line] (r: &Rope, char_idx: usize) -> (l: usize)
    requires char_idx <= rope_view(r).len() ensures l == rline(rope_view(r), char_idx as int);
pub assume_specification [Rope::char_to_utf16_cu] (r: &Rope, char_idx: usize) -> (u: usize)
    requires char_idx <= rope_view(r).len() ensures u == uoff(rope_view(r), char_idx as int);
// "if the utf16 code unit is in the middle of a char, returns the index of the char that it belongs to"
pub assume_specification [Rope::utf16_cu_to_char] (r: &Rope, utf16_cu_idx: usize) -> (c: usize)
    requires utf16_cu_idx <= ulen(rope_view(r))
    ensures c <= rope_view(r).len(), uoff(rope_view(r), c as int) <= utf16_cu_idx, c < rope_view(r).len() ==> utf16_cu_idx < uoff(rope_view(r), c + 1),
            c == rope_view(r).len() ==> utf16_cu_idx == ulen(rope_view(r));
// "line_idx can be one-past-the-end, which will return one-past-the-end byte/char index.  Panics if line_idx > len_lines()."
pub assume_specification [Rope::line_to_char] (r: &Rope, line_idx: usize) -> (c: usize)
    requires line_idx <= rlines(rope_view(r)) ensures c == rnth(rope_view(r), line_idx as nat);
pub assume_specification [Rope::line_to_byte] (r: &Rope, line_idx: usize) -> (b: usize)
    requires line_idx <= rlines(rope_view(r)) ensures b == boff(rope_view(r), rnth(rope_view(r), line_idx as nat));
pub assume_specification [Rope::char] (r: &Rope, char_idx: usize) -> (c: char)
    requires char_idx < rope_view(r).len() ensures c == rope_view(r)[char_idx as int];

// text-size 1.1.1 (src/traits.rs): TextSize is a u32; usize::from(TextSize) widens, TextSize::try_from(usize) is u32::try_from
pub assume_specification [<usize as From<TextSize>>::from] (t: TextSize) -> (r: usize) ensures r == ts_val(t), r <= u32::MAX;
pub assume_specification [<TextSize as TryFrom<usize>>::try_from] (x: usize) -> (r: Result<TextSize, core::num::TryFromIntError>)
    ensures x <= u32::MAX ==> r is Ok && ts_val(r.unwrap()) == x;
}
}
