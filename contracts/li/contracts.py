"""Unit LI (C10): crates/ide/src/line_index.rs verified against assumed contracts of ropey, whose set of line breaks
is read from the features of the ropey artifact of this build."""
from splice import UnitSpec, C
import sys, os
sys.path.insert(0, os.path.dirname(__file__))
import shared

U = UnitSpec('li', '/repo/crates/ide/src', None, default_tags='C10')
U.root_text = ''
U.extra_files = [('line_index.rs', 'line_index')]
U.prelude_files = ['/verif/contracts/li/spec.rs', '/verif/contracts/li/prelude.rs']
U.dynamic_preludes = [shared.ropey_cfg]
U.extra_uses = 'use vstd::prelude::*;\n#[allow(unused_imports)] use crate::vprelude::*;\n'
U.externs = ['ropey', 'syntax', 'text_size']
U.repo_build = ['-p', 'ide']
U.kind_tags = {'*': 'C10'}
F = 'line_index.rs'
U.insert_in(F, 'impl', 'LineIndex', '''
    /// the text this index was built from
    pub closed spec fn view(&self) -> Seq<char> { rope_view(&self.rope) }
    /// offsets fit a TextSize (text < 4 GiB)
    pub open spec fn wf(&self) -> bool { blen(self.view()) <= u32::MAX }
''')
ROPEY = 'proof { lemma_ropey_lines(self.view()); }'
ROPEY_C = C('ropey_cr_lines() && !ropey_unicode_lines()', name='the rope counts exactly LF, CR and CRLF as line endings (cargo features of ropey)')
V = 'self.view()'
K = shared.contracts(V, 'self')
U.fn(F, 'LineIndex::new', requires=K['new'][0], ensures=K['new'][1])
U.fn(F, 'LineIndex::clamp', requires=['self.wf()'], ensures=['ret == if ts_val(pos) <= blen(self.view()) { ts_val(pos) } else { blen(self.view()) }'])
U.fn(F, 'LineIndex::text_size', requires=[C('pos <= u32::MAX', name='offsets fit a TextSize')], ensures=['ts_val(ret) == pos'])
COMMON = ('let s = self.view(); lemma_ropey_lines(s); lemma_off_mono_all(s); lemma_nth_last(s); '
          'let b: nat = if ts_val(pos) <= blen(s) { ts_val(pos) } else { blen(s) }; let k = cob(s, b); lemma_cob(s, b); '
          'lemma_line_of_mono(s, k, s.len() as int); lemma_start_of_line(s, k); lemma_line_start(s, k); lemma_off_mono(s, line_start(s, k), k); '
          'assert forall|c: int| 0 <= c <= s.len() && ts_val(pos) == #[trigger] boff(s, c) implies c == k by { lemma_cob_exact(s, c); } ')
U.fn(F, 'LineIndex::pos_to_line', requires=K['pos_to_line'][0], ensures=K['pos_to_line'][1], prologue='proof { ' + COMMON + '}')
U.fn(F, 'LineIndex::pos_to_col', requires=K['pos_to_col'][0], ensures=K['pos_to_col'][1], prologue='proof { ' + COMMON + '}')
U.fn(F, 'LineIndex::line_to_pos', requires=K['line_to_pos'][0], ensures=K['line_to_pos'][1],
     prologue='proof { let s = self.view(); lemma_ropey_lines(s); lemma_off_mono_all(s); lemma_nth_last(s); if line < nlines(s) { lemma_nth(s, line as nat); } }')
U.fn(F, 'LineIndex::line_col_to_pos', requires=K['line_col_to_pos'][0], ensures=K['line_col_to_pos'][1],
     prologue='proof { let s = self.view(); lemma_ropey_lines(s); lemma_off_mono_all(s); lemma_nth_last(s); if line < nlines(s) { lemma_line_shape(s, line as nat); } }',
     loops={0: dict(optional=True, invariant=['self.wf()', 'line < nlines(self.view())', 'start == nth_start(self.view(), line as nat)',
                               'start <= end <= nth_start(self.view(), (line + 1) as nat) <= self.view().len()',
                               'forall|j: int| end <= j < nth_start(self.view(), (line + 1) as nat) ==> is_eol(#[trigger] self.view()[j])'],
                    after_loop_proof='proof { let s = self.view(); lemma_line_shape(s, line as nat); let e = content_end(s, start as int); '
                               'if (end as int) < e { assert(is_eol(s[end as int])); } if (end as int) > e { assert(is_eol(s[end - 1])); } assert(end == e); }',
                    decreases='end')})
