"""Kill matrix for unit LI (C10): in-memory edits of line_index.rs (never /repo); `features` overrides the cargo features
reported for a dependency of the build."""
F = 'line_index.rs'
M = [
 dict(id='L1-char-indexed-line-lookup', file=F, old="self.rope.byte_to_line(self.clamp(pos))", new="self.rope.char_to_line(self.clamp(pos))", expect='C10'),
 dict(id='L2-column-in-chars', file=F, old="self.rope.char_to_utf16_cu(self.rope.byte_to_char(pos))\n            - self.rope.char_to_utf16_cu(line_start)", new="self.rope.byte_to_char(pos) - line_start", expect='C10'),
 dict(id='L3-terminator-not-stripped', file=F, old="while end > start && matches!", new="while false && end > start && matches!", expect='C10'),
 dict(id='L4-column-not-clamped', file=F, old=".min(end_cu);", new=";", expect='C10'),
 dict(id='L5-line-past-the-end', file=F, old="if line >= self.rope.len_lines()", new="if line > self.rope.len_lines()", expect='C10'),
 dict(id='L6-cr-not-stripped', file=F, old="'\\n' | '\\r')", new="'\\n' | '\\n')", expect='C10'),
 dict(id='L7-unicode-line-breaks', file=F, old="pub fn new", new="pub fn new", features={'ropey': ['default', 'simd', 'unicode_lines', 'cr_lines']}, expect='C10'),
 dict(id='L8-lf-only', file=F, old="pub fn new", new="pub fn new", features={'ropey': ['simd']}, expect='C10'),
 dict(id='L9-column-in-bytes', file=F, old="self.rope.char_to_utf16_cu(self.rope.byte_to_char(pos))\n            - self.rope.char_to_utf16_cu(line_start)", new="pos - self.rope.char_to_byte(line_start)", expect='C10'),
 dict(id='L10-column-added-as-chars', file=F, old="self.rope.utf16_cu_to_char(cu)", new="(start + col as usize).min(end)", expect='C10'),
]
BENIGN = [
 dict(id='B1-no-clamp-of-offsets', file=F, old="self.rope.byte_to_line(self.clamp(pos))", new="self.rope.byte_to_line(usize::from(pos))"),
 dict(id='B2-explicit-min', file=F, old="let line = line.min(self.rope.len_lines());", new="let n = self.rope.len_lines(); let line = if line < n { line } else { n };"),
 dict(id='B3-reordered', file=F, old="let start_cu = self.rope.char_to_utf16_cu(start);\n        let end_cu = self.rope.char_to_utf16_cu(end);", new="let end_cu = self.rope.char_to_utf16_cu(end);\n        let start_cu = self.rope.char_to_utf16_cu(start);"),
]
