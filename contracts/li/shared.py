"""Contract text of LineIndex's public methods, shared by unit LI (where it is PROVED on the real bodies) and unit LP
(where the same text is ASSUMED at the call sites in crates/lsp) — modular verification: a caller is checked against
the callee's contract."""
from splice import C


def ropey_cfg(build):
    feats = (build.get('features') or {}).get('ropey')
    if feats is None:
        raise Exception('the build of /repo reported no ropey artifact')
    cr = 'cr_lines' in feats or 'unicode_lines' in feats or 'default' in feats
    uni = 'unicode_lines' in feats or 'default' in feats
    return ('pub mod ropeycfg { use vstd::prelude::*; verus!{\n'
            '// generated from this build of /repo: ropey features = %s\n'
            'pub open spec fn ropey_cr_lines() -> bool { %s }\npub open spec fn ropey_unicode_lines() -> bool { %s }\n} }\n'
            % (feats, 'true' if cr else 'false', 'true' if uni else 'false'))


def contracts(V, S):
    """V: expression for the text view; S: the receiver expression.  returns name -> (requires, ensures)"""
    wf = '%s.wf()' % S if S == 'self' else 'li_wf(%s)' % S
    inside = C('ts_val(pos) <= blen(%s)' % V, name='the offset lies inside the text (the property says nothing about others)')
    return {
        'new': ([C('blen(text@) <= u32::MAX', name='ASSUMED: a text is smaller than 4 GiB')], ['ret.view() == text@', 'ret.wf()']),
        'pos_to_line': ([wf, inside],
                        [C('forall|c: int| 0 <= c <= %(V)s.len() && ts_val(pos) == #[trigger] boff(%(V)s, c) ==> ret == line_of(%(V)s, c)' % dict(V=V),
                           name='an offset maps to the zero-based line containing it (LF, CR, CRLF end a line)'),
                         C('ret < nlines(%s)' % V, name='the line exists')]),
        'pos_to_col': ([wf, inside],
                       [C('forall|c: int| 0 <= c <= %(V)s.len() && ts_val(pos) == #[trigger] boff(%(V)s, c) ==> ret == col_of(%(V)s, c)' % dict(V=V),
                          name='an offset maps to the UTF-16 column within its line')]),
        'line_to_pos': ([wf],
                        [C('ts_val(ret) == boff(%(V)s, nth_start(%(V)s, if line <= nlines(%(V)s) { line as nat } else { nlines(%(V)s) }))' % dict(V=V),
                           name='the offset of the first character of the line, or the end of the text')]),
        'line_col_to_pos': ([wf],
                            [C('is_offset_of(%s, line as nat, col as nat, ts_val(ret))' % V,
                               name='(line, column) maps to the offset of that UTF-16 column of that line; a column past the end of the line means the line end; a line past the last one means the end of the text')]),
    }
