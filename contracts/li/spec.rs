// Unit LI / LP (C10) — reference notions written from the property statement, and proved lemmas.
// Nothing in this file is assumed: every `proof fn` is checked by Verus on every run.
//
//   text            Seq<char>
//   byte offset     boff(s, i)   = UTF-8 length of the first i chars      (u8w: 1,2,3,4 bytes)
//   UTF-16 offset   uoff(s, i)   = UTF-16 length of the first i chars     (u16w: 1, or 2 for astral chars)
//   line endings    exactly LF, CR (not followed by LF) and CRLF          (ref_brk)
//   line of i       number of line endings that END at or before char index i
//   column of i     UTF-16 length of the text between the start of i's line and i
//   line end        where the line's terminator starts (or the end of the text)
pub mod lispec {
use vstd::prelude::*;
verus!{
pub open spec fn u8w(c: char) -> nat { let x = c as u32; if x < 0x80 { 1 } else if x < 0x800 { 2 } else if x < 0x10000 { 3 } else { 4 } }
pub open spec fn u16w(c: char) -> nat { if (c as u32) < 0x10000 { 1 } else { 2 } }
pub open spec fn boff(s: Seq<char>, i: int) -> nat decreases i { if i <= 0 || i > s.len() { 0 } else { boff(s, i - 1) + u8w(s[i - 1]) } }
pub open spec fn uoff(s: Seq<char>, i: int) -> nat decreases i { if i <= 0 || i > s.len() { 0 } else { uoff(s, i - 1) + u16w(s[i - 1]) } }
pub open spec fn blen(s: Seq<char>) -> nat { boff(s, s.len() as int) }
pub open spec fn ulen(s: Seq<char>) -> nat { uoff(s, s.len() as int) }

pub proof fn lemma_off_mono(s: Seq<char>, i: int, j: int)
    requires 0 <= i <= j <= s.len()
    ensures boff(s, i) <= boff(s, j), uoff(s, i) <= uoff(s, j), i < j ==> boff(s, i) < boff(s, j) && uoff(s, i) < uoff(s, j),
            uoff(s, j) - uoff(s, i) <= boff(s, j) - boff(s, i), j - i <= uoff(s, j) - uoff(s, i)
    decreases j - i
{ if i < j { lemma_off_mono(s, i, j - 1); } }
/// a byte offset names at most one char index
pub proof fn lemma_boff_inj(s: Seq<char>, i: int, j: int)
    requires 0 <= i <= s.len(), 0 <= j <= s.len(), boff(s, i) == boff(s, j) ensures i == j
{ if i < j { lemma_off_mono(s, i, j); } else if j < i { lemma_off_mono(s, j, i); } }
pub proof fn lemma_uoff_inj(s: Seq<char>, i: int, j: int)
    requires 0 <= i <= s.len(), 0 <= j <= s.len(), uoff(s, i) == uoff(s, j) ensures i == j
{ if i < j { lemma_off_mono(s, i, j); } else if j < i { lemma_off_mono(s, j, i); } }

/// all-pairs form (no new terms are created by an instantiation)
pub proof fn lemma_off_mono_all(s: Seq<char>)
    ensures forall|i: int, j: int| 0 <= i <= j <= s.len() ==> #[trigger] boff(s, i) <= #[trigger] boff(s, j),
            forall|i: int, j: int| 0 <= i < j <= s.len() ==> #[trigger] boff(s, i) < #[trigger] boff(s, j),
            forall|i: int, j: int| 0 <= i <= j <= s.len() ==> #[trigger] uoff(s, i) <= #[trigger] uoff(s, j),
            forall|i: int, j: int| 0 <= i < j <= s.len() ==> #[trigger] uoff(s, i) < #[trigger] uoff(s, j),
            forall|i: int| 0 <= i <= s.len() ==> #[trigger] uoff(s, i) <= boff(s, i),
{
    assert forall|i: int, j: int| 0 <= i <= j <= s.len() implies #[trigger] boff(s, i) <= #[trigger] boff(s, j) by { lemma_off_mono(s, i, j); }
    assert forall|i: int, j: int| 0 <= i < j <= s.len() implies #[trigger] boff(s, i) < #[trigger] boff(s, j) by { lemma_off_mono(s, i, j); }
    assert forall|i: int, j: int| 0 <= i <= j <= s.len() implies #[trigger] uoff(s, i) <= #[trigger] uoff(s, j) by { lemma_off_mono(s, i, j); }
    assert forall|i: int, j: int| 0 <= i < j <= s.len() implies #[trigger] uoff(s, i) < #[trigger] uoff(s, j) by { lemma_off_mono(s, i, j); }
    assert forall|i: int| 0 <= i <= s.len() implies #[trigger] uoff(s, i) <= boff(s, i) by { lemma_off_mono(s, 0, i); }
}
/// the char a byte offset belongs to: the largest char index whose offset is <= b (the end of the text for b >= its length)
pub open spec fn cob_at(s: Seq<char>, b: nat, i: int) -> int decreases i { if i <= 0 { 0 } else if boff(s, i) <= b { i } else { cob_at(s, b, i - 1) } }
pub open spec fn cob(s: Seq<char>, b: nat) -> int { cob_at(s, b, s.len() as int) }
pub proof fn lemma_cob_at(s: Seq<char>, b: nat, i: int)
    requires 0 <= i <= s.len() ensures 0 <= cob_at(s, b, i) <= i, boff(s, cob_at(s, b, i)) <= b, forall|k: int| cob_at(s, b, i) < k <= i ==> #[trigger] boff(s, k) > b
    decreases i
{ if i > 0 && boff(s, i) > b { lemma_cob_at(s, b, i - 1); } }
pub proof fn lemma_cob(s: Seq<char>, b: nat)
    ensures 0 <= cob(s, b) <= s.len(), boff(s, cob(s, b)) <= b, cob(s, b) < s.len() ==> b < boff(s, cob(s, b) + 1)
{ lemma_cob_at(s, b, s.len() as int); }
/// a char-boundary offset belongs to its own char
pub proof fn lemma_cob_exact(s: Seq<char>, c: int)
    requires 0 <= c <= s.len() ensures cob(s, boff(s, c)) == c
{
    let b = boff(s, c); lemma_cob(s, b); let k = cob(s, b);
    if k < c { lemma_off_mono(s, k + 1, c); } else if k > c { lemma_off_mono(s, c, k); }
}

// ------------------------------------------------------------------ line structure, generic in the notion of line break
/// `brk(s, i)`: a line terminator ends right before char index i
pub type Brk = spec_fn(Seq<char>, int) -> bool;
pub open spec fn g_line_of(brk: Brk, s: Seq<char>, i: int) -> nat decreases i
{ if i <= 0 { 0 } else { g_line_of(brk, s, i - 1) + if brk(s, i) { 1nat } else { 0nat } } }
/// first line start after i, or the end of the text
pub open spec fn g_next(brk: Brk, s: Seq<char>, i: int) -> int decreases s.len() - i
{ if i >= s.len() { s.len() as int } else if brk(s, i + 1) { i + 1 } else { g_next(brk, s, i + 1) } }
/// start of line l; one past the last line gives the end of the text
pub open spec fn g_nth(brk: Brk, s: Seq<char>, l: nat) -> int decreases l
{ if l == 0 { 0 } else { g_next(brk, s, g_nth(brk, s, (l - 1) as nat)) } }

/// the property's line endings: LF, CR, CRLF (a CRLF ends after its LF)
pub open spec fn ref_brk() -> Brk {
    |s: Seq<char>, i: int| 1 <= i <= s.len() && (s[i - 1] == '\n' || (s[i - 1] == '\r' && !(i < s.len() && s[i] == '\n')))
}
pub open spec fn ends_line(s: Seq<char>, i: int) -> bool { ref_brk()(s, i) }
pub open spec fn line_of(s: Seq<char>, i: int) -> nat { g_line_of(ref_brk(), s, i) }
pub open spec fn nlines(s: Seq<char>) -> nat { line_of(s, s.len() as int) + 1 }
pub open spec fn nth_start(s: Seq<char>, l: nat) -> int { g_nth(ref_brk(), s, l) }
pub open spec fn next_start(s: Seq<char>, i: int) -> int { g_next(ref_brk(), s, i) }
/// start of the line containing char index i
pub open spec fn line_start(s: Seq<char>, i: int) -> int decreases i { if i <= 0 { 0 } else if ends_line(s, i) { i } else { line_start(s, i - 1) } }
pub open spec fn col_of(s: Seq<char>, i: int) -> int { uoff(s, i) - uoff(s, line_start(s, i)) }
pub open spec fn is_eol(c: char) -> bool { c == '\n' || c == '\r' }
/// end of the line that starts at i: where its terminator starts, or the end of the text
pub open spec fn content_end(s: Seq<char>, i: int) -> int decreases s.len() - i
{ if i >= s.len() { s.len() as int } else if is_eol(s[i]) { i } else { content_end(s, i + 1) } }
/// char index i lies between the CR and the LF of a CRLF (not a position a client can name)
pub open spec fn mid_crlf(s: Seq<char>, i: int) -> bool { 1 <= i < s.len() && s[i - 1] == '\r' && s[i] == '\n' }

/// (line, col) is the LSP position of char index c
pub open spec fn is_position_of(s: Seq<char>, c: int, line: int, col: int) -> bool { line == line_of(s, c) && col == col_of(s, c) }
/// byte offset b is what the LSP position (line, col) denotes:
///   a line past the last one: the end of the text;
///   otherwise a char index c of that line, between its start and its end (terminator excluded), with
///   UTF-16 column col — or the line end when col is past it.  A column that falls inside a surrogate pair may go to
///   either side (the property does not say).
pub open spec fn is_offset_of(s: Seq<char>, line: nat, col: nat, b: nat) -> bool {
    if line >= nlines(s) { b == blen(s) } else {
        let st = nth_start(s, line); let e = content_end(s, st);
        exists|c: int| st <= c <= e && b == #[trigger] boff(s, c) && col_ok(s, st, e, c, col)
    }
}
pub open spec fn col_ok(s: Seq<char>, st: int, e: int, c: int, col: nat) -> bool {
    let k = uoff(s, c) - uoff(s, st);
    k == col || (c == e && col >= k) || (c < e && k < col < uoff(s, c + 1) - uoff(s, st)) || (c > st && uoff(s, c - 1) - uoff(s, st) < col < k)
}

// ------------------------------------------------------------------ lemmas about the line structure
pub proof fn lemma_no_brk_same_line(s: Seq<char>, i: int, j: int)
    requires 0 <= i <= j <= s.len(), forall|k: int| i < k <= j ==> !ends_line(s, k)
    ensures line_of(s, j) == line_of(s, i)
    decreases j - i
{ if i < j { lemma_no_brk_same_line(s, i, j - 1); assert(!ends_line(s, j)); } }

pub proof fn lemma_line_of_mono(s: Seq<char>, i: int, j: int)
    requires 0 <= i <= j <= s.len() ensures line_of(s, i) <= line_of(s, j), line_of(s, j) <= j
    decreases j
{ if i < j { lemma_line_of_mono(s, i, j - 1); } else if j > 0 { lemma_line_of_mono(s, i - 1, j - 1); } }

pub proof fn lemma_next(s: Seq<char>, i: int)
    requires 0 <= i <= s.len()
    ensures ({ let r = next_start(s, i); i <= r <= s.len() && (i < s.len() ==> r > i) && (forall|k: int| i < k < r ==> !ends_line(s, k))
               && (ends_line(s, r) || r == s.len()) && (r > i && ends_line(s, r) ==> line_of(s, r) == line_of(s, i) + 1)
               && (!(r > i && ends_line(s, r)) ==> r == s.len() && line_of(s, r) == line_of(s, i)) })
    decreases s.len() - i
{
    if i < s.len() {
        if ends_line(s, i + 1) { } else {
            lemma_next(s, i + 1);
            let r = next_start(s, i + 1);
            assert(forall|k: int| i < k < r ==> !ends_line(s, k));
        }
    }
}

/// the start of line l (l a line of the text)
pub proof fn lemma_nth(s: Seq<char>, l: nat)
    requires l < nlines(s)
    ensures ({ let st = nth_start(s, l); 0 <= st <= s.len() && line_of(s, st) == l && (st == 0 || ends_line(s, st)) && line_start(s, st) == st })
    decreases l
{
    if l > 0 {
        lemma_nth(s, (l - 1) as nat);
        let p = nth_start(s, (l - 1) as nat);
        lemma_next(s, p);
        let r = next_start(s, p);
        if !(r > p && ends_line(s, r)) { assert(line_of(s, s.len() as int) == l - 1); }
    }
}
pub proof fn lemma_nth_last(s: Seq<char>)
    ensures nth_start(s, nlines(s)) == s.len()
{
    let l = (nlines(s) - 1) as nat;
    lemma_nth(s, l);
    let p = nth_start(s, l);
    lemma_next(s, p);
    let r = next_start(s, p);
    if r > p && ends_line(s, r) { lemma_line_of_mono(s, r, s.len() as int); }
}

pub proof fn lemma_line_start(s: Seq<char>, c: int)
    requires 0 <= c <= s.len()
    ensures ({ let st = line_start(s, c); 0 <= st <= c && (st == 0 || ends_line(s, st)) && (forall|k: int| st < k <= c ==> !ends_line(s, k)) && line_of(s, st) == line_of(s, c) && line_start(s, st) == st })
    decreases c
{
    if c > 0 && !ends_line(s, c) { lemma_line_start(s, c - 1); }
}
pub proof fn lemma_next_skip(s: Seq<char>, i: int, j: int)
    requires 0 <= i <= j < s.len(), forall|k: int| i < k <= j ==> !ends_line(s, k)
    ensures next_start(s, i) == next_start(s, j)
    decreases j - i
{ if i < j { lemma_next_skip(s, i + 1, j); assert(!ends_line(s, i + 1)); } }

/// the n-th line start of c's line is the start of the line containing c
pub proof fn lemma_start_of_line(s: Seq<char>, c: int)
    requires 0 <= c <= s.len()
    ensures nth_start(s, line_of(s, c)) == line_start(s, c)
    decreases c
{
    if c > 0 {
        lemma_start_of_line(s, c - 1);
        if ends_line(s, c) {
            let p = line_start(s, c - 1);
            lemma_line_start(s, c - 1);
            lemma_next_skip(s, p, c - 1);
        }
    }
}
/// within a line, before the position c (not inside a CRLF) there is no CR or LF
pub proof fn lemma_content(s: Seq<char>, c: int)
    requires 0 <= c <= s.len(), !mid_crlf(s, c)
    ensures forall|j: int| line_start(s, c) <= j < c ==> !is_eol(#[trigger] s[j])
{
    lemma_line_start(s, c);
    let st = line_start(s, c);
    assert forall|j: int| st <= j < c implies !is_eol(#[trigger] s[j]) by {
        if s[j] == '\n' { assert(ends_line(s, j + 1)); }
        else if s[j] == '\r' {
            if j + 1 < s.len() && s[j + 1] == '\n' { assert(j + 1 < c); assert(ends_line(s, j + 2)); } else { assert(ends_line(s, j + 1)); }
        }
    }
}
pub proof fn lemma_content_end(s: Seq<char>, st: int, c: int)
    requires 0 <= st <= c <= s.len(), forall|j: int| st <= j < c ==> !is_eol(#[trigger] s[j])
    ensures content_end(s, st) == content_end(s, c), c <= content_end(s, c) <= s.len(),
    decreases s.len() - st
{
    if st < c { lemma_content_end(s, st + 1, c); }
    else { lemma_content_end_ge(s, c); }
}
pub proof fn lemma_content_end_ge(s: Seq<char>, c: int)
    requires 0 <= c <= s.len() ensures c <= content_end(s, c) <= s.len(), content_end(s, c) < s.len() ==> is_eol(s[content_end(s, c)]),
             forall|j: int| c <= j < content_end(s, c) ==> !is_eol(#[trigger] s[j])
    decreases s.len() - c
{ if c < s.len() && !is_eol(s[c]) { lemma_content_end_ge(s, c + 1); } }

/// shape of line l: content without CR/LF, then only CR/LF up to the next line start
pub proof fn lemma_line_shape(s: Seq<char>, l: nat)
    requires l < nlines(s)
    ensures ({ let st = nth_start(s, l); let nx = nth_start(s, l + 1); let e = content_end(s, st);
               0 <= st <= e <= nx <= s.len() && (forall|j: int| e <= j < nx ==> is_eol(#[trigger] s[j])) && (forall|j: int| st <= j < e ==> !is_eol(#[trigger] s[j]))
               && (st == e || !is_eol(s[e - 1])) })
{
    lemma_nth(s, l);
    let st = nth_start(s, l);
    lemma_next(s, st);
    let nx = next_start(s, st);
    assert(nx == nth_start(s, l + 1));
    lemma_content_end_ge(s, st);
    let e = content_end(s, st);
    // an eol char at j in [st, nx) ends a line at j+1 or j+2, which must be >= nx
    assert forall|j: int| st <= j < nx && is_eol(#[trigger] s[j]) implies j >= nx - 2 && (j == nx - 2 ==> s[j] == '\r' && s[j + 1] == '\n') by {
        if s[j] == '\n' { assert(ends_line(s, j + 1)); }
        else if j + 1 < s.len() && s[j + 1] == '\n' { assert(ends_line(s, j + 2)); } else { assert(ends_line(s, j + 1)); }
    }
    if e < nx {
        assert(is_eol(s[e]));
        assert forall|j: int| e <= j < nx implies is_eol(#[trigger] s[j]) by { if j > e { assert(j == nx - 1 && e == nx - 2); } }
    } else if e > nx {
        // nx < len, so a line ends at nx: s[nx-1] is an eol char inside [st, e)
        assert(ends_line(s, nx)); assert(is_eol(s[nx - 1])); assert(nx - 1 >= st);
    }
}

/// ROUND TRIP (a lemma over the two contracts): converting an offset to its position and back returns the same offset
pub proof fn lemma_round_trip(s: Seq<char>, c: int, line: nat, col: nat, b: nat)
    requires 0 <= c <= s.len(), !mid_crlf(s, c), is_position_of(s, c, line as int, col as int), is_offset_of(s, line, col, b)
    ensures b == boff(s, c)
{
    lemma_line_of_mono(s, c, s.len() as int);
    lemma_start_of_line(s, c);
    lemma_line_start(s, c);
    lemma_content(s, c);
    let st = nth_start(s, line);
    assert(st == line_start(s, c));
    lemma_content_end(s, st, c);
    let e = content_end(s, st);
    let c2 = choose|c2: int| st <= c2 <= e && b == #[trigger] boff(s, c2) && col_ok(s, st, e, c2, col);
    lemma_off_mono(s, st, c); lemma_off_mono(s, st, c2);
    if c2 < c { lemma_off_mono(s, c2, c); if c2 + 1 <= c { lemma_off_mono(s, c2 + 1, c); } }
    if c < c2 { lemma_off_mono(s, c, c2); if c <= c2 - 1 { lemma_off_mono(s, c, c2 - 1); } lemma_off_mono(s, c2, e); }
}
/// a column past the end of a line means the line end
pub proof fn lemma_past_end(s: Seq<char>, line: nat, col: nat, b: nat)
    requires line < nlines(s), is_offset_of(s, line, col, b), col >= uoff(s, content_end(s, nth_start(s, line))) - uoff(s, nth_start(s, line))
    ensures b == boff(s, content_end(s, nth_start(s, line)))
{
    let st = nth_start(s, line); let e = content_end(s, st);
    lemma_line_shape(s, line);
    let c2 = choose|c2: int| st <= c2 <= e && b == #[trigger] boff(s, c2) && col_ok(s, st, e, c2, col);
    lemma_off_mono(s, st, c2); lemma_off_mono(s, c2, e);
    if c2 < e { lemma_off_mono(s, c2 + 1, e); }
}
}
}
