"""Kill matrix for unit LS (C09): in-memory edits of crates/lsp/src/server.rs (never /repo)."""
S = 'server.rs'
M = [
 dict(id='D1-definition-with-requesting-files-index', file=S, old="            let line_index = snap.analysis.line_index(location.file);\n", new="            let line_index = snap.analysis.line_index(pos.file);\n", expect='C09'),
 dict(id='D2-references-with-one-index', file=S, old="                    let line_index = snap.analysis.line_index(it.file);\n", new="                    let line_index = snap.analysis.line_index(pos.file);\n", expect='C09'),
 dict(id='D3-document-symbols-with-root-index', file=S, old="            let (file_id, line_index) = from_proto::file(&snap, params.text_document);\n            let Some(symbols)", new="            let (file_id, _) = from_proto::file(&snap, params.text_document);\n            let line_index = snap.analysis.line_index(ide::file_system::FileId(0));\n            let Some(symbols)", expect='C09'),
 dict(id='D4-diagnostics-with-root-index', file=S, old="                let line_index = snap.analysis.line_index(file_id);\n                let lsp_diags", new="                let line_index = snap.analysis.line_index(ide::file_system::FileId(0));\n                let lsp_diags", expect='C09'),
 dict(id='D5-folding-of-another-file', file=S, old="            let Some(folding_ranges) = snap.analysis.folding_range(file_id) else {", new="            let Some(folding_ranges) = snap.analysis.folding_range(ide::file_system::FileId(0)) else {", expect='C09'),
 dict(id='D6-links-with-root-index', file=S, old="            let (file_id, line_index) = from_proto::file(&snap, params.text_document);\n            let Some(links)", new="            let (file_id, _) = from_proto::file(&snap, params.text_document);\n            let line_index = snap.analysis.line_index(ide::file_system::FileId(0));\n            let Some(links)", expect='C09'),
]
VF = 'vfs.rs'
M += [
 dict(id='V1-disk-before-buffer', file=VF, old="        if let Some(text) = self.open_documents.get(file_path) {\n            return Some(text.clone());\n        }\n\n        let Ok(content) = fs::read_to_string(&file_path.0) else {\n            tracing::info!(\"failed to read file: file_path={file_path:?}\");\n            return None;\n        };\n\n        Some(content)",
      new="        if let Ok(content) = fs::read_to_string(&file_path.0) {\n            return Some(content);\n        }\n        self.open_documents.get(file_path).cloned()", expect='C12'),
 dict(id='V2-buffer-not-recorded', file=VF, old="        self.open_documents.insert(path, text);", new="        let _ = (path, text);", expect='C12'),
 dict(id='V3-first-buffer-kept', file=VF, old="        self.open_documents.insert(path, text);", new="        if !self.open_documents.contains_key(&path) { self.open_documents.insert(path, text); }", expect='C12'),
]
BENIGN = [
 dict(id='B1-definition-index-before-lock', file=S, old="            let vfs = snap.vfs.read().unwrap();\n            // the definition may lie in an included file: use that file's line index\n            let line_index = snap.analysis.line_index(location.file);\n", new="            let line_index = snap.analysis.line_index(location.file);\n            let vfs = snap.vfs.read().unwrap();\n"),
]
