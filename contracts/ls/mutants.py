"""Kill matrix for unit LS (C09): in-memory edits of crates/lsp/src/server.rs (never /repo)."""
S = 'server.rs'
M = [
 dict(id='D1-definition-with-requesting-files-index', file=S, old="            let line_index = snap.analysis.line_index(location.file);\n", new="            let line_index = snap.analysis.line_index(pos.file);\n", expect='C09'),
 dict(id='D2-references-with-one-index', file=S, old="                    let line_index = snap.analysis.line_index(it.file);\n", new="                    let line_index = snap.analysis.line_index(pos.file);\n", expect='C09'),
 dict(id='D3-document-symbols-with-root-index', file=S, old="            let (file_id, line_index) = from_proto::file(&snap, params.text_document);\n            let Some(symbols)", new="            let (file_id, _) = from_proto::file(&snap, params.text_document);\n            let line_index = snap.analysis.line_index(ide::file_system::FileId(0));\n            let Some(symbols)", expect='C09'),
 dict(id='D4-diagnostics-with-root-index', file=S, old="                let line_index = snap.analysis.line_index(file_id);\n                let lsp_diags", new="                let line_index = snap.analysis.line_index(ide::file_system::FileId(0));\n                let lsp_diags", expect='C09'),
 dict(id='D5-folding-of-another-file', file=S, old="            let Some(folding_ranges) = snap.analysis.folding_range(file_id) else {", new="            let Some(folding_ranges) = snap.analysis.folding_range(ide::file_system::FileId(0)) else {", expect='C09'),
 dict(id='D6-links-with-root-index', file=S, old="            let (file_id, line_index) = from_proto::file(&snap, params.text_document);\n            let Some(links)", new="            let (file_id, _) = from_proto::file(&snap, params.text_document);\n            let line_index = snap.analysis.line_index(ide::file_system::FileId(0));\n            let Some(links)", expect='C09'),
]
BENIGN = [
 dict(id='B1-definition-index-before-lock', file=S, old="            let vfs = snap.vfs.read().unwrap();\n            // the definition may lie in an included file: use that file's line index\n            let line_index = snap.analysis.line_index(location.file);\n", new="            let line_index = snap.analysis.line_index(location.file);\n            let vfs = snap.vfs.read().unwrap();\n"),
]
