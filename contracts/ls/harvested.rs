// Signature-only ASSUMED contracts harvested mechanically from Verus's own suggestions (bin/harvest ls): the function does
// not panic and its result is unconstrained.
pub mod vspecs {
use vstd::prelude::*;
use crate::vprelude::*;
verus!{
// HARVEST-BEGIN
#[verifier::external_type_specification] #[verifier::external_body] pub struct ExTextDocumentPositionParams(async_lsp::lsp_types::TextDocumentPositionParams);
#[verifier::external_type_specification] pub struct ExGotoDefinitionResponse(async_lsp::lsp_types::GotoDefinitionResponse);
#[verifier::external_type_specification] #[verifier::external_body] pub struct ExLocationLink(async_lsp::lsp_types::LocationLink);
pub assume_specification [ide::analysis::Analysis::goto_definition] (_0: &ide::analysis::Analysis, _1: ide::file_system::FilePosition) -> std::option::Option<ide::file_system::FileRange>;
#[verifier::reject_recursive_types(T)] #[verifier::external_type_specification] #[verifier::external_body] pub struct ExRwLockReadGuard<'rwlock, T>(std::sync::RwLockReadGuard<'rwlock, T>) where T: std::marker::MetaSized + ?Sized;
#[verifier::reject_recursive_types(T)] #[verifier::external_type_specification] #[verifier::external_body] pub struct ExPoisonError<T>(std::sync::PoisonError<T>);
#[verifier::external_type_specification] #[verifier::external_body] pub struct ExLocation(async_lsp::lsp_types::Location);
pub assume_specification [ide::analysis::Analysis::references] (_0: &ide::analysis::Analysis, _1: ide::file_system::FilePosition) -> std::option::Option<std::vec::Vec<ide::file_system::FileRange>>;
#[verifier::external_type_specification] #[verifier::external_body] pub struct ExFoldingRange(async_lsp::lsp_types::FoldingRange);
#[verifier::external_type_specification] #[verifier::external_body] pub struct ExDocumentLink(async_lsp::lsp_types::DocumentLink);
#[verifier::external_type_specification] #[verifier::external_body] pub struct ExInlayHint(async_lsp::lsp_types::InlayHint);
#[verifier::external_type_specification] #[verifier::external_body] pub struct ExDocumentSymbol(async_lsp::lsp_types::DocumentSymbol);
#[verifier::external_type_specification] pub struct ExDocumentSymbolResponse(async_lsp::lsp_types::DocumentSymbolResponse);
#[verifier::external_type_specification] #[verifier::external_body] pub struct ExDiagnostic(async_lsp::lsp_types::Diagnostic);
#[verifier::external_type_specification] #[verifier::external_body] pub struct ExSymbolInformation(async_lsp::lsp_types::SymbolInformation);
#[verifier::external_type_specification] #[verifier::external_body] pub struct ExClientSocket(async_lsp::ClientSocket);
#[verifier::external_type_specification] #[verifier::external_body] pub struct ExUrl(async_lsp::lsp_types::Url);
pub assume_specification [<async_lsp::lsp_types::Url as crate::vfs::UrlExt>::from_file_path] (_0: &ide::file_system::FilePath) -> async_lsp::lsp_types::Url;
#[verifier::external_type_specification] #[verifier::external_body] pub struct ExPublishDiagnosticsParams(async_lsp::lsp_types::PublishDiagnosticsParams);
pub assume_specification [async_lsp::lsp_types::PublishDiagnosticsParams::new] (_0: async_lsp::lsp_types::Url, _1: std::vec::Vec<async_lsp::lsp_types::Diagnostic>, _2: std::option::Option<i32>) -> async_lsp::lsp_types::PublishDiagnosticsParams;
#[verifier::external_type_specification] #[verifier::external_body] pub struct ExError(async_lsp::Error);
#[verifier::reject_recursive_types(T)] #[verifier::external_type_specification] #[verifier::external_body] pub struct ExRwLockWriteGuard<'rwlock, T>(std::sync::RwLockWriteGuard<'rwlock, T>) where T: std::marker::MetaSized + ?Sized + 'rwlock;
pub assume_specification [<async_lsp::lsp_types::Url as crate::vfs::UrlExt>::to_file_path] (_0: &async_lsp::lsp_types::Url) -> ide::file_system::FilePath;
pub assume_specification [ide::analysis::AnalysisHost::set_file_content] (_0: &mut ide::analysis::AnalysisHost, _1: ide::file_system::FileId, _2: std::sync::Arc<str>);
pub assume_specification<FS> [ide::analysis::AnalysisHost::set_root_file] (_0: &mut ide::analysis::AnalysisHost, _1: &mut FS, _2: ide::file_system::FileId) where FS: ide::file_system::FileSystem,;
// HARVEST-END
}
}
