// Unit LS prelude (C09): crates/lsp (whole crate text) verified against the real ide / async-lsp / tokio rlibs.
// Everything here is ASSUMED.  Ghost notion: `li_file(index)` = the file whose text a LineIndex was computed from,
// within one analysis snapshot.
pub mod vprelude {
use vstd::prelude::*;
pub use ide::line_index::LineIndex;
pub use ide::file_system::{FileId, FilePath, FileRange, FilePosition, FileSet, FileSystem};
pub use ide::analysis::{Analysis, AnalysisHost};
pub use text_size::{TextRange, TextSize};
pub use async_lsp::lsp_types;
pub use std::sync::Arc;
verus!{
#[verifier::external_type_specification] #[verifier::external_body] pub struct ExLineIndex(LineIndex);
#[verifier::external_type_specification] #[verifier::external_body] pub struct ExTextSize(TextSize);
#[verifier::external_type_specification] #[verifier::external_body] pub struct ExTextRange(TextRange);
#[verifier::external_type_specification] pub struct ExFileId(FileId);
#[verifier::external_type_specification] pub struct ExFileRange(FileRange);
#[verifier::external_type_specification] pub struct ExFilePosition(FilePosition);
#[verifier::external_type_specification] pub struct ExFilePath(FilePath);
#[verifier::external_type_specification] #[verifier::external_body] pub struct ExFileSet(FileSet);
#[verifier::external_type_specification] #[verifier::external_body] pub struct ExAnalysis(Analysis);
#[verifier::external_type_specification] #[verifier::external_body] pub struct ExAnalysisHost(AnalysisHost);

// ---- lsp-types request parameter structs whose fields the handlers read (all fields public)
#[verifier::external_type_specification] pub struct ExGotoDefinitionParams(lsp_types::GotoDefinitionParams);
#[verifier::external_type_specification] pub struct ExReferenceParams(lsp_types::ReferenceParams);
#[verifier::external_type_specification] pub struct ExDocumentSymbolParams(lsp_types::DocumentSymbolParams);
#[verifier::external_type_specification] pub struct ExInlayHintParams(lsp_types::InlayHintParams);
#[verifier::external_type_specification] pub struct ExDocumentLinkParams(lsp_types::DocumentLinkParams);
#[verifier::external_type_specification] pub struct ExFoldingRangeParams(lsp_types::FoldingRangeParams);
#[verifier::external_type_specification] #[verifier::external_body] pub struct ExWorkDoneProgressParams(lsp_types::WorkDoneProgressParams);
#[verifier::external_type_specification] #[verifier::external_body] pub struct ExPartialResultParams(lsp_types::PartialResultParams);
#[verifier::external_type_specification] #[verifier::external_body] pub struct ExReferenceContext(lsp_types::ReferenceContext);
#[verifier::external_type_specification] #[verifier::external_body] pub struct ExTextDocumentIdentifier(lsp_types::TextDocumentIdentifier);
#[verifier::external_type_specification] pub struct ExLspPosition(lsp_types::Position);
#[verifier::external_type_specification] pub struct ExLspRange(lsp_types::Range);
#[verifier::external_type_specification] #[verifier::external_body] pub struct ExResponseError(async_lsp::ResponseError);
#[verifier::external_type_specification] #[verifier::external_body] #[verifier::reject_recursive_types(T)] pub struct ExRwLock<T: ?Sized>(std::sync::RwLock<T>);
pub assume_specification<T> [std::sync::RwLock::<T>::write] (l: &std::sync::RwLock<T>) -> (r: Result<std::sync::RwLockWriteGuard<'_, T>, std::sync::PoisonError<std::sync::RwLockWriteGuard<'_, T>>>)
    where T: std::marker::MetaSized + ?Sized
    ensures r is Ok;
/// ASSUMED: the lock around the virtual file system is never poisoned (no writer panics while holding it)
pub assume_specification<T> [std::sync::RwLock::<T>::read] (l: &std::sync::RwLock<T>) -> (r: Result<std::sync::RwLockReadGuard<'_, T>, std::sync::PoisonError<std::sync::RwLockReadGuard<'_, T>>>)
    where T: std::marker::MetaSized + ?Sized
    ensures r is Ok;

// ---- C12: editor buffers vs. disk
pub use std::path::PathBuf;
#[verifier::external_type_specification] #[verifier::external_body] pub struct ExPathBuf(PathBuf);
#[verifier::external_type_specification] #[verifier::external_body] pub struct ExIoError(std::io::Error);
/// the text of the file on disk (None: unreadable); ASSUMED stable while the server runs
pub uninterp spec fn disk_text(p: &PathBuf) -> Option<String>;
/// what reading a path yields, as a function of the value passed (a `&PathBuf` here)
pub uninterp spec fn disk_read<P>(path: P) -> Option<String>;
pub assume_specification<P: AsRef<std::path::Path>> [std::fs::read_to_string::<P>] (path: P) -> (r: Result<String, std::io::Error>)
    ensures match r { Ok(s) => disk_read(path) == Some(s), Err(_) => disk_read(path) is None };
#[verifier::external_trait_specification]
pub trait ExFileSystem {
    type ExternalTraitSpecificationFor: ide::file_system::FileSystem;
    fn assign_or_get_file_id(&mut self, path: FilePath) -> FileId;
    fn path_for_file(&self, file_id: &FileId) -> &FilePath;
    fn read_content(&self, file_path: &FilePath) -> Option<String>;
}
/// A-hash: FilePath (a PathBuf newtype with derived Eq/Hash) obeys vstd's key model
pub broadcast axiom fn ax_filepath_key_model() ensures #[trigger] vstd::std_specs::hash::obeys_key_model::<FilePath>();
/// the file whose text the line index was computed from
pub uninterp spec fn li_file(l: &LineIndex) -> FileId;

/// the file whose text the ranges of an analysis result refer to (results that carry no file of their own)
pub uninterp spec fn res_file<T>(x: &T) -> FileId;
pub use ide::handlers::document_symbol::DocumentSymbol as IdeDocumentSymbol;
pub use ide::handlers::inlay_hint::InlayHint as IdeInlayHint;
pub use ide::handlers::document_link::DocumentLink as IdeDocumentLink;
pub use ide::handlers::folding_range::FoldingRange as IdeFoldingRange;
pub use ide::handlers::diagnostics::Diagnostic;
#[verifier::external_type_specification] #[verifier::external_body] pub struct ExIdeDocumentSymbol(IdeDocumentSymbol);
#[verifier::external_type_specification] #[verifier::external_body] pub struct ExIdeInlayHint(IdeInlayHint);
#[verifier::external_type_specification] #[verifier::external_body] pub struct ExIdeDocumentLink(IdeDocumentLink);
#[verifier::external_type_specification] #[verifier::external_body] pub struct ExIdeFoldingRange(IdeFoldingRange);
#[verifier::external_type_specification] pub struct ExDiagnostic(Diagnostic);
/// ASSUMED: an analysis query answers for the file it was asked about
pub assume_specification [Analysis::document_symbol] (a: &Analysis, file_id: FileId) -> (r: Option<Vec<IdeDocumentSymbol>>)
    ensures r is Some ==> forall|i: int| 0 <= i < r.unwrap()@.len() ==> res_file(&#[trigger] r.unwrap()@[i]) == file_id;
pub assume_specification [Analysis::inlay_hint] (a: &Analysis, range: FileRange) -> (r: Option<Vec<IdeInlayHint>>)
    ensures r is Some ==> forall|i: int| 0 <= i < r.unwrap()@.len() ==> res_file(&#[trigger] r.unwrap()@[i]) == range.file;
pub assume_specification [Analysis::document_link] (a: &Analysis, file_id: FileId) -> (r: Option<Vec<IdeDocumentLink>>)
    ensures r is Some ==> forall|i: int| 0 <= i < r.unwrap()@.len() ==> res_file(&#[trigger] r.unwrap()@[i]) == file_id;
pub assume_specification [Analysis::folding_range] (a: &Analysis, file_id: FileId) -> (r: Option<Vec<IdeFoldingRange>>)
    ensures r is Some ==> forall|i: int| 0 <= i < r.unwrap()@.len() ==> res_file(&#[trigger] r.unwrap()@[i]) == file_id;

// ---- published diagnostics: the analysis groups diagnostics by the file they lie in (ide::handlers::diagnostics::exec builds the map
// ---- with `entry(diagnostic.location.file)`); the server walks that map
pub use std::collections::HashMap;
pub use vstd::std_specs::hash::*;
/// every diagnostic is filed under the file it lies in
pub open spec fn grouped_by_file(m: Map<FileId, Vec<Diagnostic>>) -> bool {
    forall|k: FileId, i: int| m.contains_key(k) && 0 <= i < m[k]@.len() ==> (#[trigger] m[k]@[i]).location.file == k
}
/// model of `HashMap::into_iter()`: the pairs it yields are pairs of the map
#[verifier::external_type_specification] #[verifier::external_body] #[verifier::reject_recursive_types(K)] #[verifier::reject_recursive_types(V)] #[verifier::reject_recursive_types(A)]
pub struct ExHashMapIntoIter<K, V, A: std::alloc::Allocator>(std::collections::hash_map::IntoIter<K, V, A>);
pub uninterp spec fn hmi_map<K, V, A: std::alloc::Allocator>(it: &std::collections::hash_map::IntoIter<K, V, A>) -> Map<K, V>;
pub assume_specification<K, V, A: std::alloc::Allocator> [<std::collections::hash_map::IntoIter<K, V, A> as Iterator>::next] (it: &mut std::collections::hash_map::IntoIter<K, V, A>) -> (r: Option<(K, V)>)
    ensures hmi_map(final(it)) == hmi_map(old(it)),
        r matches Some(kv) ==> hmi_map(old(it)).contains_key(kv.0) && hmi_map(old(it))[kv.0] == kv.1;
pub assume_specification [Analysis::line_index] (a: &Analysis, file_id: FileId) -> (r: Arc<LineIndex>) ensures li_file(&*r) == file_id;
}
}
