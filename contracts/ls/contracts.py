"""Unit LS (C09): every conversion of an analysis result into LSP coordinates uses the line index of the file the result lies in."""
from splice import UnitSpec, C

U = UnitSpec('ls', '/repo/crates/lsp/src', 'lib.rs', default_tags='C09')
U.prelude_files = ['/verif/contracts/ls/prelude.rs', '/verif/contracts/ls/harvested.rs']
U.extra_uses = 'use vstd::prelude::*;\n#[allow(unused_imports)] use crate::vprelude::*;\n#[allow(unused_imports)] use crate::vspecs::*;\n'
U.externs = ['ide', 'syntax', 'async_lsp', 'text_size', 'futures', 'tokio', 'tracing', 'tower', 'serde_json', 'tokio_util', 'tracing_subscriber']
U.repo_build = ['-p', 'lsp', '--lib']
U.flags = ['--no-trait-conflicts']
U.scope_listed = True
U.features = ['sized_hierarchy', 'allocator_api']   # std::marker::MetaSized is named by the bounds of RwLock::read's specification
U.kind_tags = {}
U.delete_stmt_macros = {'tracing::debug', 'tracing::info', 'tracing::warn', 'tracing::error', 'tracing::trace'}
S = 'server.rs'; TP = 'to_proto.rs'; FP = 'from_proto.rs'; VF = 'vfs.rs'
# the trait impl (methods return boxed futures of spawned tasks) stays outside; the bodies of its handler closures are moved out (R15)
U.external_impls = {'<Server as LanguageServer>'}
U.item_attr(S, 'impl', r'<Server as LanguageServer>', '#[verifier::external]')
U.item_attr(VF, 'impl', r'<Url as UrlExt>', '#[verifier::external]')
U.item_attr(VF, 'trait', r'UrlExt', '#[verifier::external]')

LOC_REQ = C('li_file(line_index) == file_range.file', name='a location is converted with the line index of the file it lies in')
U.fn(TP, 'location', attrs=['external_body'], requires=[LOC_REQ])
U.fn(FP, 'file_pos', attrs=['external_body'], ensures=[C('li_file(&*ret.1) == ret.0.file', name='ASSUMED: file_pos returns the line index of the requested document')])
RES = 'Result<Option<%s>, ResponseError>'
U.fn(S, '<Server as LanguageServer>::definition',
     lift=[dict(closure=0, name='handle_definition', sig='(snap: ServerSnapshot, params: GotoDefinitionParams) -> (ret: %s)' % (RES % 'GotoDefinitionResponse'),
                replace='handle_definition')])
CAPT = [('snap', '&ServerSnapshot', '&snap'), ('vfs', '&Vfs', '&vfs'), ('line_index', '&LineIndex', '&line_index'), ('pos', 'FilePosition', 'pos')]
U.fn(S, '<Server as LanguageServer>::references',
     lift=[dict(closure=0, name='handle_references', sig='(snap: ServerSnapshot, params: ReferenceParams) -> (ret: %s)' % (RES % 'Vec<Location>'), replace='handle_references',
                outline=[dict(rx=r'location_list\s*\.into_iter\(\)\s*\.map\(.*?\)\s*\.collect\(\)', name='o_map_reference_locations',
                              sig="(location_list: Vec<FileRange>, @CAPTURES@) -> Vec<Location>", call='o_map_reference_locations(location_list, @CAPTURES@)',
                              captures=[('snap', '&ServerSnapshot', '&snap'), ('vfs', '&Vfs', '&vfs'), ('line_index', '&Arc<LineIndex>', '&line_index'), ('pos', 'FilePosition', 'pos')],
                              why='iterator adapters map/collect; the mapped closure is moved out and verified (R15)')]),
           # whatever the mapped closure captures becomes a parameter of the function its body is moved into
           dict(closure=1, name='reference_location', sig='(@CAPTURES@it: FileRange) -> (ret: Location)', replace='|it| reference_location(@CAPTURES@it)', captures=CAPT)])

# ---- handlers whose results lie in the requested file
U.fn(FP, 'file', attrs=['external_body'], ensures=[C('li_file(&*ret.1) == ret.0', name='ASSUMED: file() returns the line index of the requested document')])
U.fn(FP, 'file_range', attrs=['external_body'], ensures=[C('li_file(&*ret.1) == ret.0.file', name='ASSUMED: file_range() returns the line index of the requested document')])
PROV = lambda what: C('li_file(line_index) == res_file(&%s)' % what, name='a result is converted with the line index of the file it lies in')
U.fn(TP, 'document_symbol', attrs=['external_body'], requires=[PROV('symbol')])
U.fn(TP, 'inlay_hint', attrs=['external_body'], requires=[PROV('inlay_hint')])
U.fn(TP, 'document_link', attrs=['external_body'], requires=[PROV('link')])
U.fn(TP, 'folding_range', attrs=['external_body'], requires=[PROV('range')])
U.fn(TP, 'diagnostic', attrs=['external_body'], requires=[C('li_file(line_index) == diag.location.file', name='a diagnostic is converted with the line index of the file it lies in')])


def simple_handler(method, params_ty, ret_ty, item_ty, lsp_item_ty, conv, list_var, extra_params='', extra_args=''):
    """handler of the shape: (id, line_index) = from_proto::file..; list = analysis.X(id)?; list.into_iter().map(|it| to_proto::X(.., &line_index, it)).collect()"""
    U.fn(S, '<Server as LanguageServer>::' + method,
         lift=[dict(closure=0, name='handle_' + method, sig='(snap: ServerSnapshot, params: %s) -> (ret: %s)' % (params_ty, RES % ret_ty), replace='handle_' + method,
                    outline=[dict(rx=list_var + r'\s*\.into_iter\(\)\s*\.map\(.*?\)\s*\.collect\(\)', name='o_map_' + method,
                                  sig='(%s: Vec<%s>, line_index: &Arc<LineIndex>%s) -> Vec<%s>' % (list_var, item_ty, extra_params, lsp_item_ty),
                                  call='o_map_%s(%s, &line_index%s)' % (method, list_var, extra_args),
                                  requires=[C('forall|i: int| 0 <= i < %s@.len() ==> li_file(&**line_index) == res_file(&#[trigger] %s@[i])' % (list_var, list_var),
                                              name='every result of the list is converted with the line index of the file it lies in')],
                                  why='iterator adapters map/collect; the mapped closure is moved out and verified (R15)')]),
               dict(closure=1, name=method + '_item', sig='(line_index: &LineIndex%s, it: %s) -> (ret: %s)' % (extra_params.replace('&RwLockReadGuard<Vfs>', '&Vfs') if False else extra_params, item_ty, lsp_item_ty),
                    requires=[C('li_file(line_index) == res_file(&it)')], replace='|it| %s_item(&line_index%s, it)' % (method, extra_args.replace('&vfs', '&vfs')))])


simple_handler('document_symbol', 'DocumentSymbolParams', 'DocumentSymbolResponse', 'IdeDocumentSymbol', 'async_lsp::lsp_types::DocumentSymbol', 'document_symbol', 'symbols')
simple_handler('inlay_hint', 'InlayHintParams', 'Vec<InlayHint>', 'IdeInlayHint', 'InlayHint', 'inlay_hint', 'inlay_hints')
simple_handler('document_link', 'DocumentLinkParams', 'Vec<DocumentLink>', 'IdeDocumentLink', 'DocumentLink', 'document_link', 'links', extra_params=', vfs: &Vfs', extra_args=', &vfs')
simple_handler('folding_range', 'FoldingRangeParams', 'Vec<FoldingRange>', 'IdeFoldingRange', 'FoldingRange', 'folding_range', 'folding_ranges')

# ---- published diagnostics (inherent impl; its spawned closure captures the client socket and the version)
U.desugar_for = True
U.fn(S, 'Server::update_diagnostics', attrs=['external'],
     lift=[dict(closure=0, name='publish_all_diagnostics', sig='(snap: ServerSnapshot, _p: (), mut client: ClientSocket, diag_version: i32)',
                replace='move |snap, p| publish_all_diagnostics(snap, p, client, diag_version)', attrs=['exec_allows_no_decreases_clause'],
                loops={0: dict(invariant=[C('grouped_by_file(hmi_map(&__it0))',
                                            name='the diagnostics still to be published are grouped by the file they lie in')])},
                header_outline=[dict(rx=r'snap\.analysis\.diagnostics\(\)', name='o_diagnostics_by_file', sig='(snap: &ServerSnapshot) -> (r: std::collections::hash_map::IntoIter<FileId, Vec<Diagnostic>>)',
                                     call='o_diagnostics_by_file(&snap)', wrap=('IntoIterator::into_iter(', ')'), ensures=['grouped_by_file(hmi_map(&r))'],
                                     why='the map of diagnostics is walked with its own iterator; ASSUMED: the analysis files every diagnostic under the file it lies in (ide::handlers::diagnostics::exec: entry(diagnostic.location.file))')],
                outline=[dict(rx=r'diagnostics\s*\.into_iter\(\)\s*\.map\(.*?\)\s*\.collect\(\)', name='o_map_diagnostics',
                              sig='(diagnostics: Vec<Diagnostic>, line_index: &Arc<LineIndex>) -> Vec<async_lsp::lsp_types::Diagnostic>', call='o_map_diagnostics(diagnostics, &line_index)',
                              requires=[C('forall|i: int| 0 <= i < diagnostics@.len() ==> li_file(&**line_index) == (#[trigger] diagnostics@[i]).location.file',
                                          name='every diagnostic of the list is converted with the line index of the file it lies in')],
                              why='iterator adapters map/collect; the mapped closure is moved out and verified (R15)'),
                         dict(rx=r'client\s*\.publish_diagnostics\(params\)\s*\.expect\("failed to publish diagnostics"\)', name='o_publish', sig='(client: &mut ClientSocket, params: PublishDiagnosticsParams)',
                              call='o_publish(&mut client, params)', why='sending the notification (and its `expect` on a closed client socket) is outside C09')]),
           dict(closure=1, name='diagnostic_item', sig='(line_index: &LineIndex, diag: Diagnostic) -> (ret: async_lsp::lsp_types::Diagnostic)',
                requires=[C('li_file(line_index) == diag.location.file')], replace='|diag| diagnostic_item(&line_index, diag)')])

# ---- C12: the editor's buffers are the source of truth
U.prepend(VF, 'broadcast use {ax_filepath_key_model, axiom_random_state_builds_valid_hashers};')
U.insert_in(VF, 'impl', 'Vfs', """
    /// the editor's texts of the open documents
    pub closed spec fn open_docs(&self) -> Map<FilePath, String> { self.open_documents@ }
""")
U.fn(VF, 'Vfs::set_open_document', tags='C12',
     ensures=[C('final(self).open_docs() == old(self).open_docs().insert(path, text)', 'C12', name='the editor\'s text is recorded as the document\'s open buffer')])
U.fn(VF, '<Vfs as FileSystem>::assign_or_get_file_id', attrs=['external_body'], tags='C12', ensures=['final(self).open_docs() == old(self).open_docs()'])
U.fn(VF, '<Vfs as FileSystem>::path_for_file', attrs=['external_body'], tags='C12')
U.fn(VF, '<Vfs as FileSystem>::read_content', tags='C12',
     ensures=[C('self.open_docs().contains_key(*file_path) ==> ret == Some(self.open_docs()[*file_path])', 'C12', name='an open document is read from the editor\'s buffer, not from the disk'),
              C('!self.open_docs().contains_key(*file_path) ==> ret == disk_read(&file_path.0)', 'C12', name='a document that was never opened is read from the disk')])
fc = U.fn(S, 'Server::set_file_content', tags='C12')
