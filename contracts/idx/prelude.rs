// Unit IDX prelude: the indexer (crates/ide/src/index.rs, index/{context,scope,bang_operator}.rs) is verified as its
// own crate against the REAL `ide` and `syntax` rlibs rebuilt from /repo on every run.  Everything here is assumed.
pub mod vprelude {
use vstd::prelude::*;
pub use ecow::EcoString;
pub use syntax::ast::{self, AstNode};
pub use syntax::parser::TextRange;
pub use syntax::SyntaxNodePtr;
pub use ide::file_system::{FileRange, FileId, IncludeId};
pub use ide::symbol_map::{
    defm::Defm, defset::Defset,
    multiclass::{Multiclass, MulticlassId},
    record::{Record, RecordId, RecordKind},
    record_field::RecordField, symbol::Symbol,
    template_arg::TemplateArgument, typ::Type,
    variable::{Variable, VariableId, VariableKind},
    SymbolMap,
};
pub use ide::handlers::diagnostics::Diagnostic;
pub use vstd::std_specs::convert::*;
verus!{
// ---------- external types (real crates) ----------
#[verifier::external_type_specification] #[verifier::external_body] pub struct ExEcoString(EcoString);
#[verifier::external_type_specification] #[verifier::external_body] pub struct ExTextRange(TextRange);
#[verifier::external_type_specification] #[verifier::external_body] pub struct ExSymbolMap(SymbolMap);
#[verifier::external_type_specification] pub struct ExDiagnostic(Diagnostic);
#[verifier::external_type_specification] pub struct ExRecord(Record);
#[verifier::external_type_specification] #[verifier::external_body] pub struct ExMulticlass(Multiclass);
#[verifier::external_type_specification] #[verifier::external_body] pub struct ExDefm(Defm);
#[verifier::external_type_specification] pub struct ExTemplateArgument(TemplateArgument);
#[verifier::external_type_specification] pub struct ExType(Type);
#[verifier::external_type_specification] pub struct ExRecordKind(RecordKind);
#[verifier::external_type_specification] pub struct ExFileId(FileId);
#[verifier::external_type_specification] pub struct ExFileRange(FileRange);
#[verifier::external_type_specification] #[verifier::external_body] #[verifier::accept_recursive_types(T)] pub struct ExId<T>(id_arena::Id<T>);
#[verifier::external_trait_specification] pub trait ExQueryGroup: Sized { type ExternalTraitSpecificationFor: salsa::plumbing::QueryGroup; }
#[verifier::external_trait_specification] pub trait ExDatabaseOps { type ExternalTraitSpecificationFor: salsa::plumbing::DatabaseOps; }
#[verifier::external_trait_specification] pub trait ExSalsaDatabase: salsa::plumbing::DatabaseOps { type ExternalTraitSpecificationFor: salsa::Database; }
#[verifier::external_trait_specification] pub trait ExHasQueryGroup<G: salsa::plumbing::QueryGroup>: salsa::Database { type ExternalTraitSpecificationFor: salsa::plumbing::HasQueryGroup<G>; }
/// the resolved include map stored for a file (what file_system::collect_sources recorded)
pub uninterp spec fn inc_map<D: ?Sized>(db: &D, f: FileId) -> Map<IncludeId, FileId>;
#[verifier::external_trait_specification] pub trait ExSourceDatabase: salsa::Database + salsa::plumbing::HasQueryGroup<ide::db::SourceDatabaseStorage> {
    type ExternalTraitSpecificationFor: ide::db::SourceDatabase;
    fn resolved_include_map(&self, file_id: FileId) -> (r: std::collections::HashMap<IncludeId, FileId>) ensures r@ == inc_map(self, file_id);
    fn parse(&self, file_id: FileId) -> syntax::Parse;
    fn line_index(&self, file_id: FileId) -> std::sync::Arc<ide::line_index::LineIndex>;
}
#[verifier::external_type_specification] #[verifier::external_body] pub struct ExLineIndex(ide::line_index::LineIndex);
#[verifier::external_type_specification] #[verifier::external_body] #[verifier::reject_recursive_types(L)] pub struct ExSyntaxNode<L: rowan::Language>(rowan::SyntaxNode<L>);
#[verifier::external_type_specification] #[verifier::external_body] #[verifier::reject_recursive_types(L)] pub struct ExSyntaxNodePtr<L: rowan::Language>(rowan::ast::SyntaxNodePtr<L>);
#[verifier::external_trait_specification] pub trait ExLanguage0: Sized + Copy + core::fmt::Debug + Eq + Ord + core::hash::Hash { type ExternalTraitSpecificationFor: rowan::Language; type Kind: Sized + Copy + core::fmt::Debug + Eq + Ord + core::hash::Hash; }
#[verifier::external_trait_specification] pub trait ExAstNode0 { type ExternalTraitSpecificationFor: rowan::ast::AstNode; type Language: rowan::Language; fn can_cast(kind: <Self::Language as rowan::Language>::Kind) -> bool where Self: Sized; fn cast(node: rowan::SyntaxNode<Self::Language>) -> Option<Self> where Self: Sized; fn syntax(&self) -> (r: &rowan::SyntaxNode<Self::Language>) ensures *r == ast_syntax::<Self, Self::Language>(self); }
/// the syntax node behind a typed AST node
pub uninterp spec fn ast_syntax<A: ?Sized, L: rowan::Language>(a: &A) -> rowan::SyntaxNode<L>;
pub uninterp spec fn node_range<L: rowan::Language>(n: &rowan::SyntaxNode<L>) -> syntax::parser::TextRange;
pub assume_specification<L: rowan::Language> [rowan::SyntaxNode::<L>::text_range] (n: &rowan::SyntaxNode<L>) -> (r: rowan::TextRange) ensures r == node_range(n);
pub uninterp spec fn ptr_of<L: rowan::Language>(n: &rowan::SyntaxNode<L>) -> rowan::ast::SyntaxNodePtr<L>;
pub assume_specification<L: rowan::Language> [rowan::ast::SyntaxNodePtr::<L>::new] (n: &rowan::SyntaxNode<L>) -> (r: rowan::ast::SyntaxNodePtr<L>) ensures r == ptr_of(n);
pub assume_specification<'a, T: Copy> [Option::<&'a T>::copied] (o: Option<&'a T>) -> (r: Option<T>) ensures r == (match o { Some(x) => Some(*x), None => None::<T> });
/// A-hash: IncludeId obeys vstd's key model
pub broadcast axiom fn ax_includeid_key_model() ensures #[trigger] vstd::std_specs::hash::obeys_key_model::<IncludeId>();

#[verifier::external_trait_specification] pub trait ExIndexDatabase: salsa::Database + salsa::plumbing::HasQueryGroup<ide::index::IndexDatabaseStorage> + ide::db::SourceDatabase { type ExternalTraitSpecificationFor: ide::index::IndexDatabase; }
#[verifier::external_type_specification] #[verifier::external_body] pub struct ExIDS(ide::index::IndexDatabaseStorage);
#[verifier::external_type_specification] #[verifier::external_body] pub struct ExSDS(ide::db::SourceDatabaseStorage);
#[verifier::external_type_specification] #[verifier::external_body] pub struct ExAstAssert(ast::Assert);
#[verifier::external_type_specification] #[verifier::external_body] pub struct ExAstBody(ast::Body);
#[verifier::external_type_specification] pub struct ExAstBodyItem(ast::BodyItem);
#[verifier::external_type_specification] #[verifier::external_body] pub struct ExAstClass(ast::Class);
#[verifier::external_type_specification] #[verifier::external_body] pub struct ExAstClassRef(ast::ClassRef);
#[verifier::external_type_specification] #[verifier::external_body] pub struct ExAstDef(ast::Def);
#[verifier::external_type_specification] #[verifier::external_body] pub struct ExAstDefm(ast::Defm);
#[verifier::external_type_specification] #[verifier::external_body] pub struct ExAstDefset(ast::Defset);
#[verifier::external_type_specification] #[verifier::external_body] pub struct ExAstDefvar(ast::Defvar);
#[verifier::external_type_specification] #[verifier::external_body] pub struct ExAstDump(ast::Dump);
#[verifier::external_type_specification] #[verifier::external_body] pub struct ExAstFieldDef(ast::FieldDef);
#[verifier::external_type_specification] #[verifier::external_body] pub struct ExAstFieldLet(ast::FieldLet);
#[verifier::external_type_specification] #[verifier::external_body] pub struct ExAstForeach(ast::Foreach);
#[verifier::external_type_specification] #[verifier::external_body] pub struct ExAstIdentifier(ast::Identifier);
#[verifier::external_type_specification] #[verifier::external_body] pub struct ExAstIf(ast::If);
#[verifier::external_type_specification] #[verifier::external_body] pub struct ExAstInclude(ast::Include);
#[verifier::external_type_specification] #[verifier::external_body] pub struct ExAstLet(ast::Let);
#[verifier::external_type_specification] #[verifier::external_body] pub struct ExAstMultiClass(ast::MultiClass);
#[verifier::external_type_specification] #[verifier::external_body] pub struct ExAstParentClassList(ast::ParentClassList);
#[verifier::external_type_specification] #[verifier::external_body] pub struct ExAstRecordBody(ast::RecordBody);
#[verifier::external_type_specification] pub struct ExAstSimpleValue(ast::SimpleValue);
#[verifier::external_type_specification] #[verifier::external_body] pub struct ExAstSourceFile(ast::SourceFile);
#[verifier::external_type_specification] pub struct ExAstStatement(ast::Statement);
#[verifier::external_type_specification] #[verifier::external_body] pub struct ExAstStatementList(ast::StatementList);
#[verifier::external_type_specification] #[verifier::external_body] pub struct ExAstTemplateArgDecl(ast::TemplateArgDecl);
#[verifier::external_type_specification] #[verifier::external_body] pub struct ExAstTemplateArgList(ast::TemplateArgList);
#[verifier::external_type_specification] #[verifier::external_body] pub struct ExAstValue(ast::Value);
#[verifier::external_type_specification] pub struct ExAstType(ast::Type);

#[verifier::external_type_specification] #[verifier::external_body] pub struct ExAstForeachIterator(ast::ForeachIterator);
#[verifier::external_type_specification] pub struct ExAstForeachIteratorInit(ast::ForeachIteratorInit);
#[verifier::external_type_specification] #[verifier::external_body] pub struct ExAstLetList(ast::LetList);
#[verifier::external_type_specification] #[verifier::external_body] pub struct ExAstLetItem(ast::LetItem);
#[verifier::external_type_specification] #[verifier::external_body] pub struct ExAstArgValueList(ast::ArgValueList);
#[verifier::external_type_specification] pub struct ExAstArgValue(ast::ArgValue);
#[verifier::external_type_specification] #[verifier::external_body] pub struct ExAstInnerValue(ast::InnerValue);
#[verifier::external_type_specification] #[verifier::external_body] pub struct ExAstInteger(ast::Integer);
#[verifier::external_type_specification] #[verifier::external_body] pub struct ExAstBangOperator(ast::BangOperator);
#[verifier::external_type_specification] pub struct ExVariable(Variable);
#[verifier::external_type_specification] #[verifier::external_body] pub struct ExBits(syntax::ast::Bits);
#[verifier::external_type_specification] #[verifier::external_body] pub struct ExBoolean(syntax::ast::Boolean);
#[verifier::external_type_specification] #[verifier::external_body] pub struct ExClassValue(syntax::ast::ClassValue);
#[verifier::external_type_specification] #[verifier::external_body] pub struct ExCode(syntax::ast::Code);
#[verifier::external_type_specification] #[verifier::external_body] pub struct ExCondOperator(syntax::ast::CondOperator);
#[verifier::external_type_specification] #[verifier::external_body] pub struct ExDag(syntax::ast::Dag);
#[verifier::external_type_specification] #[verifier::external_body] pub struct ExLanguage(syntax::Language);
#[verifier::external_type_specification] #[verifier::external_body] pub struct ExList(syntax::ast::List);
#[verifier::external_type_specification] #[verifier::external_body] pub struct ExString(syntax::ast::String);
#[verifier::external_type_specification] #[verifier::external_body] pub struct ExTextSize(syntax::parser::TextSize);
#[verifier::external_type_specification] #[verifier::external_body] pub struct ExUninitialized(syntax::ast::Uninitialized);
#[verifier::external_type_specification] pub struct ExAstValueSuffix(ast::ValueSuffix);
/// id_arena::Id equality is structural (arena id + index)
pub assume_specification<T> [<id_arena::Id<T> as core::cmp::PartialEq>::eq] (a: &id_arena::Id<T>, b: &id_arena::Id<T>) -> (r: bool) ensures r == (*a == *b);
/// A-hash: FileId (a u32 newtype with derived Eq/Hash) obeys vstd's key model
pub broadcast axiom fn ax_fileid_key_model() ensures #[trigger] vstd::std_specs::hash::obeys_key_model::<FileId>();
pub use vstd::std_specs::hash::*;
// ---------------------------------------------------------------- name lookup (C05): ASSUMED functional contracts of the symbol map
pub use ide::symbol_map::symbol::SymbolId;
pub use ide::symbol_map::{record_field::RecordFieldId, template_arg::TemplateArgumentId, defset::DefsetId, defm::DefmId};
#[verifier::external_type_specification] pub struct ExSymbolId(SymbolId);
/// the record an id denotes / what the lookups of the symbol map return (uninterpreted: they are functions of the map)
pub uninterp spec fn sp_record(sm: &SymbolMap, id: RecordId) -> Record;
pub uninterp spec fn sp_multiclass(sm: &SymbolMap, id: MulticlassId) -> Multiclass;
pub uninterp spec fn sp_field(r: &Record, sm: &SymbolMap, name: EcoString) -> Option<RecordFieldId>;
pub uninterp spec fn sp_rec_targ(r: &Record, name: EcoString) -> Option<TemplateArgumentId>;
pub uninterp spec fn sp_mc_targ(m: &Multiclass, name: EcoString) -> Option<TemplateArgumentId>;
pub uninterp spec fn sp_def(sm: &SymbolMap, name: EcoString) -> Option<RecordId>;
pub uninterp spec fn sp_defset(sm: &SymbolMap, name: EcoString) -> Option<DefsetId>;
pub assume_specification [SymbolMap::record] (sm: &SymbolMap, id: RecordId) -> (r: &Record) ensures *r == sp_record(sm, id);
pub assume_specification [SymbolMap::multiclass] (sm: &SymbolMap, id: MulticlassId) -> (r: &Multiclass) ensures *r == sp_multiclass(sm, id);
/// own and inherited fields (Record::find_field walks the parent classes)
pub assume_specification [Record::find_field] (r: &Record, sm: &SymbolMap, name: &EcoString) -> (f: Option<RecordFieldId>) ensures f == sp_field(r, sm, *name);
pub assume_specification [Record::find_template_arg] (r: &Record, name: &EcoString) -> (f: Option<TemplateArgumentId>) ensures f == sp_rec_targ(r, *name);
pub assume_specification [Multiclass::find_template_arg] (m: &Multiclass, name: &EcoString) -> (f: Option<TemplateArgumentId>) ensures f == sp_mc_targ(m, *name);
pub assume_specification [SymbolMap::find_def] (sm: &SymbolMap, name: &EcoString) -> (f: Option<RecordId>) ensures f == sp_def(sm, *name);
pub assume_specification [SymbolMap::find_defset] (sm: &SymbolMap, name: &EcoString) -> (f: Option<DefsetId>) ensures f == sp_defset(sm, *name);
// ---- C17: ranges are paired with the file on top of the include stack; identifier ranges come from the identifier's own token
pub assume_specification<M0: Into<String>> [Diagnostic::new] (location: FileRange, message: M0) -> (r: Diagnostic) ensures r.location == location;
pub assume_specification [FileRange::new] (file: FileId, range: syntax::parser::TextRange) -> (r: FileRange) ensures r.file == file, r.range == range;
/// text / range of an identifier node's token (uninterpreted: what the typed AST accessors return)
pub uninterp spec fn ident_text(i: &ast::Identifier) -> Option<EcoString>;
pub uninterp spec fn ident_range(i: &ast::Identifier) -> Option<syntax::parser::TextRange>;
pub assume_specification [ast::Identifier::value] (i: &ast::Identifier) -> (r: Option<EcoString>) ensures r == ident_text(i);
pub assume_specification [ast::Identifier::range] (i: &ast::Identifier) -> (r: Option<syntax::parser::TextRange>) ensures r == ident_range(i);
/// A-hash: EcoString obeys vstd's HashMap key model; `==` on EcoString compares the text (ecow: PartialEq via str)
pub broadcast axiom fn ax_ecostring_key_model() ensures #[trigger] vstd::std_specs::hash::obeys_key_model::<EcoString>();
pub assume_specification [<EcoString as core::cmp::PartialEq>::eq] (a: &EcoString, b: &EcoString) -> (r: bool) ensures r == (*a == *b);
pub axiom fn ax_ecostring_eq()
    ensures <EcoString as vstd::std_specs::cmp::PartialEqSpec<EcoString>>::obeys_eq_spec(),
            forall|a: EcoString, b: EcoString| #[trigger] <EcoString as vstd::std_specs::cmp::PartialEqSpec<EcoString>>::eq_spec(&a, &b) == (a == b);
/// the `From<..Id> for SymbolId` impls wrap the id in the variant of the same name (symbol_map/symbol.rs)
pub axiom fn ax_into_sym()
    ensures <VariableId as IntoSpec<SymbolId>>::obeys_into_spec(), forall|id: VariableId| #[trigger] <VariableId as IntoSpec<SymbolId>>::into_spec(id) == SymbolId::VariableId(id),
            <RecordFieldId as IntoSpec<SymbolId>>::obeys_into_spec(), forall|id: RecordFieldId| #[trigger] <RecordFieldId as IntoSpec<SymbolId>>::into_spec(id) == SymbolId::RecordFieldId(id),
            <TemplateArgumentId as IntoSpec<SymbolId>>::obeys_into_spec(), forall|id: TemplateArgumentId| #[trigger] <TemplateArgumentId as IntoSpec<SymbolId>>::into_spec(id) == SymbolId::TemplateArgumentId(id),
            <RecordId as IntoSpec<SymbolId>>::obeys_into_spec(), forall|id: RecordId| #[trigger] <RecordId as IntoSpec<SymbolId>>::into_spec(id) == SymbolId::RecordId(id),
            <DefsetId as IntoSpec<SymbolId>>::obeys_into_spec(), forall|id: DefsetId| #[trigger] <DefsetId as IntoSpec<SymbolId>>::into_spec(id) == SymbolId::DefsetId(id);
/// model of `slice.iter().rev()`: items yielded so far / the slice it walks backwards
pub uninterp spec fn rev_pos<I>(e: &core::iter::Rev<I>) -> nat;
pub uninterp spec fn rev_items<I: Iterator>(e: &core::iter::Rev<I>) -> Seq<<I as Iterator>::Item>;
pub assume_specification<I: DoubleEndedIterator> [<core::iter::Rev<I> as Iterator>::next] (e: &mut core::iter::Rev<I>) -> (r: Option<<I as Iterator>::Item>)
    ensures rev_items(final(e)) == rev_items(old(e)),
        match r { Some(x) => rev_pos(old(e)) < rev_items(old(e)).len() && x == rev_items(old(e))[rev_items(old(e)).len() - 1 - rev_pos(old(e))] && rev_pos(final(e)) == rev_pos(old(e)) + 1,
                  None => rev_pos(old(e)) >= rev_items(old(e)).len() && rev_pos(final(e)) == rev_pos(old(e)) };
/// model of `vec.into_iter().enumerate()`: position of the next item / number of items (core::iter::Enumerate counts from 0)
#[verifier::external_type_specification] #[verifier::external_body] #[verifier::reject_recursive_types(I)] pub struct ExEnumerate<I>(core::iter::Enumerate<I>);
pub uninterp spec fn enum_pos<I>(e: &core::iter::Enumerate<I>) -> nat;
pub uninterp spec fn enum_total<I>(e: &core::iter::Enumerate<I>) -> nat;
pub assume_specification<I: Iterator> [<core::iter::Enumerate<I> as Iterator>::next] (e: &mut core::iter::Enumerate<I>) -> (r: Option<(usize, <I as Iterator>::Item)>)
    ensures enum_total(final(e)) == enum_total(old(e)),
        match r { Some((i, _)) => i == enum_pos(old(e)) && enum_pos(old(e)) < enum_total(old(e)) && enum_pos(final(e)) == enum_pos(old(e)) + 1,
                  None => enum_pos(old(e)) >= enum_total(old(e)) && enum_pos(final(e)) == enum_pos(old(e)) };
/// stands for format!(..) / eco_format!(..) (R5): formatting machinery is outside Verus
#[verifier::external_body] pub fn opaque_string() -> (r: String) { unimplemented!() }
#[verifier::external_body] pub fn opaque_eco_string() -> (r: EcoString) { unimplemented!() }
}
}
