"""Unit IDX (C05 partial, C03 partial, C16 partial): the real indexer text verified against the real ide/syntax rlibs.

What is proved: for every `Indexable::index` (and the helpers it calls), over every exit including `?`:
  C05  the scope stack and the file stack are exactly restored (frames as kinds, file_trace), i.e. every
       scope-opening construct pops what it pushed;
  C03  the preconditions of every panic site of the indexer hold (Scopes::pop / last / current_file_id / pop_file `expect`s,
       the `panic!`s of TemplateArgDecl / ParentClassList, the `expect`s of FieldDef / FieldLet).
Termination of the recursion over the syntax tree is NOT proved (no measure on the external AST types)."""
import re
from splice import UnitSpec, C

U = UnitSpec('idx', '/repo/crates/ide/src', None, default_tags='C03 C05 C16')
U.root_text = '''
pub use ide::TY;
pub mod file_system { pub use ide::file_system::*; }
pub mod handlers { pub mod diagnostics { pub use ide::handlers::diagnostics::*; } }
pub mod symbol_map { pub use ide::symbol_map::*; }
pub mod db { pub use ide::db::*; }
pub mod line_index { pub use ide::line_index::*; }
'''
U.extra_files = [('index.rs', 'index')]
U.prelude_files = ['/verif/contracts/idx/prelude.rs', '/verif/contracts/idx/harvested.rs']
U.extra_uses = 'use vstd::prelude::*;\n#[allow(unused_imports)] use crate::vprelude::*;\n#[allow(unused_imports)] use crate::vspecs::*;\n'
U.externs = ['ide', 'syntax', 'ecow', 'rowan', 'salsa', 'id_arena', 'indexmap']
U.repo_build = ['-p', 'ide']
U.flags = ['--no-trait-conflicts']
U.desugar_for = True
U.features = ['allocator_api']   # named by the external type specification of hash_set::IntoIter<K, A>
U.inline_and_then = True   # R13
U.inline_mod_uses = '#[allow(unused_imports)] use crate::index::context::*;\n#[allow(unused_imports)] use crate::index::scope::*;\n'
U.delete_stmt_macros = {'tracing::debug', 'tracing::info', 'tracing::warn', 'tracing::error', 'tracing::trace'}
U.macro_replacements = {'format': 'crate::vprelude::opaque_string()', 'eco_format': 'crate::vprelude::opaque_eco_string()'}
U.kind_tags = {'assert': 'C03', 'panic': 'C03', 'overflow': 'C03', 'bounds': 'C03', 'precondition': 'C03'}   # unmarked = preconditions of std / assumed dependency functions (index bounds, unwrap, expect): panic sites

I = 'index.rs'
CTX = 'index/context.rs'
SC = 'index/scope.rs'
BO = 'index/bang_operator.rs'

# ----------------------------------------------------------------------------- index.rs: items that stay in the linked ide crate
U.drop_item(I, 'trait', r'IndexDatabase', 'R9', 'salsa query group: comes from the linked ide crate')
U.drop_item(I, 'struct', r'Index', 'R9', 'comes from the linked ide crate')
U.drop_item(I, 'impl', r'Index', 'R9', 'comes from the linked ide crate')
U.fn(I, 'index', drop='salsa query function: comes from the linked ide crate')
U.prepend(I, 'pub use ide::index::{Index, IndexDatabase, IndexDatabaseStorage};')
U.fn(CTX, 'IndexCtx::finish', drop='constructs ide::index::Index (private fields of the linked crate)')

# ----------------------------------------------------------------------------- ghost views (inserted text)
U.append(SC, '''
/// the kind of a scope frame (ids and names abstracted away)
pub enum Fk { Root, Record, Foreach, Defset, Multiclass, Defm, XFilter, XFoldl, XForeach }
pub open spec fn fk(k: ScopeKind) -> Fk {
    match k {
        ScopeKind::Root => Fk::Root, ScopeKind::Record(_) => Fk::Record, ScopeKind::Foreach(_, _) => Fk::Foreach,
        ScopeKind::Defset(_) => Fk::Defset, ScopeKind::Multiclass(_) => Fk::Multiclass, ScopeKind::Defm(_) => Fk::Defm,
        ScopeKind::XFilter => Fk::XFilter, ScopeKind::XFoldl => Fk::XFoldl, ScopeKind::XForeach => Fk::XForeach,
    }
}
impl Scopes {
    pub closed spec fn view(&self) -> Seq<Fk> { self.scopes@.map_values(|s: Scope| fk(s.kind)) }
}
''')
U.append(CTX, '''
pub open spec fn frames(ctx: &IndexCtx) -> Seq<Fk> { ctx.scopes@ }
/// the context is usable: at least the root scope and the root file are on their stacks
pub open spec fn cwf(ctx: &IndexCtx) -> bool { frames(ctx).len() > 0 && ctx.file_trace@.len() > 0 }
pub open spec fn has(ctx: &IndexCtx, k: Fk) -> bool { frames(ctx).contains(k) }
pub open spec fn has_record(ctx: &IndexCtx) -> bool { has(ctx, Fk::Record) }
pub open spec fn has_multiclass(ctx: &IndexCtx) -> bool { has(ctx, Fk::Multiclass) }
pub open spec fn has_defm(ctx: &IndexCtx) -> bool { has(ctx, Fk::Defm) }
/// frame condition of every indexing function: both stacks restored
pub open spec fn restored(a: &IndexCtx, b: &IndexCtx) -> bool { frames(a) =~= frames(b) && a.file_trace@ =~= b.file_trace@ }
''')
U.prepend(CTX, 'use super::scope::*;')
U.prepend(I, 'use context::*;\nuse scope::*;')
U.prepend(BO, 'use super::context::*;\nuse super::scope::*;')

# ----------------------------------------------------------------------------- scope.rs
U.fn(SC, '<Scopes as Default>::default', ensures=['ret@ =~= seq![Fk::Root]'], no_ret=False)
U.fn(SC, 'Scopes::push', ensures=[C('final(self)@ =~= old(self)@.push(fk(kind))', 'C05'),
                                   'final(self)@.contains(fk(kind))', 'forall|k: Fk| old(self)@.contains(k) ==> #[trigger] final(self)@.contains(k)'],
     prologue='let ghost v0 = self@; let ghost fkk = fk(kind);',
     epilogue='proof { assert(self@ =~= v0.push(fkk)); assert(self@[v0.len() as int] == fkk); assert forall|k: Fk| v0.contains(k) implies self@.contains(k) by { let i = choose|i: int| 0 <= i < v0.len() && v0[i] == k; assert(self@[i] == k); } }')
U.fn(SC, 'Scopes::pop', requires=[C('old(self)@.len() > 0', 'C03', name='pop() on an empty scope stack panics')],
     ensures=[C('final(self)@ =~= old(self)@.drop_last()', 'C05')])
for f, k in [('current_record_id', 'Record'), ('current_defset_id', 'Defset'), ('current_multiclass_id', 'Multiclass'), ('current_defm_id', 'Defm')]:
    U.fn(SC, 'Scopes::' + f, attrs=['external_body'], ensures=['ret.is_some() == self@.contains(Fk::%s)' % k])
U.fn(SC, 'Scopes::add_variable', attrs=['external_body'],
     requires=[C('old(self)@.len() > 0', 'C03', name='add_variable needs a current scope (last_mut().expect)')],
     ensures=[C('final(self)@ =~= old(self)@', 'C05')])
U.append(SC, '''
// ---- C05: the lookup order as the property states it: innermost scope first; in a scope variables, then fields (own and inherited),
// ---- then template arguments; global defs last
/// a scope's own variables: what was declared in it (defvar, bang-operator variables, ...) and, for a foreach scope, its iterator
pub open spec fn sp_scope_var(s: &Scope, name: EcoString) -> Option<VariableId> {
    if s.name_to_variable@.contains_key(name) { Some(s.name_to_variable@[name]) }
    else { match s.kind { ScopeKind::Foreach(n, id) => if n == name { Some(id) } else { None }, _ => None } }
}
pub open spec fn local_at(sc: &Scope, sm: &SymbolMap, name: EcoString) -> Option<SymbolId> {
    match sp_scope_var(sc, name) {
        Some(v) => Some(SymbolId::VariableId(v)),
        None => match sc.kind {
            ScopeKind::Record(rid) => match sp_field(&sp_record(sm, rid), sm, name) {
                Some(f) => Some(SymbolId::RecordFieldId(f)),
                None => match sp_rec_targ(&sp_record(sm, rid), name) { Some(t) => Some(SymbolId::TemplateArgumentId(t)), None => None },
            },
            ScopeKind::Multiclass(mid) => match sp_mc_targ(&sp_multiclass(sm, mid), name) { Some(t) => Some(SymbolId::TemplateArgumentId(t)), None => None },
            _ => None,
        },
    }
}
/// the innermost n scopes... i.e. scopes[n-1] first, then n-2, down to the root
pub open spec fn local_spec(scopes: Seq<Scope>, sm: &SymbolMap, name: EcoString, n: nat) -> Option<SymbolId> decreases n {
    if n == 0 || n > scopes.len() { None } else { match local_at(&scopes[n - 1], sm, name) { Some(x) => Some(x), None => local_spec(scopes, sm, name, (n - 1) as nat) } }
}
pub open spec fn resolve_spec(scopes: Seq<Scope>, sm: &SymbolMap, name: EcoString) -> Option<SymbolId> {
    match local_spec(scopes, sm, name, scopes.len()) { Some(x) => Some(x), None => match sp_def(sm, name) { Some(d) => Some(SymbolId::RecordId(d)), None => match sp_defset(sm, name) { Some(d) => Some(SymbolId::DefsetId(d)), None => None } } }
}
impl Scopes { pub closed spec fn all(&self) -> Seq<Scope> { self.scopes@ } }
''')
U.fn(SC, 'Scopes::find_local', attrs=['exec_allows_no_decreases_clause'], tags='C05',
     ensures=[C('ret == local_spec(self.all(), symbol_map, *name, self.all().len())', 'C05', name='lookup walks the scopes innermost first: variables, then fields, then template arguments')],
     prologue='proof { ax_into_sym(); }',
     outline=[dict(rx=r'self\.scopes\.iter\(\)\.rev\(\)', name='o_scopes_rev', sig="<'a>(this: &'a Scopes) -> (r: core::iter::Rev<core::slice::Iter<'a, Scope>>)", call='o_scopes_rev(self)', subst=[('self', 'this')],
                   ensures=['rev_pos(&r) == 0', 'rev_items(&r).len() == this.all().len()', 'forall|i: int| 0 <= i < this.all().len() ==> *(#[trigger] rev_items(&r)[i]) == this.all()[i]'],
                   why='slice iterator adapter rev()')],
     loops={0: dict(invariant=['rev_items(&__it0).len() == self.all().len()', 'forall|i: int| 0 <= i < self.all().len() ==> *(#[trigger] rev_items(&__it0)[i]) == self.all()[i]',
                               'rev_pos(&__it0) <= self.all().len()',
                               C('local_spec(self.all(), symbol_map, *name, self.all().len()) == local_spec(self.all(), symbol_map, *name, (self.all().len() - rev_pos(&__it0)) as nat)', 'C05',
                                 name='no inner scope declares the name')],
                    body_prologue='proof { ax_into_sym(); }',
                    ensures=['rev_pos(&__it0) >= self.all().len()'])})
U.fn(SC, 'Scopes::find_variable_in_current_scope', attrs=['external_body'],
     requires=[C('self@.len() > 0', 'C03', name='find_variable_in_current_scope needs a current scope (last().expect)')])
U.fn(SC, 'Scope::new', ensures=['fk(ret.kind) == fk(kind)'])
for f, k in (('record_id', 'Record'), ('defset_id', 'Defset'), ('multiclass_id', 'Multiclass'), ('defm_id', 'Defm')):
    U.fn(SC, 'Scope::' + f, ensures=['ret == (match self.kind { ScopeKind::%s(id) => Some(id), _ => None })' % k])
U.fn(SC, 'Scope::add_variable', tags='C05', prologue='broadcast use {ax_ecostring_key_model, axiom_random_state_builds_valid_hashers};',
     ensures=[C('final(self).name_to_variable@ == old(self).name_to_variable@.insert(name, variable_id)', 'C05', name='a declared variable is found under its name afterwards (and replaces an earlier one of that name)'),
              'fk(final(self).kind) == fk(old(self).kind)'])
U.fn(SC, 'Scope::find_variable', tags='C05', prologue='broadcast use {ax_ecostring_key_model, axiom_random_state_builds_valid_hashers}; proof { ax_ecostring_eq(); }',
     ensures=[C('ret == sp_scope_var(self, *name)', 'C05', name='a scope\'s own variables: declared ones first, then the foreach iterator')])

# ----------------------------------------------------------------------------- context.rs
U.fn(CTX, 'IndexCtx::new', attrs=['external_body'], ensures=['cwf(&ret)', 'frames(&ret) =~= seq![Fk::Root]', 'ret.file_trace@ =~= seq![root_file]',
                                                      C('ret.indexed_files@ =~= set![root_file]', 'C16', name='the root file counts as indexed from the start')])
U.fn(CTX, 'IndexCtx::current_file_id', requires=[C('self.file_trace@.len() > 0', 'C03', name='current_file_id() on an empty file stack panics')],
     ensures=['ret == self.file_trace@.last()'])
U.fn(CTX, 'IndexCtx::push_file',
     ensures=[C('ret == !old(self).indexed_files@.contains(file_id)', 'C16', name='a file is entered only if it has not been indexed before'),
              C('final(self).indexed_files@ =~= old(self).indexed_files@.insert(file_id)', 'C16', name='an entered file is remembered'),
              C('ret ==> final(self).file_trace@ =~= old(self).file_trace@.push(file_id)', 'C05 C17', name='an entered file goes on top of the include stack'),
              C('!ret ==> final(self).file_trace@ =~= old(self).file_trace@', 'C05 C17', name='a file that is not entered leaves the include stack alone'), 'final(self).scopes == old(self).scopes'],
     prologue='broadcast use {ax_fileid_key_model, axiom_random_state_builds_valid_hashers};')
U.fn(CTX, 'IndexCtx::pop_file', requires=[C('old(self).file_trace@.len() > 0', 'C03', name='pop_file() on an empty file stack panics')],
     ensures=[C('final(self).file_trace@ =~= old(self).file_trace@.drop_last()', 'C05 C17', name='leaving a file removes exactly the top of the include stack'), 'final(self).scopes == old(self).scopes',
              'final(self).indexed_files == old(self).indexed_files'])
U.fn(CTX, 'IndexCtx::resolve_id', tags='C05', prologue='proof { ax_into_sym(); }',
     ensures=[C('ret == resolve_spec(self.scopes.all(), &self.symbol_map, *name)', 'C05', name='a name resolves to the innermost local declaration; the globals - defs, then completed defsets - are consulted last')])
U.fn(CTX, 'IndexCtx::resolve_id_in_current_scope', requires=[C('frames(self).len() > 0', 'C03')])
U.fn(CTX, 'IndexCtx::error', requires=[C('old(self).file_trace@.len() > 0', 'C03', name='error() needs a current file')],
     ensures=['final(self).scopes == old(self).scopes', 'final(self).file_trace == old(self).file_trace', 'final(self).indexed_files == old(self).indexed_files',
              C('final(self).diagnostics@.len() == old(self).diagnostics@.len() + 1 && final(self).diagnostics@.last().location == (FileRange { file: old(self).file_trace@.last(), range: range })'
                ' && forall|i: int| 0 <= i < old(self).diagnostics@.len() ==> final(self).diagnostics@[i] == old(self).diagnostics@[i]', 'C17',
                name='a diagnostic is recorded with the given range in the file on top of the include stack; earlier diagnostics are kept')])
U.fn(CTX, 'IndexCtx::next_anonymous_def_name', attrs=['external_body'],
     ensures=['final(self).scopes == old(self).scopes', 'final(self).file_trace == old(self).file_trace', 'final(self).indexed_files == old(self).indexed_files'])

# ----------------------------------------------------------------------------- the Indexable trait
U.insert_in(I, 'trait', 'Indexable', '''
    /// what the node needs from its context (which scope frames must be open)
    spec fn pre(&self, ctx: &IndexCtx) -> bool;
''')
U.fn(I, 'Indexable::index',
     requires=[C('cwf(old(ctx))', 'C03 C05'), C('self.pre(old(ctx))', 'C03', name='the construct is indexed inside the scope it needs')],
     ensures=[C('cwf(final(ctx))', 'C03 C05'), C('restored(final(ctx), old(ctx))', 'C05', name='scope stack and file stack restored on every exit'),
              C('final(ctx).file_trace@ =~= old(ctx).file_trace@', 'C17', name='the include stack is restored on every exit: the file on top is the file whose tree is being indexed, so ranges stay paired with their own file'),
              C('old(ctx).indexed_files@.subset_of(final(ctx).indexed_files@)', 'C16', name='the set of indexed files only grows (so a file is entered at most once)')])

REC = 'has_record(ctx)'
PRE = {
    'RecordBody': REC, 'Body': REC, 'BodyItem': REC, 'FieldDef': REC, 'FieldLet': REC,
    'ParentClassList': 'has_record(ctx) || has_multiclass(ctx) || has_defm(ctx)',
    'TemplateArgList': 'has_record(ctx) || has_multiclass(ctx)', 'TemplateArgDecl': 'has_record(ctx) || has_multiclass(ctx)',
}
LOOPINV = ['cwf(ctx)', 'restored(ctx, old(ctx))', C('old(ctx).indexed_files@.subset_of(ctx.indexed_files@)', 'C16')]
IMPLS = ['SourceFile', 'StatementList', 'Statement', 'Include', 'Assert', 'Class', 'Def', 'Defm', 'Defset', 'Defvar', 'Dump', 'Foreach', 'ForeachIterator',
         'ForeachIteratorInit', 'If', 'Let', 'LetList', 'LetItem', 'MultiClass', 'TemplateArgList', 'TemplateArgDecl', 'RecordBody', 'ParentClassList',
         'ArgValueList', 'ArgValue', 'Body', 'BodyItem', 'FieldDef', 'FieldLet', 'Value', 'InnerValue', 'SimpleValue', 'Type', 'Integer']
# bodies that use iterator adapters / closures capturing ctx: not verified, frame contract ASSUMED
EXTERNAL = {'ArgValueList'}   # closure capturing ctx inside a map() whose items are needed individually
FRAME_ENS = ['cwf(final(ctx))', 'restored(final(ctx), old(ctx))', 'old(ctx).indexed_files@.subset_of(final(ctx).indexed_files@)']
OUTLINES = {
  # Iterator::count cannot be given a Verus specification: counted in a helper
  'Value': [dict(rx=r'self\.inner_values\(\)\.count\(\)', name='o_inner_value_count', sig='(this: &ast::Value) -> usize', call='o_inner_value_count(self)', subst=[('self', 'this')],
                 why='Iterator::count')],
  'SimpleValue': [
      dict(rx=r'bits\.value_list\(\)\?\.values\(\)\.count\(\)', name='o_bits_len', sig='(vl: ast::ValueList) -> usize', call='o_bits_len(bits.value_list()?)', subst=[('bits.value_list()?', 'vl')],
           why='Iterator::count'),
      dict(move=True, rx=r'let (?:mut )?value_types(?:: Vec<Type>)? = list.*?\.or\(Some\(Type::List\(Box::new\(Type::Any\)\)\)\)', name='o_list_type',
           sig='(list: &ast::List, ctx: &mut IndexCtx) -> (r: Option<Type>)', call='o_list_type(list, ctx)', requires=['cwf(old(ctx))'], ensures=FRAME_ENS,
           why='lazy filter_map over a closure that captures ctx (&mut); ASSUMED frame contract: the element values are indexed through Value::index, which restores both stacks'),
      dict(rx=r'arg_list\.args\(\)\.filter_map\(\|it\| it\.value\(\)\)', name='o_dag_arg_values', sig='(arg_list: &ast::DagArgList) -> std::vec::IntoIter<ast::Value>', call='o_dag_arg_values(&arg_list)',
           wrap=('', '.collect::<Vec<_>>().into_iter()'), why='filter_map adapter: collected into a Vec to be walked with a specified iterator'),
      dict(move=True, rx=r'class\s*\.iter_template_arg\(\)\s*\.map\(\|id\| ctx\.symbol_map\.template_arg\(id\)\)\s*\.cloned\(\)\s*\.collect\(\)', name='o_class_template_args',
           sig='(class: &Record, ctx: &IndexCtx) -> Vec<TemplateArgument>', call='o_class_template_args(class, &*ctx)', why='iterator adapters map/cloned/collect over the symbol map'),
  ],
}
NLOOPS = {'StatementList': 1, 'LetList': 1, 'TemplateArgList': 1, 'ParentClassList': 3, 'Body': 1, 'Value': 1, 'InnerValue': 1, 'SimpleValue': 3}
RENAME = {'Statement': {'assert': 'assert_', 'r#if': 'if_', 'r#let': 'let_'}, 'BodyItem': {'assert': 'assert_'}}
for name in IMPLS:
    imp = '<ast::%s as Indexable>' % name
    pre = PRE.get(name, 'true')
    U.insert_in(I, 'impl', imp, '    open spec fn pre(&self, ctx: &IndexCtx) -> bool { %s }' % pre)
    loops = {}
    for i in range(NLOOPS.get(name, 0)):
        loops[i] = dict(invariant=LOOPINV + ([pre] if pre != 'true' else []))
    U.fn(I, imp + '::index', attrs=(['external_body'] if name in EXTERNAL else ['exec_allows_no_decreases_clause']), loops=loops, rename=RENAME.get(name, {}),
         outline=OUTLINES.get(name, []))

# C16: an include statement that is not recorded in the resolved include map of its file is reported as not found, at the statement
_inc = U.fns[(I, '<ast::Include as Indexable>::index')]
_inc.prologue = (_inc.prologue or '') + ' broadcast use {ax_includeid_key_model, axiom_random_state_builds_valid_hashers};'
_inc.ensures += [C('!inc_map(old(ctx).db, old(ctx).file_trace@.last()).contains_key(IncludeId(ptr_of(&ast_syntax::<ast::Include, syntax::Language>(self)))) ==> '
                   'final(ctx).diagnostics@.len() == old(ctx).diagnostics@.len() + 1 '
                   '&& final(ctx).diagnostics@.last().location == (FileRange { file: old(ctx).file_trace@.last(), range: node_range(&ast_syntax::<ast::Include, syntax::Language>(self)) })', 'C16',
                   name='an include statement that did not resolve (no entry in the resolved include map of its file) gets a diagnostic at the statement, in that file')]
# C05 at the use site: the reference recorded for an identifier is the symbol the reference lookup yields, at the identifier's own range
_sv = U.fns[(I, '<ast::SimpleValue as Indexable>::index')]
_sv.rebind = [(r'ctx\.symbol_map\.add_reference\(([^,()]+), ([^;]*)\)(?=;\s*match ctx\.symbol_map\.symbol)',
               '{ let rid__: SymbolId = {g1}; let rloc__: FileRange = {g2}; '
               'proof { assert(Some(rid__) == resolve_spec(ctx.scopes.all(), &ctx.symbol_map, name) && ident_text(identifier) == Some(name) '
               '&& ident_range(identifier) == Some(rloc__.range) && rloc__.file == ctx.file_trace@.last()); } /*@*/\n ctx.symbol_map.add_reference(rid__, rloc__) }', 'C05',
               'a use of a name is recorded as a reference of the symbol the lookup (innermost declaration first, global defs last) resolves it to, at the identifier\'s own range in the current file')]
FRAME = dict(requires=[C('cwf(old(ctx))', 'C03 C05')], ensures=[C('cwf(final(ctx))', 'C03 C05'), C('restored(final(ctx), old(ctx))', 'C05'),
                                                                 C('old(ctx).indexed_files@.subset_of(final(ctx).indexed_files@)', 'C16')])
U.fn(I, 'index_name_value', attrs=['exec_allows_no_decreases_clause'], loops={0: dict(invariant=LOOPINV)}, **FRAME)
U.fn(I, 'resolve_class_ref_as_class', attrs=['external_body'], **FRAME)
U.fn(I, 'resolve_class_ref_as_multiclass', attrs=['external_body'], **FRAME)
# check_template_args: verified.  Its three iterator-adapter expressions are outlined (R14) into external_body helpers; the
# enumerate() loop is desugared (R4) over an assumed model of Enumerate<vec::IntoIter<_>> (position / total ghost counters).
U.fn(I, 'check_template_args', attrs=['exec_allows_no_decreases_clause'], **FRAME,
     outline=[dict(rx=r'template_args\s*\.iter\(\)\s*\.map\(\|arg\| arg\.name\.clone\(\)\)\s*\.collect\(\)', name='o_template_arg_names', sig='(template_args: &Vec<TemplateArgument>) -> HashSet<EcoString>',
                   call='o_template_arg_names(&template_args)', why='iterator adapters map/collect'),
              dict(rx=r'template_args\.iter\(\)\.find\(\|arg\| arg\.name == arg_value_name\)', name='o_find_template_arg', sig="<'a>(template_args: &'a Vec<TemplateArgument>, arg_value_name: &EcoString) -> Option<&'a TemplateArgument>",
                   call='o_find_template_arg(&template_args, &arg_value_name)', bind='let arg_value_name = arg_value_name.clone(); /* the helper borrows what the site owns */ ', why='iterator adapter find with a closure'),
              dict(rx=r'template_args\.iter\(\)\.find\(\|arg\| arg\.name == unsolved_arg\)', name='o_find_unsolved_arg', sig="<'a>(template_args: &'a Vec<TemplateArgument>, unsolved_arg: &EcoString) -> Option<&'a TemplateArgument>",
                   call='o_find_unsolved_arg(&template_args, &unsolved_arg)', bind='let unsolved_arg = unsolved_arg.clone(); /* the helper borrows what the site owns */ ', why='iterator adapter find with a closure'),
              dict(rx=r'arg_values\.into_iter\(\)\.enumerate\(\)', name='o_enumerate_arg_values', sig='(arg_values: Vec<Option<(Option<EcoString>, Type, TextRange)>>) -> (r: core::iter::Enumerate<std::vec::IntoIter<Option<(Option<EcoString>, Type, TextRange)>>>)',
                   call='o_enumerate_arg_values(arg_values)', ensures=['enum_pos(&r) == 0', 'enum_total(&r) == arg_values@.len()'], why='Iterator::enumerate is a provided trait method'),
              ],
     loops={0: dict(invariant=LOOPINV + ['enum_pos(&__it0) <= enum_total(&__it0)', C('enum_total(&__it0) <= template_args@.len()', 'C03', name='positional arguments are looked up only below the number of declared template arguments')]),
            1: dict(invariant=LOOPINV)})
U.fn(I, 'identifier', rename={'identifier': 'ident_'}, requires=FRAME['requires'],
     ensures=FRAME['ensures'] + [C('ret matches Some(p) ==> ident_text(ident_) == Some(p.0) && ident_range(ident_) == Some(p.1.range) && p.1.file == old(ctx).file_trace@.last()', 'C17 C06',
                                   name='an identifier\'s name and range come from its own token, paired with the file on top of the include stack')])   # mod utils

# ----------------------------------------------------------------------------- C03 mechanism 2: no record becomes its own parent
# (a parent class must already exist when it is named, so the only cycle the indexer could build is the self reference)
U.append(I, '''
/// ghost identity of a record reference handed out by the symbol map
pub uninterp spec fn rec_id_of(r: &Record) -> RecordId;
pub assume_specification [ide::symbol_map::SymbolMap::record_mut] (m: &mut ide::symbol_map::SymbolMap, id: RecordId) -> (r: &mut Record)
    ensures rec_id_of(r) == id;
pub assume_specification [ide::symbol_map::record::Record::add_parent] (r: &mut Record, parent_id: RecordId)
    requires parent_id != rec_id_of(old(r));
''')

# ----------------------------------------------------------------------------- tree-shape assumptions on the parser's output
# The parser always builds these child nodes (grammar functions def/defm/defset/foreach call record_body / parent_class_list /
# statement_list unconditionally, and those always open their node), so the `?` on these accessors never exits.  ASSUMED here.
U.append(I, '''
pub assume_specification [syntax::ast::Def::record_body] (s: &syntax::ast::Def) -> (r: Option<syntax::ast::RecordBody>) ensures r.is_some();
pub assume_specification [syntax::ast::Defm::parent_class_list] (s: &syntax::ast::Defm) -> (r: Option<syntax::ast::ParentClassList>) ensures r.is_some();
pub assume_specification [syntax::ast::Defset::statement_list] (s: &syntax::ast::Defset) -> (r: Option<syntax::ast::StatementList>) ensures r.is_some();
pub assume_specification [syntax::ast::Foreach::body] (s: &syntax::ast::Foreach) -> (r: Option<syntax::ast::StatementList>) ensures r.is_some();
''')

# ----------------------------------------------------------------------------- bang_operator.rs
# tree-shape assumption: the parser opens a BangOperator node only at a bang-operator token (grammar::value::bang_operator is called from
# simple_value under `kind.is_bang_operator()`), so BangOperator::kind() is a bang kind (or None for a damaged tree)
U.append(BO, '''
pub open spec fn is_bang_kind(k: syntax::syntax_kind::SyntaxKind) -> bool {
    k == syntax::syntax_kind::SyntaxKind::XAdd
    || k == syntax::syntax_kind::SyntaxKind::XAnd
    || k == syntax::syntax_kind::SyntaxKind::XCast
    || k == syntax::syntax_kind::SyntaxKind::XCon
    || k == syntax::syntax_kind::SyntaxKind::XDag
    || k == syntax::syntax_kind::SyntaxKind::XDiv
    || k == syntax::syntax_kind::SyntaxKind::XEmpty
    || k == syntax::syntax_kind::SyntaxKind::XEq
    || k == syntax::syntax_kind::SyntaxKind::XExists
    || k == syntax::syntax_kind::SyntaxKind::XFilter
    || k == syntax::syntax_kind::SyntaxKind::XFind
    || k == syntax::syntax_kind::SyntaxKind::XFoldl
    || k == syntax::syntax_kind::SyntaxKind::XForEach
    || k == syntax::syntax_kind::SyntaxKind::XGe
    || k == syntax::syntax_kind::SyntaxKind::XGetDagArg
    || k == syntax::syntax_kind::SyntaxKind::XGetDagName
    || k == syntax::syntax_kind::SyntaxKind::XGetDagOp
    || k == syntax::syntax_kind::SyntaxKind::XGt
    || k == syntax::syntax_kind::SyntaxKind::XHead
    || k == syntax::syntax_kind::SyntaxKind::XIf
    || k == syntax::syntax_kind::SyntaxKind::XInitialized
    || k == syntax::syntax_kind::SyntaxKind::XInterleave
    || k == syntax::syntax_kind::SyntaxKind::XIsA
    || k == syntax::syntax_kind::SyntaxKind::XLe
    || k == syntax::syntax_kind::SyntaxKind::XListConcat
    || k == syntax::syntax_kind::SyntaxKind::XListFlatten
    || k == syntax::syntax_kind::SyntaxKind::XListRemove
    || k == syntax::syntax_kind::SyntaxKind::XListSplat
    || k == syntax::syntax_kind::SyntaxKind::XLog2
    || k == syntax::syntax_kind::SyntaxKind::XLt
    || k == syntax::syntax_kind::SyntaxKind::XMul
    || k == syntax::syntax_kind::SyntaxKind::XNe
    || k == syntax::syntax_kind::SyntaxKind::XNot
    || k == syntax::syntax_kind::SyntaxKind::XOr
    || k == syntax::syntax_kind::SyntaxKind::XRange
    || k == syntax::syntax_kind::SyntaxKind::XRepr
    || k == syntax::syntax_kind::SyntaxKind::XSetDagArg
    || k == syntax::syntax_kind::SyntaxKind::XSetDagName
    || k == syntax::syntax_kind::SyntaxKind::XSetDagOp
    || k == syntax::syntax_kind::SyntaxKind::XShl
    || k == syntax::syntax_kind::SyntaxKind::XSize
    || k == syntax::syntax_kind::SyntaxKind::XSra
    || k == syntax::syntax_kind::SyntaxKind::XSrl
    || k == syntax::syntax_kind::SyntaxKind::XStrConcat
    || k == syntax::syntax_kind::SyntaxKind::XSub
    || k == syntax::syntax_kind::SyntaxKind::XSubst
    || k == syntax::syntax_kind::SyntaxKind::XSubstr
    || k == syntax::syntax_kind::SyntaxKind::XTail
    || k == syntax::syntax_kind::SyntaxKind::XToLower
    || k == syntax::syntax_kind::SyntaxKind::XToUpper
    || k == syntax::syntax_kind::SyntaxKind::XXor
}
pub assume_specification [syntax::ast::BangOperator::kind] (s: &syntax::ast::BangOperator) -> (r: Option<syntax::syntax_kind::SyntaxKind>)
    ensures r is Some ==> is_bang_kind(r.unwrap());
''')

U.insert_in(BO, 'impl', '<ast::BangOperator as Indexable>', '    open spec fn pre(&self, ctx: &IndexCtx) -> bool { true }')
U.fn(BO, '<ast::BangOperator as Indexable>::index', attrs=['exec_allows_no_decreases_clause'], loops={i: dict(invariant=LOOPINV) for i in range(5)})
for f in ('expect_type_annotation', 'unexpect_type_annotation', 'expect_values', 'index_values', 'index_values_and_check_types'):
    U.fn(BO, f, attrs=['external_body'], **FRAME)
