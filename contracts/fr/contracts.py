"""Unit FR (C18, folding ranges): one folding range per class / def / defset / foreach / if / let / multiclass statement, from the
statement's first token to its last non-trivia token."""
from splice import UnitSpec, C

U = UnitSpec('fr', '/repo/crates/ide/src', None, default_tags='C18')
U.root_text = '''
pub mod db { pub use ide::db::*; }
pub mod file_system { pub use ide::file_system::*; }
pub mod utils { pub use ide::utils::*; }
'''
U.extra_files = [('handlers/folding_range.rs', 'folding_range')]
U.prelude_files = ['/verif/contracts/fr/prelude.rs']
U.extra_uses = 'use vstd::prelude::*;\n#[allow(unused_imports)] use crate::vprelude::*;\n'
U.externs = ['ide', 'syntax', 'rowan', 'salsa']
U.repo_build = ['-p', 'ide']
U.flags = ['--no-trait-conflicts']
U.kind_tags = {}
F = 'handlers/folding_range.rs'
U.fn(F, 'exec',
     lift=[dict(closure=0, name='folding_range_of', sig='(node: SyntaxNode) -> (ret: Option<TextRange>)', replace='folding_range_of',
                requires=[C('node_wf(&node)'), C('is_block_statement(node_kind(&node)) ==> has_token(&node)', name='ASSUMED: a statement node starts with its keyword token (tree shape of the parser)')],
                ensures=[C('ret is Some == is_block_statement(node_kind(&node))', name='exactly the class, def, defset, foreach, if, let and multiclass statements fold'),
                         C('ret matches Some(r) ==> is_trimmed_range(&node, r)', name='a folding range starts at the statement\'s first token and ends at its last non-trivia token')])],
     outline=[dict(move=True, rx=r'root_node\s*\.descendants\(\)\s*\.filter_map\(.*?\)\s*\.map\(\|range\| FoldingRange \{ range \}\)\s*\.collect\(\)', name='o_collect_folding_ranges',
                   sig='(root_node: SyntaxNode) -> Vec<FoldingRange>', call='o_collect_folding_ranges(root_node)',
                   why='rowan descendants() + filter_map/map/collect; ASSUMED: one FoldingRange{range: r} per descendant n with folding_range_of(n) == Some(r), in document order - the filter closure is moved out and verified (R15)')])
