"""Kill matrix for unit FR (C18, folding): in-memory edits of handlers/folding_range.rs (never /repo)."""
F = 'handlers/folding_range.rs'
M = [
 dict(id='R1-if-does-not-fold', file=F, old="            | SyntaxKind::If\n", new="", expect='C18'),
 dict(id='R2-defm-folds-too', file=F, old="            | SyntaxKind::MultiClass => ", new="            | SyntaxKind::MultiClass\n            | SyntaxKind::Defm => ", expect='C18'),
 dict(id='R3-whole-node-range', file=F, old="Some(utils::range_excluding_trivia(&node))", new="Some(node.text_range())", expect='C18'),
]
BENIGN = []
