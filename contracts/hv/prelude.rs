// Unit HV prelude (C19, the doc-comment clause of hover): crates/ide/src/handlers/hover.rs::extract_doc_comments verified as its own
// crate against the real ide / syntax / rowan rlibs.  ASSUMED model of rowan's token API (the one of units UT / FR): the tokens of a
// file form one sequence in source order and `prev_token` walks it.  What a token is, for this property: its kind, the number of
// line feeds in its text, whether its text starts with `//`, and the text left after the leading slashes and blanks are stripped.
pub mod vprelude {
use vstd::prelude::*;
pub use syntax::{SyntaxNode, SyntaxToken, Language};
pub use syntax::parser::{TextRange, TextSize};
pub use syntax::syntax_kind::SyntaxKind;
verus!{
#[verifier::external_type_specification] #[verifier::external_body] pub struct ExTextRange(TextRange);
#[verifier::external_type_specification] #[verifier::external_body] pub struct ExLanguage(Language);
#[verifier::external_type_specification] pub struct ExSyntaxKind(SyntaxKind);
#[verifier::external_type_specification] #[verifier::external_body] #[verifier::reject_recursive_types(L)] pub struct ExSyntaxNode<L: rowan::Language>(rowan::SyntaxNode<L>);
#[verifier::external_type_specification] #[verifier::external_body] #[verifier::reject_recursive_types(L)] pub struct ExSyntaxToken<L: rowan::Language>(rowan::SyntaxToken<L>);
#[verifier::external_trait_specification] pub trait ExLanguage0: Sized + Copy + core::fmt::Debug + Eq + Ord + core::hash::Hash { type ExternalTraitSpecificationFor: rowan::Language; type Kind: Sized + Copy + core::fmt::Debug + Eq + Ord + core::hash::Hash; }
/// a token of the file as the doc-comment rule sees it
pub struct DTok<K> { pub kind: K, pub newlines: nat, pub slashes: bool, pub line: Seq<char> }
/// the tokens of the file a token belongs to, in source order, and the token's index in it
pub uninterp spec fn tok_file_toks<L: rowan::Language>(t: &rowan::SyntaxToken<L>) -> Seq<DTok<<L as rowan::Language>::Kind>>;
pub uninterp spec fn tok_idx<L: rowan::Language>(t: &rowan::SyntaxToken<L>) -> int;
pub open spec fn tok_in<L: rowan::Language>(t: &rowan::SyntaxToken<L>) -> bool { 0 <= tok_idx(t) < tok_file_toks(t).len() }
/// the tokens of the file `root` is the tree of / the index of the first token of the declaration that declares the symbol at `range`
/// (result of the rowan navigation at the head of extract_doc_comments, outlined: not constrained here)
pub uninterp spec fn root_toks<L: rowan::Language>(root: &rowan::SyntaxNode<L>) -> Seq<DTok<<L as rowan::Language>::Kind>>;
pub uninterp spec fn decl_first<L: rowan::Language>(root: &rowan::SyntaxNode<L>, range: TextRange) -> int;

// ---------------------------------------------------------------- the property's rule, written from its statement
/// "a `//` comment line directly above": the token before position `f` is a blank with exactly one line feed and the one before that a line comment starting with `//`
pub open spec fn doc_pair(ts: Seq<DTok<SyntaxKind>>, f: int) -> bool {
    2 <= f <= ts.len() && ts[f - 1].kind == SyntaxKind::Whitespace && ts[f - 1].newlines == 1 && ts[f - 2].kind == SyntaxKind::LineComment && ts[f - 2].slashes
}
/// exactly the contiguous `//` comment lines directly above the token at index `f`, top to bottom
pub open spec fn doc_lines(ts: Seq<DTok<SyntaxKind>>, f: int) -> Seq<Seq<char>> decreases f {
    if doc_pair(ts, f) { doc_lines(ts, f - 2).push(ts[f - 2].line) } else { Seq::empty() }
}
/// the lines joined by "\n"
pub open spec fn join_nl(ls: Seq<Seq<char>>) -> Seq<char> decreases ls.len() {
    if ls.len() == 0 { Seq::empty() } else if ls.len() == 1 { ls[0] } else { join_nl(ls.drop_last()) + seq!['\n'] + ls.last() }
}
pub open spec fn views(v: Seq<String>) -> Seq<Seq<char>> { v.map_values(|s: String| s@) }
/// the gathered lines (pushed bottom to top) read top to bottom
pub open spec fn rev_views(v: Seq<String>) -> Seq<Seq<char>> { views(v).reverse() }
pub proof fn lemma_rev_push(v: Seq<String>, s: String) ensures rev_views(v.push(s)) =~= seq![s@] + rev_views(v) {
    assert(views(v.push(s)) =~= views(v).push(s@));
}

// ---------------------------------------------------------------- ASSUMED: rowan token API
pub assume_specification<L: rowan::Language> [rowan::SyntaxToken::<L>::prev_token] (t: &rowan::SyntaxToken<L>) -> (r: Option<rowan::SyntaxToken<L>>)
    ensures r is Some == (tok_idx(t) > 0), r matches Some(p) ==> tok_file_toks(&p) == tok_file_toks(t) && tok_idx(&p) == tok_idx(t) - 1;
pub assume_specification<L: rowan::Language> [rowan::SyntaxToken::<L>::kind] (t: &rowan::SyntaxToken<L>) -> (k: <L as rowan::Language>::Kind)
    ensures tok_in(t) ==> k == tok_file_toks(t)[tok_idx(t)].kind;
/// derived PartialEq on the field-less enum SyntaxKind is structural
pub assume_specification [<SyntaxKind as core::cmp::PartialEq>::eq] (a: &SyntaxKind, b: &SyntaxKind) -> (r: bool) ensures r == (*a == *b);
}

// ---------------------------------------------------------------- hover::exec: which tree the doc comment is read from (ASSUMED database model)
pub use std::sync::Arc;
pub use ide::file_system::{FileId, FileRange, FilePosition};
pub use ide::index::{Index, IndexDatabase};
verus!{
#[verifier::external_type_specification] pub struct ExFileId(FileId);
#[verifier::external_type_specification] pub struct ExFileRange(FileRange);
#[verifier::external_type_specification] pub struct ExFilePosition(FilePosition);
#[verifier::external_type_specification] #[verifier::external_body] pub struct ExTextSize(TextSize);
#[verifier::external_type_specification] #[verifier::external_body] pub struct ExSymbolMap(ide::symbol_map::SymbolMap);
#[verifier::external_type_specification] #[verifier::external_body] pub struct ExSourceRoot(ide::file_system::SourceRoot);
#[verifier::external_type_specification] #[verifier::external_body] pub struct ExIndex(Index);
#[verifier::external_type_specification] #[verifier::external_body] pub struct ExParse(syntax::Parse);
#[verifier::external_type_specification] #[verifier::external_body] pub struct ExLineIndex(ide::line_index::LineIndex);
#[verifier::external_type_specification] #[verifier::external_body] pub struct ExIncludeId(ide::file_system::IncludeId);
#[verifier::external_type_specification] #[verifier::external_body] pub struct ExIDS(ide::index::IndexDatabaseStorage);
#[verifier::external_type_specification] #[verifier::external_body] pub struct ExSDS(ide::db::SourceDatabaseStorage);
#[verifier::external_trait_specification] pub trait ExQueryGroup: Sized { type ExternalTraitSpecificationFor: salsa::plumbing::QueryGroup; }
#[verifier::external_trait_specification] pub trait ExDatabaseOps { type ExternalTraitSpecificationFor: salsa::plumbing::DatabaseOps; }
#[verifier::external_trait_specification] pub trait ExSalsaDatabase: salsa::plumbing::DatabaseOps { type ExternalTraitSpecificationFor: salsa::Database; }
#[verifier::external_trait_specification] pub trait ExHasQueryGroup<G: salsa::plumbing::QueryGroup>: salsa::Database { type ExternalTraitSpecificationFor: salsa::plumbing::HasQueryGroup<G>; }
/// the tree of a file in this revision / the tree a parse result holds / the symbol map of this revision (functions of the revision; uninterpreted)
pub uninterp spec fn tree_of<D: ?Sized>(db: &D, f: FileId) -> SyntaxNode;
pub uninterp spec fn parse_tree(p: &syntax::Parse) -> SyntaxNode;
pub uninterp spec fn db_sm<D: ?Sized>(db: &D) -> ide::symbol_map::SymbolMap;
pub uninterp spec fn idx_sm(i: &Index) -> ide::symbol_map::SymbolMap;
/// where the symbol found at a position is declared (result of extract_symbol_signature; not constrained here)
pub uninterp spec fn sig_loc(sm: &ide::symbol_map::SymbolMap, pos: FilePosition) -> FileRange;
/// the property's doc text for the declaration at `range` of the tree `root`
pub open spec fn doc_text(root: &SyntaxNode, range: TextRange) -> Seq<char> { join_nl(doc_lines(root_toks(root), decl_first(root, range))) }
#[verifier::external_trait_specification]
pub trait ExSourceDatabase: salsa::Database + salsa::plumbing::HasQueryGroup<ide::db::SourceDatabaseStorage> {
    type ExternalTraitSpecificationFor: ide::db::SourceDatabase;
    fn parse(&self, file_id: FileId) -> (r: syntax::Parse) ensures parse_tree(&r) == tree_of(self, file_id);
}
#[verifier::external_trait_specification]
pub trait ExIndexDatabase: salsa::Database + salsa::plumbing::HasQueryGroup<ide::index::IndexDatabaseStorage> + ide::db::SourceDatabase {
    type ExternalTraitSpecificationFor: ide::index::IndexDatabase;
    fn index(&self) -> (r: Arc<Index>) ensures idx_sm(&*r) == db_sm(self);
}
pub assume_specification [syntax::Parse::syntax_node] (p: &syntax::Parse) -> (n: SyntaxNode) ensures n == parse_tree(p);
pub assume_specification [Index::symbol_map] (i: &Index) -> (r: &ide::symbol_map::SymbolMap) ensures *r == idx_sm(i);
}
}
