"""Unit HV (C19, the doc-comment clause of hover): ide::handlers::hover::extract_doc_comments returns exactly the contiguous `//`
comment lines directly above the declaration."""
from splice import UnitSpec, C

U = UnitSpec('hv', '/repo/crates/ide/src', None, default_tags='C19')
U.root_text = '''
pub mod file_system { pub use ide::file_system::*; }
pub mod index { pub use ide::index::*; }
pub mod symbol_map { pub use ide::symbol_map::*; }
'''
U.extra_files = [('handlers/hover.rs', 'hover')]
U.prelude_files = ['/verif/contracts/hv/prelude.rs']
U.extra_uses = 'use vstd::prelude::*;\n#[allow(unused_imports)] use crate::vprelude::*;\n'
U.externs = ['ide', 'syntax', 'rowan', 'salsa']
U.repo_build = ['-p', 'ide']
U.flags = ['--no-trait-conflicts']
U.scope_listed = True
U.kind_tags = {}
F = 'handlers/hover.rs'
TS = 'root_toks(&root)'
INV = ('tok_file_toks(&cur_token) == ' + TS + ' && 0 <= tok_idx(&cur_token) <= decl_first(&root, range) < ' + TS + '.len()')
U.fn(F, 'extract_doc_comments',
     ensures=[C('decl_first(&root, range) >= 0 ==> (ret matches Some(d) ==> d@ == join_nl(doc_lines(' + TS + ', decl_first(&root, range))))',
                name='the doc text is exactly the contiguous `//` comment lines directly above the declaration, top to bottom, joined by line feeds'),
              C('decl_first(&root, range) >= 0 ==> (ret is None ==> join_nl(doc_lines(' + TS + ', decl_first(&root, range))).len() == 0)',
                name='no doc text only when there is no such line (or the lines are empty)')],
     loops={0: dict(invariant=[INV], invariant_except_break=[
                               C('doc_lines(' + TS + ', decl_first(&root, range)) =~= doc_lines(' + TS + ', tok_idx(&cur_token)) + rev_views(comments@)',
                                 name='the lines gathered so far are the lines between the token reached and the declaration')],
                    ensures=[INV, C('doc_lines(' + TS + ', decl_first(&root, range)) =~= rev_views(comments@)',
                                    name='the walk stops exactly where the contiguous run of `//` lines ends')],
                    decreases='tok_idx(&cur_token)')},
     outline=[dict(rx=r'let id_node = root\.covering_element\(range\);.*?let mut cur_token = parent_node\.first_token\(\)\?;', name='o_decl_first_token',
                   sig='(root: &SyntaxNode, range: TextRange) -> (ret: Option<SyntaxToken>)', call='let mut cur_token = o_decl_first_token(&root, range)?;',
                   wrap=('', ' Some(cur_token)'),
                   ensures=['ret matches Some(t) ==> tok_file_toks(&t) == root_toks(root) && tok_idx(&t) == decl_first(root, range) && tok_in(&t)', 'ret is None ==> decl_first(root, range) < 0'],
                   why='rowan navigation from the identifier to the first token of its declaration (covering_element, parent, into_node); which declaration is reached is not constrained here'),
              dict(rx=r"cur_token\.text\(\)\.matches\('\\n'\)\.count\(\)", name='o_newline_count', sig='(cur_token: &SyntaxToken) -> (ret: usize)', call='o_newline_count(&cur_token)',
                   ensures=['tok_in(cur_token) ==> ret == tok_file_toks(cur_token)[tok_idx(cur_token)].newlines'], why='str::matches(char).count(); ASSUMED: the number of line feeds in the token text'),
              dict(rx=r'let comment = cur_token\.text\(\);\s*if !comment\.starts_with\("//"\) \{\s*break;\s*\}\s*comments\.push\(comment\.trim_start_matches\(\'/\'\)\.trim_start\(\)\.to_string\(\)\);',
                   name='o_doc_line', sig='(cur_token: &SyntaxToken) -> (ret: Option<String>)',
                   call='let comment = match o_doc_line(&cur_token) { Some(c) => c, None => break };\n        proof { lemma_rev_push(comments@, comment); }\n        comments.push(comment);',
                   wrap=('let mut comments = Vec::new(); loop { ', ' return comments.pop(); } None'),
                   ensures=['tok_in(cur_token) ==> (ret is Some == tok_file_toks(cur_token)[tok_idx(cur_token)].slashes)',
                            'tok_in(cur_token) ==> (ret matches Some(s) ==> s@ == tok_file_toks(cur_token)[tok_idx(cur_token)].line)'],
                   why='str::starts_with / trim_start_matches / trim_start; ASSUMED: Some(text without the leading slashes and blanks) iff the token text starts with `//`'),
              dict(rx=r'comments\.into_iter\(\)\.rev\(\)\.collect::<Vec<_>>\(\)\.join\("\\n"\)', name='o_join_reversed', sig='(comments: Vec<String>) -> (ret: String)', call='o_join_reversed(comments)',
                   ensures=['ret@ == join_nl(rev_views(comments@))'], why='into_iter().rev().collect().join("\\n"); ASSUMED: the strings in reverse order joined by line feeds')])

# hover::exec: the doc comment is read from the parse of the file the DECLARATION lies in (define_loc.file), at the declaration's range
LOC = 'sig_loc(&db_sm(db), pos)'
TREE = 'tree_of(db, ' + LOC + '.file)'
U.fn(F, 'extract_symbol_signature', attrs=['external_body'],
     ensures=['ret matches Some(x) ==> x.1 == sig_loc(symbol_map, pos)'])
U.fn(F, 'exec',
     ensures=[C('ret matches Some(h) ==> decl_first(&' + TREE + ', ' + LOC + '.range) >= 0 ==> (h.document matches Some(d) ==> d@ == doc_text(&' + TREE + ', ' + LOC + '.range))',
                name='the doc text shown is the one above the declaration, read from the tree of the file the declaration lies in'),
              C('ret matches Some(h) ==> decl_first(&' + TREE + ', ' + LOC + '.range) >= 0 ==> (h.document is None ==> doc_text(&' + TREE + ', ' + LOC + '.range).len() == 0)',
                name='no doc text only when the declaration has none')])
