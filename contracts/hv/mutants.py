"""Kill matrix for unit HV (C19, doc-comment clause of hover): in-memory edits of handlers/hover.rs (never /repo)."""
F = 'handlers/hover.rs'
M = [
 dict(id='V1-blank-line-tolerated', file=F, old="cur_token.text().matches('\\n').count() != 1", new="cur_token.text().matches('\\n').count() < 1", expect='C19'),
 dict(id='V2-block-comment-accepted', file=F, old="if cur_token.kind() != SyntaxKind::LineComment {", new="if cur_token.kind() != SyntaxKind::LineComment && cur_token.kind() != SyntaxKind::BlockComment {", expect='C19'),
 dict(id='V3-whitespace-kind-not-checked', file=F, old="if cur_token.kind() != SyntaxKind::Whitespace || cur_token", new="if cur_token", expect='C19'),
 dict(id='V4-skips-first-line', file=F, old="    let mut comments = Vec::new();\n    loop {", new="    let mut comments = Vec::new();\n    cur_token = cur_token.prev_token()?;\n    loop {", expect='C19'),
 dict(id='V6-doc-from-hovering-file', file=F, old="let parse = db.parse(define_loc.file);", new="let parse = db.parse(pos.file);", expect='C19'),
]
BENIGN = [
 dict(id='V5-let-else', file=F, old="        cur_token = match cur_token.prev_token() {\n            Some(t) => t,\n            None => break,\n        };\n        if cur_token.kind() != SyntaxKind::LineComment", new="        let Some(t2) = cur_token.prev_token() else { break };\n        cur_token = t2;\n        if cur_token.kind() != SyntaxKind::LineComment"),
]
