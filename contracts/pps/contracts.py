"""Unit PPS (C15): semantic contract of the real PreProcessor<T> for an ARBITRARY inner token stream T whose
contract exposes its token sequence as ghost state, against the reference evaluator of spec.rs."""
from splice import UnitSpec, C

U = UnitSpec('pps', '/repo/crates/syntax/src', None, default_tags='C15')
U.root_text = ''
U.extra_files = [('token_kind.rs', 'token_kind'), ('token_stream.rs', 'token_stream'), ('preprocessor.rs', 'preprocessor')]
U.prelude_files = ['/verif/contracts/pps/prelude.rs', '/verif/contracts/pps/spec.rs']
U.reveal_strlits = True
U.externs = ['ecow']
U.flags = []
U.kind_tags = {}

# ----------------------------------------------------------------------------- token_kind.rs
U.prepend('token_kind.rs', 'pub assume_specification [<TokenKind as core::cmp::PartialEq>::eq] (a: &TokenKind, b: &TokenKind) -> (r: bool) ensures r == (*a == *b);')
U.fn('token_kind.rs', 'TokenKind::is_trivia', ensures=['ret == crate::ppspec::is_triv(*self)'])
U.fn('token_kind.rs', 'TokenKind::is_bang_operator')
U.fn('token_kind.rs', 'TokenKind::is_cond_operator')

# ----------------------------------------------------------------------------- token_stream.rs
U.prepend('token_stream.rs', 'use crate::ppspec::*;')
U.insert_in('token_stream.rs', 'trait', 'TokenStream', '''
    /// ASSUMED shape of the inner stream (any deterministic lexer): it delivers the kinds of a fixed token
    /// sequence `toks` (all non-Eof), then Eof forever; `idx` tokens have been delivered; token j starts at
    /// byte offset offs(j) and text(offs(j)..offs(j+1)) is its text
    spec fn swf(&self) -> bool;
    spec fn toks(&self) -> Seq<Tk>;
    spec fn idx(&self) -> nat;
    spec fn offs(&self) -> spec_fn(nat) -> nat;
    proof fn lemma_swf(&self) requires self.swf()
        ensures self.idx() <= self.toks().len(),
            forall|j: int| 0 <= j < self.toks().len() ==> (#[trigger] self.toks()[j]).kind != TokenKind::Eof,
            forall|j: nat| j < self.toks().len() ==> (self.offs())(j) < #[trigger] (self.offs())(j + 1),
            forall|j: nat| j < self.toks().len() && (self.toks()[j as int].kind == TokenKind::Ifdef || self.toks()[j as int].kind == TokenKind::Ifndef)
                ==> (self.offs())(j) + 6 <= #[trigger] (self.offs())(j + 1),
            (self.offs())(self.toks().len()) <= u32::MAX;
''')
FRAME = ['final(self).swf()', 'final(self).toks() == old(self).toks()', 'final(self).offs() == old(self).offs()']
U.fn('token_stream.rs', 'TokenStream::eat', requires=['old(self).swf()'],
     ensures=FRAME + ['old(self).idx() < old(self).toks().len() ==> ret == old(self).toks()[old(self).idx() as int].kind && final(self).idx() == old(self).idx() + 1',
                      'old(self).idx() >= old(self).toks().len() ==> ret == TokenKind::Eof && final(self).idx() == old(self).idx()'])
U.fn('token_stream.rs', 'TokenStream::cursor', requires=['self.swf()'], ensures=['ret == (self.offs())(self.idx())'])
U.fn('token_stream.rs', 'TokenStream::text', requires=['self.swf()'],
     ensures=['forall|j: nat| j < self.toks().len() && range.start == (self.offs())(j) && range.end == #[trigger] (self.offs())(j + 1) ==> ret@ == self.toks()[j as int].name'])
U.fn('token_stream.rs', 'TokenStream::take_error', requires=['old(self).swf()'], ensures=FRAME + ['final(self).idx() == old(self).idx()'])

# ----------------------------------------------------------------------------- preprocessor.rs
P = 'preprocessor.rs'
U.prepend(P, 'use crate::ppspec::*;\nbroadcast use {ax_msg_str, ax_eco_key_model, ax_eco_borrowed, ax_eco_ext, axiom_random_state_builds_valid_hashers};')
U.drop_item(P, 'impl', r'<PreProcessor as TokenStream>', 'R9',
            'PreProcessor-as-TokenStream (eat/cursor/text/take_error delegations) is verified in unit SYN; this unit is about next_token')
U.append(P, '''

impl<T: TokenStream> PreProcessor<T> {
    pub closed spec fn pinner(&self) -> T { self.token_stream }
    pub closed spec fn pwf(&self) -> bool { self.token_stream.swf() }
    pub closed spec fn ptoks(&self) -> Seq<Tk> { self.token_stream.toks() }
    pub closed spec fn pi(&self) -> nat { self.token_stream.idx() }
    pub closed spec fn poffs(&self) -> spec_fn(nat) -> nat { self.token_stream.offs() }
    pub closed spec fn pdef(&self, n: Seq<char>) -> bool { defined(&self.macros, n) }
    pub closed spec fn popen(&self) -> nat { self.open_conditionals as nat }
    pub closed spec fn perr(&self) -> bool { self.error.is_some() }
    /// frame of every helper: same token sequence, stream still well-formed
    pub open spec fn same_in(&self, o: &Self) -> bool { self.pwf() && self.ptoks() == o.ptoks() && self.poffs() == o.poffs() }
    pub open spec fn same_defs(&self, o: &Self) -> bool { forall|n: Seq<char>| #![trigger self.pdef(n)] #![trigger o.pdef(n)] self.pdef(n) == o.pdef(n) }
    /// the real state simulates the reference state s (only enabled text is ever reached by the real code)
    pub open spec fn rel(&self, s: RState) -> bool {
        self.pi() == s.i && (forall|n: Seq<char>| #![trigger self.pdef(n)] #![trigger s.defs.contains(n)] self.pdef(n) == s.defs.contains(n)) && self.popen() == s.stack.len()
        && (forall|k: int| 0 <= k < s.stack.len() ==> (#[trigger] s.stack[k]).taken)
    }
    /// rel(s) one token later: the directive token at s.i has just been consumed from the inner stream
    pub open spec fn rel_after(&self, s: RState) -> bool {
        s.i < self.ptoks().len() && self.pi() == s.i + 1
        && (forall|n: Seq<char>| #![trigger self.pdef(n)] #![trigger s.defs.contains(n)] self.pdef(n) == s.defs.contains(n)) && self.popen() == s.stack.len()
        && (forall|k: int| 0 <= k < s.stack.len() ==> (#[trigger] s.stack[k]).taken)
    }
    /// the result `ret` and the final state agree with the reference step from s
    pub open spec fn step_ok(&self, s: RState, ret: TokenKind, toks: Seq<Tk>) -> bool {
        let r = ref_next(toks, s);
        item_matches(ret, r.0) && (r.0 is Err ==> self.perr()) && (!(r.0 is Malformed) ==> self.rel(r.1))
    }
    /// outcome of skipping a disabled region, against the reference's run_off result r
    pub open spec fn off_result(&self, ret: TokenKind, r: (Item, nat, Option<Frame>), open_before: nat) -> bool {
        match r.0 {
            Item::Directive => ret == TokenKind::PreProcessor && self.pi() == r.1
                && self.popen() == (if r.2 is Some { open_before } else if open_before >= 1 { (open_before - 1) as nat } else { 0nat }),
            Item::Err => ret == TokenKind::Error && self.perr() && self.pi() == r.1 && self.popen() == 0,
            _ => true,
        }
    }
}
''')
U.fn(P, 'PreProcessor::new', requires=['token_stream.swf()'],
     ensures=['ret.pwf()', 'ret.ptoks() == token_stream.toks()', 'ret.pi() == token_stream.idx()', 'ret.popen() == 0', 'forall|n: Seq<char>| !ret.pdef(n)'])
U.fn(P, 'PreProcessor::define_macro',
     ensures=['final(self).pinner() == old(self).pinner()', 'final(self).popen() == old(self).popen()', 'final(self).perr() == old(self).perr()',
              C('forall|n: Seq<char>| final(self).pdef(n) == (old(self).pdef(n) || n == eco_view(&macro_name))', name='a #define adds exactly its name')],
     prologue='proof { assert forall|n: Seq<char>| defined(&self.macros, n) || n == eco_view(&macro_name) implies (exists|e: EcoString| self.macros@.insert(macro_name).contains(e) && eco_view(&e) == n) by { if n == eco_view(&macro_name) { assert(self.macros@.insert(macro_name).contains(macro_name)); } else { let e = choose|e: EcoString| self.macros@.contains(e) && eco_view(&e) == n; assert(self.macros@.insert(macro_name).contains(e)); } } }')
U.fn(P, 'PreProcessor::macros')
U.fn(P, 'PreProcessor::error',
     ensures=['ret == TokenKind::Error', 'final(self).perr()', 'final(self).pinner() == old(self).pinner()', 'final(self).popen() == old(self).popen()',
              'final(self).same_defs(old(self))'])
NT = "first_nt(old(self).ptoks(), old(self).pi())"
U.fn(P, 'PreProcessor::next_not_trivia', requires=['old(self).pwf()'],
     ensures=['final(self).same_in(old(self))', 'final(self).same_defs(old(self))', 'final(self).popen() == old(self).popen()', 'final(self).perr() == old(self).perr()',
              C('ret.0 == (old(self).poffs())(%s)' % NT, name='start offset of the first non-trivia token'),
              C('%s < old(self).ptoks().len() ==> ret.1 == old(self).ptoks()[%s as int].kind && final(self).pi() == %s + 1' % (NT, NT, NT)),
              C('%s >= old(self).ptoks().len() ==> ret.1 == TokenKind::Eof && final(self).pi() == old(self).ptoks().len()' % NT)],
     loops={0: dict(invariant=['self.same_in(old(self))', 'self.same_defs(old(self))', 'self.popen() == old(self).popen()', 'self.perr() == old(self).perr()',
                               'self.pi() <= self.ptoks().len()',
                               'first_nt(self.ptoks(), old(self).pi()) == first_nt(self.ptoks(), self.pi())'],
                    decreases='self.ptoks().len() - self.pi()',
                    body_prologue='proof { self.token_stream.lemma_swf(); }')},
     prologue='proof { self.token_stream.lemma_swf(); }')
NA = 'name_after(old(self).ptoks(), old(self).pi())'
U.fn(P, 'PreProcessor::process_define', requires=['old(self).pwf()'],
     ensures=['final(self).same_in(old(self))', 'final(self).popen() == old(self).popen()',
              C('match %s.0 { Some(j) => ret == TokenKind::PreProcessor && final(self).pi() == %s.1 && (forall|n: Seq<char>| final(self).pdef(n) == (old(self).pdef(n) || n == old(self).ptoks()[j as int].name)),'
                ' None => ret == TokenKind::Error && final(self).perr() && final(self).pi() == %s.1 && final(self).same_defs(old(self)) }' % (NA, NA, NA),
                name='#define NAME defines NAME; without a name it is an error'),
              C('forall|s: RState| #![trigger final(self).step_ok(s, ret, old(self).ptoks())] old(self).rel_after(s) && (old(self).ptoks()[s.i as int].kind == TokenKind::Define) ==> final(self).step_ok(s, ret, old(self).ptoks())', name='reference step')],
     prologue='proof { self.token_stream.lemma_swf(); }',
     body_proofs=[(r'self\.define_macro\(', 'proof { ax_into_eco(macro_name); }')])
U.fn(P, 'PreProcessor::process_if', requires=['old(self).pwf()', 'old(self).popen() < usize::MAX'],
     ensures=['final(self).same_in(old(self))', 'final(self).same_defs(old(self))',
              C('match %s.0 { None => ret == TokenKind::Error && final(self).perr() && final(self).pi() == %s.1 && final(self).popen() == old(self).popen(),'
                ' Some(j) => { let cond = old(self).pdef(old(self).ptoks()[j as int].name) == (if_kind is Defined);'
                ' if cond { ret == TokenKind::PreProcessor && final(self).pi() == %s.1 && final(self).popen() == old(self).popen() + 1 }'
                ' else { final(self).off_result(ret, run_off(old(self).ptoks(), %s.1, 0, Frame { taken: false, seen_else: false }), old(self).popen() + 1) } } }' % (NA, NA, NA, NA),
                name='#ifdef/#ifndef: enabled branch continues, disabled branch is skipped exactly as the reference skips it'),
              C('forall|s: RState| #![trigger final(self).step_ok(s, ret, old(self).ptoks())] old(self).rel_after(s) && (old(self).ptoks()[s.i as int].kind == (if if_kind is Defined { TokenKind::Ifdef } else { TokenKind::Ifndef })) ==> final(self).step_ok(s, ret, old(self).ptoks())', name='reference step')],
     prologue='proof { self.token_stream.lemma_swf(); lemma_run_off_shape_all(self.ptoks()); }',
     body_proofs=[(r'(?:return\s+)?self\.eat_until_else_or_endif\(\)', 'proof { let f0 = Frame { taken: false, seen_else: false }; assert(run_off(self.ptoks(), self.pi(), 0, f0) == run_off(self.ptoks(), self.pi(), 0, f0)); }')])
U.fn(P, 'PreProcessor::process_else', requires=['old(self).pwf()'], prologue='proof { lemma_run_off_shape_all(self.ptoks()); }',
     ensures=['final(self).same_in(old(self))', 'final(self).same_defs(old(self))',
              C('old(self).popen() >= 1 ==> final(self).off_result(ret, run_off(old(self).ptoks(), old(self).pi(), 0, Frame { taken: true, seen_else: true }), old(self).popen())',
                name='#else of an enabled branch skips to the matching #endif (a stray #else, with no conditional open, is malformed input: outside the property)'),
              C('forall|s: RState| #![trigger final(self).step_ok(s, ret, old(self).ptoks())] old(self).rel_after(s) && (old(self).ptoks()[s.i as int].kind == TokenKind::Else) ==> final(self).step_ok(s, ret, old(self).ptoks())', name='reference step')])
U.fn(P, 'PreProcessor::process_endif', requires=['old(self).pwf()'],
     ensures=['final(self).same_in(old(self))', 'final(self).same_defs(old(self))', 'final(self).pi() == old(self).pi()', 'ret == TokenKind::PreProcessor',
              'final(self).perr() == old(self).perr()',
              'final(self).popen() == (if old(self).popen() >= 1 { (old(self).popen() - 1) as nat } else { 0nat })',
              C('forall|s: RState| #![trigger final(self).step_ok(s, ret, old(self).ptoks())] old(self).rel_after(s) && (old(self).ptoks()[s.i as int].kind == TokenKind::Endif) ==> final(self).step_ok(s, ret, old(self).ptoks())', name='reference step')])
U.fn(P, 'PreProcessor::process_eof', requires=['old(self).pwf()'],
     ensures=['final(self).same_in(old(self))', 'final(self).same_defs(old(self))', 'final(self).pi() == old(self).pi()',
              C('old(self).popen() > 0 ==> ret == TokenKind::Error && final(self).perr() && final(self).popen() == 0', name='a conditional left open at end of input is an error'),
              'old(self).popen() == 0 ==> ret == TokenKind::Eof && final(self).popen() == 0',
              C('forall|s: RState| #![trigger final(self).step_ok(s, ret, old(self).ptoks())] old(self).rel(s) && s.i >= old(self).ptoks().len() ==> final(self).step_ok(s, ret, old(self).ptoks())', name='reference step at end of input')])
RO = 'run_off(old(self).ptoks(), old(self).pi(), 0, f)'
U.fn(P, 'PreProcessor::eat_until_else_or_endif', requires=['old(self).pwf()'],
     ensures=['final(self).same_in(old(self))', 'final(self).same_defs(old(self))',
              C('old(self).popen() >= 1 ==> forall|f: Frame| f.taken == f.seen_else ==> final(self).off_result(ret, #[trigger] %s, old(self).popen())' % RO,
                name='the depth-counting skip ends where the reference leaves the disabled region (inside an open conditional; a stray #else is malformed input)')],
     loops={0: dict(invariant=['self.same_in(old(self))', 'self.same_defs(old(self))', C('self.popen() == old(self).popen()', name='skipping disabled text does not open or close conditionals of the enabled text'), 'depth as int >= 1',
                               'self.pi() <= self.ptoks().len()', 'old(self).pi() <= self.pi()',
                               '6 * (depth as int - 1) <= (self.poffs())(self.pi()) - (self.poffs())(old(self).pi())',
                               C('forall|f: Frame| f.taken == f.seen_else ==> #[trigger] run_off(self.ptoks(), old(self).pi(), 0, f) == run_off(self.ptoks(), self.pi(), (depth - 1) as nat, f)', name='the depth counter mirrors the nesting of the disabled text')],
                    decreases='self.ptoks().len() - self.pi()',
                    body_prologue='proof { self.token_stream.lemma_swf(); lemma_offs_mono(self.poffs(), self.ptoks().len(), self.pi(), self.ptoks().len()); lemma_offs_mono(self.poffs(), self.ptoks().len(), old(self).pi(), self.pi()); }')},
     prologue='proof { self.token_stream.lemma_swf(); }')
U.fn(P, 'PreProcessor::next_token', requires=['old(self).pwf()', 'old(self).popen() < usize::MAX'],
     ensures=['final(self).same_in(old(self))',
              C('forall|s: RState| #![trigger ref_next(old(self).ptoks(), s)] old(self).rel(s) ==> final(self).step_ok(s, ret, old(self).ptoks())',
                name='C15: every step delivers exactly the item the reference evaluation selects, and the states stay related')],
     prologue='proof { self.token_stream.lemma_swf(); }')
