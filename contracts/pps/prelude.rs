// Unit PPS prelude (C15): assumed contracts for ecow / HashSet<EcoString> as used by preprocessor.rs
pub mod prelude {
use vstd::prelude::*;
pub use vstd::string::*;
pub use vstd::std_specs::convert::*;
pub use vstd::std_specs::hash::*;
pub use std::collections::HashSet;
pub use ecow::EcoString;
verus!{
#[verifier::external_type_specification] #[verifier::external_body] pub struct ExEcoString(EcoString);
pub uninterp spec fn eco_view(e: &EcoString) -> Seq<char>;
pub uninterp spec fn msg_text<M>(m: M) -> Seq<char>;
pub broadcast axiom fn ax_msg_str(m: &str) ensures #[trigger] msg_text::<&str>(m) == m@;
/// A-into: Into<EcoString> conversions obey vstd's IntoSpec and keep the text
pub axiom fn ax_into_eco<M: Into<EcoString>>(m: M)
    ensures <M as IntoSpec<EcoString>>::obeys_into_spec(),
        eco_view(&<M as IntoSpec<EcoString>>::into_spec(m)) == msg_text(m);
/// A-hash: EcoString obeys vstd's key model (Eq/Hash agree with the text); a borrowed &str key is contained
/// iff some member has that text; two EcoStrings with the same text are the same key
pub broadcast axiom fn ax_eco_key_model() ensures #[trigger] obeys_key_model::<EcoString>();
pub broadcast axiom fn ax_eco_borrowed(s: Set<EcoString>, k: &str)
    ensures #[trigger] set_contains_borrowed_key::<EcoString, str>(s, k) == (exists|e: EcoString| s.contains(e) && eco_view(&e) == k@);
pub broadcast axiom fn ax_eco_ext(a: EcoString, b: EcoString)
    ensures #![trigger eco_view(&a), eco_view(&b)] (eco_view(&a) == eco_view(&b)) == (a == b);
pub open spec fn defined(h: &HashSet<EcoString>, n: Seq<char>) -> bool { exists|e: EcoString| h@.contains(e) && eco_view(&e) == n }
pub assume_specification<Idx: Clone> [<core::ops::Range<Idx> as Clone>::clone] (r: &core::ops::Range<Idx>) -> (c: core::ops::Range<Idx>) ensures c == *r;
}
}
