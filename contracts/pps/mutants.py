"""Kill matrix for unit PPS (C15): in-memory edits of preprocessor.rs (never /repo)."""
F = 'preprocessor.rs'
M = [
 dict(id='S1-ifdef-ifndef-swapped', file=F, old="if let (IfKind::Defined, false) | (IfKind::NotDefined, true) =", new="if let (IfKind::Defined, true) | (IfKind::NotDefined, false) =", expect='C15'),
 dict(id='S2-ifndef-never-skips', file=F, old="if let (IfKind::Defined, false) | (IfKind::NotDefined, true) =", new="if let (IfKind::Defined, false) | (IfKind::Defined, false) =", expect='C15'),
 dict(id='S3-nested-else-ends-skip', file=F, old="T![#else] if depth == 1 => {", new="T![#else] => {", expect='C15'),
 dict(id='S4-nested-endif-ends-skip', file=F, old="T![#endif] if depth >= 2 => {\n                    depth -= 1;\n                }", new="T![#endif] if depth >= 3 => {\n                    depth -= 1;\n                }", expect='C15'),
 dict(id='S5-nested-if-not-counted', file=F, old="T![#ifdef] | T![#ifndef] => {\n                    depth += 1;", new="T![#ifdef] => {\n                    depth += 1;", expect='C15'),
 dict(id='S6-define-in-skip', file=F, old="T![#else] if depth == 1 => {\n                    return TokenKind::PreProcessor;", new="T![#else] if depth == 1 => {\n                    self.define_macro(\"X\".into());\n                    return TokenKind::PreProcessor;", expect='C15'),
 dict(id='S7-unterminated-silent', file=F, old="        if self.open_conditionals > 0 {\n            self.open_conditionals = 0;\n            self.error(\"reached EOF without matching #endif\")\n        } else {\n            TokenKind::Eof\n        }", new="        TokenKind::Eof", expect='C15'),
 dict(id='S8-else-of-taken-branch-continues', file=F, old="    fn process_else(&mut self) -> TokenKind {\n        self.eat_until_else_or_endif()", new="    fn process_else(&mut self) -> TokenKind {\n        TokenKind::PreProcessor", expect='C15'),
 dict(id='S9-endif-not-counted', file=F, old="                T![#endif] if depth == 1 => {\n                    self.open_conditionals = self.open_conditionals.saturating_sub(1);", new="                T![#endif] if depth == 1 => {", expect='C15'),
 dict(id='S10-define-without-name-silent', file=F, old="_ => self.error(\"expected macro name after #define\"),", new="_ => TokenKind::PreProcessor,", expect='C15'),
 dict(id='S11-if-not-counted', file=F, old="                self.open_conditionals += 1;\n", new="", expect='C15'),
]
BENIGN = [
 dict(id='B1-depth-check-reordered', file=F, old="T![#endif] if depth >= 2 => {", new="T![#endif] if depth > 1 => {"),
 dict(id='B2-message-text', file=F, old='IfKind::Defined => self.error("expected macro name after #ifdef"),', new='IfKind::Defined => self.error("macro name expected after #ifdef"),'),
]
