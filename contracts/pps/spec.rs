// C15 reference: evaluation of #define / #ifdef / #ifndef / #else / #endif over a flat token list,
// written from the property statement: a conditional opens a frame; a token is delivered iff every open
// frame's current branch is enabled; a macro is defined only by a #define that is itself delivered;
// text in a disabled branch produces nothing (no declarations, no diagnostics); a conditional still open
// at end of input, or a directive without its macro name, is an error.  Nothing here mentions preprocessor.rs.
pub mod ppspec {
use vstd::prelude::*;
use crate::token_kind::TokenKind;
verus!{
pub struct Tk { pub kind: TokenKind, pub name: Seq<char> }
/// an open conditional whose current branch is enabled, or the outermost frame of a disabled region
pub struct Frame { pub taken: bool, pub seen_else: bool }
pub struct RState { pub i: nat, pub stack: Seq<Frame>, pub defs: Set<Seq<char>> }
pub enum Item { Tok(TokenKind), Directive, Eof, Err, Malformed }

pub open spec fn is_triv(k: TokenKind) -> bool {
    k == TokenKind::Whitespace || k == TokenKind::LineComment || k == TokenKind::BlockComment || k == TokenKind::PreProcessor
}
/// index of the first non-trivia token at or after i (len if none)
pub open spec fn first_nt(toks: Seq<Tk>, i: nat) -> nat
    decreases toks.len() - i
{
    if i >= toks.len() { toks.len() } else if is_triv(toks[i as int].kind) { first_nt(toks, i + 1) } else { i }
}
/// the macro name of a directive whose own token is at i-1: (index of the Id token, or None) and the index after it
pub open spec fn name_after(toks: Seq<Tk>, i: nat) -> (Option<nat>, nat) {
    let j = first_nt(toks, i);
    if j >= toks.len() { (None, toks.len()) } else if toks[j as int].kind == TokenKind::Id { (Some(j), j + 1) } else { (None, j + 1) }
}
/// disabled text from token i, inside `nest` conditionals that were opened within the disabled region, under the frame
/// `f` whose current branch is disabled.  Ends when a branch of f becomes enabled (its #else, if no branch was taken yet)
/// or f is closed by its #endif; end of input is the unterminated-conditional error.
pub open spec fn run_off(toks: Seq<Tk>, i: nat, nest: nat, f: Frame) -> (Item, nat, Option<Frame>)
    decreases toks.len() - i
{
    if i >= toks.len() { (Item::Err, i, None) } else {
        let k = toks[i as int].kind;
        if k == TokenKind::Ifdef || k == TokenKind::Ifndef { run_off(toks, i + 1, nest + 1, f) }
        else if k == TokenKind::Endif { if nest > 0 { run_off(toks, i + 1, (nest - 1) as nat, f) } else { (Item::Directive, i + 1, None) } }
        else if k == TokenKind::Else && nest == 0 {
            if f.seen_else { (Item::Malformed, i + 1, Some(f)) }
            else if !f.taken { (Item::Directive, i + 1, Some(Frame { taken: true, seen_else: true })) }
            else { run_off(toks, i + 1, 0, Frame { seen_else: true, ..f }) }
        }
        else { run_off(toks, i + 1, nest, f) }
    }
}
/// shape of run_off's result (by induction): it is Directive, Err or Malformed; a frame handed back on Directive has a taken branch
pub proof fn lemma_run_off_shape(toks: Seq<Tk>, i: nat, nest: nat, f: Frame)
    ensures ({ let r = run_off(toks, i, nest, f);
        (r.0 is Directive || r.0 is Err || r.0 is Malformed) && (r.0 is Directive && r.2 is Some ==> r.2.unwrap().taken) && (i <= toks.len() ==> i <= r.1 <= toks.len()) })
    decreases toks.len() - i
{
    if i < toks.len() {
        let k = toks[i as int].kind;
        if k == TokenKind::Ifdef || k == TokenKind::Ifndef { lemma_run_off_shape(toks, i + 1, nest + 1, f); }
        else if k == TokenKind::Endif { if nest > 0 { lemma_run_off_shape(toks, i + 1, (nest - 1) as nat, f); } }
        else if k == TokenKind::Else && nest == 0 { if !f.seen_else && f.taken { lemma_run_off_shape(toks, i + 1, 0, Frame { seen_else: true, ..f }); } }
        else { lemma_run_off_shape(toks, i + 1, nest, f); }
    }
}
pub proof fn lemma_run_off_shape_all(toks: Seq<Tk>)
    ensures forall|i: nat, nest: nat, f: Frame| ({ let r = #[trigger] run_off(toks, i, nest, f);
        (r.0 is Directive || r.0 is Err || r.0 is Malformed) && (r.0 is Directive && r.2 is Some ==> r.2.unwrap().taken) && (i <= toks.len() ==> i <= r.1 <= toks.len()) })
{
    assert forall|i: nat, nest: nat, f: Frame| ({ let r = #[trigger] run_off(toks, i, nest, f);
        (r.0 is Directive || r.0 is Err || r.0 is Malformed) && (r.0 is Directive && r.2 is Some ==> r.2.unwrap().taken) && (i <= toks.len() ==> i <= r.1 <= toks.len()) }) by {
        lemma_run_off_shape(toks, i, nest, f);
    }
}
pub open spec fn after_off(s: RState, r: (Item, nat, Option<Frame>)) -> (Item, RState) {
    match r.0 {
        Item::Err => (Item::Err, RState { i: r.1, stack: Seq::empty(), ..s }),
        _ => (r.0, RState { i: r.1, stack: match r.2 { Some(f) => s.stack.push(f), None => s.stack }, ..s }),
    }
}
/// one step of the reference in enabled text: the next item delivered to the parser
pub open spec fn ref_next(toks: Seq<Tk>, s: RState) -> (Item, RState) {
    if s.i >= toks.len() {
        if s.stack.len() > 0 { (Item::Err, RState { stack: Seq::empty(), ..s }) } else { (Item::Eof, s) }
    } else {
        let k = toks[s.i as int].kind;
        if k == TokenKind::Define {
            match name_after(toks, s.i + 1) {
                (Some(j), nx) => (Item::Directive, RState { i: nx, defs: s.defs.insert(toks[j as int].name), ..s }),
                (None, nx) => (Item::Err, RState { i: nx, ..s }),
            }
        } else if k == TokenKind::Ifdef || k == TokenKind::Ifndef {
            match name_after(toks, s.i + 1) {
                (None, nx) => (Item::Err, RState { i: nx, ..s }),
                (Some(j), nx) => {
                    let cond = s.defs.contains(toks[j as int].name) == (k == TokenKind::Ifdef);
                    if cond { (Item::Directive, RState { i: nx, stack: s.stack.push(Frame { taken: true, seen_else: false }), ..s }) }
                    else { after_off(s, run_off(toks, nx, 0, Frame { taken: false, seen_else: false })) }
                }
            }
        } else if k == TokenKind::Else {
            if s.stack.len() == 0 || s.stack.last().seen_else { (Item::Malformed, s) }
            else { after_off(RState { stack: s.stack.drop_last(), ..s }, run_off(toks, s.i + 1, 0, Frame { taken: true, seen_else: true })) }
        } else if k == TokenKind::Endif {
            if s.stack.len() == 0 { (Item::Malformed, s) } else { (Item::Directive, RState { i: s.i + 1, stack: s.stack.drop_last(), ..s }) }
        } else { (Item::Tok(k), RState { i: s.i + 1, ..s }) }
    }
}
/// offsets that strictly increase step by step increase overall
pub proof fn lemma_offs_mono(offs: spec_fn(nat) -> nat, len: nat, a: nat, b: nat)
    requires a <= b <= len, forall|j: nat| j < len ==> offs(j) < #[trigger] offs(j + 1)
    ensures offs(a) <= offs(b)
    decreases b - a
{
    if a < b { lemma_offs_mono(offs, len, a, (b - 1) as nat); assert(offs((b - 1) as nat) < offs(((b - 1) as nat) + 1)); }
}
/// what the preprocessor returned for an item
pub open spec fn item_matches(ret: TokenKind, it: Item) -> bool {
    match it {
        Item::Tok(k) => ret == k,
        Item::Directive => ret == TokenKind::PreProcessor,
        Item::Eof => ret == TokenKind::Eof,
        Item::Err => ret == TokenKind::Error,
        Item::Malformed => true,
    }
}
/// the sequence of items the reference delivers from state s (n steps), stopping at Malformed
pub open spec fn ref_items(toks: Seq<Tk>, s: RState, n: nat) -> Seq<Item>
    decreases n
{
    if n == 0 { Seq::empty() } else {
        let (it, s2) = ref_next(toks, s);
        if it is Malformed { seq![it] } else { seq![it] + ref_items(toks, s2, (n - 1) as nat) }
    }
}
}
}
