"""Unit DL (C16, document links): a link exists for an include statement iff the statement is recorded in the file's resolved include
map, and it points to the recorded file."""
from splice import UnitSpec, C

U = UnitSpec('dl', '/repo/crates/ide/src', None, default_tags='C16')
U.root_text = '''
pub mod db { pub use ide::db::*; }
pub mod file_system { pub use ide::file_system::*; }
pub mod index { pub use ide::index::*; }
pub mod utils { pub use ide::utils::*; }
'''
U.extra_files = [('handlers/document_link.rs', 'document_link')]
U.prelude_files = ['/verif/contracts/dl/prelude.rs']
U.extra_uses = 'use vstd::prelude::*;\n#[allow(unused_imports)] use crate::vprelude::*;\n'
U.externs = ['ide', 'syntax', 'rowan', 'salsa']
U.repo_build = ['-p', 'ide']
U.flags = ['--no-trait-conflicts']
U.kind_tags = {}
F = 'handlers/document_link.rs'
U.prepend(F, 'broadcast use {ax_includeid_key_model, axiom_random_state_builds_valid_hashers};')
U.fn(F, 'exec',
     lift=[dict(closure=0, name='document_link_of', sig='(@CAPTURES@node: SyntaxNode) -> (ret: Option<DocumentLink>)', replace='|node| document_link_of(@CAPTURES@node)',
                captures=[('include_map', '&HashMap<IncludeId, FileId>', '&include_map'), ('file_id', 'FileId', 'file_id')],
                requires=[C('forall|i: ast::Include, s: ast::String| as_include(&node) == Some(i) && include_path_node(&i) == Some(s) ==> node_wf(&string_syntax(&s)) && has_token(&string_syntax(&s))',
                            name='ASSUMED: the path of an include statement is a string token (tree shape of the parser)')],
                ensures=[C('ret matches Some(l) ==> (as_include(&node) matches Some(i) && include_map@.contains_key(include_id_of(&i)) && l.target == include_map@[include_id_of(&i)])',
                           name='a document link belongs to an include statement that is recorded in the resolved include map, and points to the recorded file'),
                         C('forall|i: ast::Include| as_include(&node) == Some(i) && include_path_node(&i) is Some && include_map@.contains_key(include_id_of(&i)) ==> ret is Some',
                           name='every include statement that is recorded in the resolved include map gets a link'),
                         C('ret matches Some(l) ==> (as_include(&node) matches Some(i) && include_path_node(&i) matches Some(s) && is_trimmed_range(&string_syntax(&s), l.range))',
                           name='the link covers the path literal')])],
     outline=[dict(move=True, rx=r'root_node\s*\.descendants\(\)\s*\.filter_map\(.*?\)\s*\.collect\(\)', name='o_collect_links',
                   sig='(root_node: SyntaxNode, @CAPTURES@) -> Vec<DocumentLink>', call='o_collect_links(root_node, @CAPTURES@)', captures=[('include_map', '&HashMap<IncludeId, FileId>', '&include_map'), ('file_id', 'FileId', 'file_id')],
                   why='rowan descendants() + filter_map/collect; ASSUMED: one link per descendant n with document_link_of(n) == Some(l), in document order - the closure is moved out and verified (R15)')])
