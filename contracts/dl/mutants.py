"""Kill matrix for unit DL (C16, document links): in-memory edits of handlers/document_link.rs (never /repo)."""
F = 'handlers/document_link.rs'
M = [
 dict(id='K1-link-to-the-requesting-file', file=F, old="            let target = *include_map.get(&include_id)?;\n", new="            let _ = include_map.get(&include_id)?;\n            let target = file_id;\n", expect='C16'),
 dict(id='K2-id-of-the-path-node', file=F, old="let include_id = IncludeId(SyntaxNodePtr::new(include.syntax()));", new="let include_id = IncludeId(SyntaxNodePtr::new(include.path()?.syntax()));", expect='C16'),
 dict(id='K3-range-of-the-whole-statement', file=F, old="let range = utils::range_excluding_trivia(include.path()?.syntax());", new="let range = utils::range_excluding_trivia(include.syntax());", expect='C16'),
]
BENIGN = [
 dict(id='B1-lookup-before-range', file=F, old="            let range = utils::range_excluding_trivia(include.path()?.syntax());\n            let target = *include_map.get(&include_id)?;\n", new="            let target = *include_map.get(&include_id)?;\n            let range = utils::range_excluding_trivia(include.path()?.syntax());\n"),
]
