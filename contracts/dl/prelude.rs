// Unit DL prelude (C16, document links): crates/ide/src/handlers/document_link.rs verified as its own crate against the real ide /
// syntax / rowan rlibs; the token model is the one of unit UT, whose contract for utils::range_excluding_trivia is ASSUMED here (proved there).  ASSUMED model of rowan's token API: the tokens of a file form one sequence in source order; a node covers
// a contiguous, possibly empty, run of them; `last_token` / `prev_token` walk that sequence (prev_token does NOT stop at the node).
pub mod vprelude {
use vstd::prelude::*;
pub use syntax::{SyntaxNode, SyntaxToken, Language};
pub use syntax::parser::{TextRange, TextSize};
pub use syntax::syntax_kind::SyntaxKind;
verus!{
#[verifier::external_type_specification] #[verifier::external_body] pub struct ExTextRange(TextRange);
#[verifier::external_type_specification] #[verifier::external_body] pub struct ExTextSize(TextSize);
#[verifier::external_type_specification] #[verifier::external_body] pub struct ExLanguage(Language);
#[verifier::external_type_specification] pub struct ExSyntaxKind(SyntaxKind);
#[verifier::external_type_specification] #[verifier::external_body] #[verifier::reject_recursive_types(L)] pub struct ExSyntaxNode<L: rowan::Language>(rowan::SyntaxNode<L>);
#[verifier::external_type_specification] #[verifier::external_body] #[verifier::reject_recursive_types(L)] pub struct ExSyntaxToken<L: rowan::Language>(rowan::SyntaxToken<L>);
#[verifier::external_trait_specification] pub trait ExLanguage0: Sized + Copy + core::fmt::Debug + Eq + Ord + core::hash::Hash { type ExternalTraitSpecificationFor: rowan::Language; type Kind: Sized + Copy + core::fmt::Debug + Eq + Ord + core::hash::Hash; }
pub use ide::file_system::FileId;
#[verifier::external_type_specification] pub struct ExFileId(FileId);
#[verifier::external_type_specification] #[verifier::external_body] pub struct ExParse(syntax::Parse);
#[verifier::external_type_specification] #[verifier::external_body] pub struct ExLineIndex(ide::line_index::LineIndex);
#[verifier::external_type_specification] pub struct ExIncludeId(ide::file_system::IncludeId);
#[verifier::external_type_specification] #[verifier::external_body] pub struct ExSourceRoot(ide::file_system::SourceRoot);
#[verifier::external_type_specification] #[verifier::external_body] pub struct ExSDS(ide::db::SourceDatabaseStorage);
#[verifier::external_trait_specification] pub trait ExQueryGroup: Sized { type ExternalTraitSpecificationFor: salsa::plumbing::QueryGroup; }
#[verifier::external_trait_specification] pub trait ExDatabaseOps { type ExternalTraitSpecificationFor: salsa::plumbing::DatabaseOps; }
#[verifier::external_trait_specification] pub trait ExSalsaDatabase: salsa::plumbing::DatabaseOps { type ExternalTraitSpecificationFor: salsa::Database; }
#[verifier::external_trait_specification] pub trait ExHasQueryGroup<G: salsa::plumbing::QueryGroup>: salsa::Database { type ExternalTraitSpecificationFor: salsa::plumbing::HasQueryGroup<G>; }
#[verifier::external_trait_specification]
pub trait ExSourceDatabase: salsa::Database + salsa::plumbing::HasQueryGroup<ide::db::SourceDatabaseStorage> {
    type ExternalTraitSpecificationFor: ide::db::SourceDatabase;
    fn parse(&self, file_id: FileId) -> syntax::Parse;
    fn resolved_include_map(&self, file_id: FileId) -> HashMap<IncludeId, FileId>;
}
pub use std::collections::HashMap;
pub use vstd::std_specs::hash::*;
pub use ide::file_system::IncludeId;
pub use syntax::ast;
#[verifier::external_type_specification] #[verifier::external_body] pub struct ExInclude(ast::Include);
#[verifier::external_type_specification] #[verifier::external_body] pub struct ExAstString(ast::String);
#[verifier::external_type_specification] #[verifier::external_body] #[verifier::reject_recursive_types(L)] pub struct ExSyntaxNodePtr<L: rowan::Language>(rowan::ast::SyntaxNodePtr<L>);
#[verifier::external_type_specification] #[verifier::external_body] pub struct ExIDS(ide::index::IndexDatabaseStorage);
#[verifier::external_trait_specification] pub trait ExAstNode0 { type ExternalTraitSpecificationFor: rowan::ast::AstNode; type Language: rowan::Language; fn can_cast(kind: <Self::Language as rowan::Language>::Kind) -> bool where Self: Sized; fn cast(node: rowan::SyntaxNode<Self::Language>) -> Option<Self> where Self: Sized; fn syntax(&self) -> &rowan::SyntaxNode<Self::Language>; }
#[verifier::external_trait_specification]
pub trait ExIndexDatabase: salsa::Database + salsa::plumbing::HasQueryGroup<ide::index::IndexDatabaseStorage> + ide::db::SourceDatabase {
    type ExternalTraitSpecificationFor: ide::index::IndexDatabase;
}
/// the include statement a node is (None: not an include statement), its id (syntax-node pointer), its path node
pub uninterp spec fn as_include(n: &SyntaxNode) -> Option<ast::Include>;
pub uninterp spec fn include_node_id(i: &ast::Include) -> IncludeId;
pub uninterp spec fn include_path_node(i: &ast::Include) -> Option<ast::String>;
pub uninterp spec fn string_syntax(s: &ast::String) -> SyntaxNode;
pub uninterp spec fn include_syntax(i: &ast::Include) -> SyntaxNode;
pub uninterp spec fn ptr_of<L: rowan::Language>(n: &rowan::SyntaxNode<L>) -> rowan::ast::SyntaxNodePtr<L>;
pub assume_specification [<ast::Include as rowan::ast::AstNode>::can_cast] (kind: SyntaxKind) -> bool;
pub assume_specification [<ast::String as rowan::ast::AstNode>::can_cast] (kind: SyntaxKind) -> bool;
pub assume_specification [<ast::String as rowan::ast::AstNode>::cast] (node: SyntaxNode) -> Option<ast::String>;
pub assume_specification [<ast::Include as rowan::ast::AstNode>::cast] (node: SyntaxNode) -> (r: Option<ast::Include>) ensures r == as_include(&node);
pub assume_specification [<ast::Include as rowan::ast::AstNode>::syntax] (i: &ast::Include) -> (r: &rowan::SyntaxNode<<ast::Include as rowan::ast::AstNode>::Language>) ensures *r == include_syntax(i);
pub assume_specification [<ast::String as rowan::ast::AstNode>::syntax] (s: &ast::String) -> (r: &rowan::SyntaxNode<<ast::String as rowan::ast::AstNode>::Language>) ensures *r == string_syntax(s);
pub assume_specification [ast::Include::path] (i: &ast::Include) -> (r: Option<ast::String>) ensures r == include_path_node(i);
pub assume_specification<L: rowan::Language> [rowan::ast::SyntaxNodePtr::<L>::new] (n: &rowan::SyntaxNode<L>) -> (r: rowan::ast::SyntaxNodePtr<L>) ensures r == ptr_of(n);
/// the id under which file_system::list_includes records an include statement: IncludeId(SyntaxNodePtr::new(include.syntax()))
pub open spec fn include_id_of(i: &ast::Include) -> IncludeId { IncludeId(ptr_of(&include_syntax(i))) }
pub broadcast axiom fn ax_includeid_key_model() ensures #[trigger] obeys_key_model::<IncludeId>();
pub assume_specification [syntax::Parse::syntax_node] (p: &syntax::Parse) -> SyntaxNode;
pub uninterp spec fn node_kind<L: rowan::Language>(n: &rowan::SyntaxNode<L>) -> <L as rowan::Language>::Kind;
pub assume_specification<L: rowan::Language> [rowan::SyntaxNode::<L>::kind] (n: &rowan::SyntaxNode<L>) -> (k: <L as rowan::Language>::Kind) ensures k == node_kind(n);
/// the statements the property lists: class, def, defset, foreach, if, let, multiclass
pub open spec fn is_block_statement(k: SyntaxKind) -> bool {
    k == SyntaxKind::Class || k == SyntaxKind::Def || k == SyntaxKind::Defset || k == SyntaxKind::Foreach || k == SyntaxKind::If || k == SyntaxKind::Let || k == SyntaxKind::MultiClass
}
/// `has_token(n)`: the node contains a non-trivia token
pub open spec fn has_token<L: rowan::Language>(n: &rowan::SyntaxNode<L>) -> bool { exists|i: int| node_lo(n) <= i < node_hi(n) && !(#[trigger] file_toks(n)[i]).trivia }
/// [node start, end of the node's last non-trivia token]
pub open spec fn is_trimmed_range<L: rowan::Language>(n: &rowan::SyntaxNode<L>, r: TextRange) -> bool {
    tr_start(r) == node_start(n) && tr_start(r) <= tr_end(r) <= node_end(n)
    && exists|j: int| node_lo(n) <= j < node_hi(n) && !(#[trigger] file_toks(n)[j]).trivia && tr_end(r) == file_toks(n)[j].end && forall|k: int| j < k < node_hi(n) ==> (#[trigger] file_toks(n)[k]).trivia
}
/// ASSUMED here, PROVED in unit UT (same clauses)
pub assume_specification [ide::utils::range_excluding_trivia] (node: &SyntaxNode) -> (ret: TextRange)
    requires node_wf(node), has_token(node) ensures is_trimmed_range(node, ret);
pub uninterp spec fn ts_val(t: TextSize) -> nat;
pub uninterp spec fn tr_start(r: TextRange) -> nat;
pub uninterp spec fn tr_end(r: TextRange) -> nat;
/// a token of the file: is it trivia (blank, comment, preprocessor region), where does it start and end
pub struct Tok { pub trivia: bool, pub start: nat, pub end: nat }
/// the tokens of the file a node / token belongs to, in source order
pub uninterp spec fn file_toks<L: rowan::Language>(n: &rowan::SyntaxNode<L>) -> Seq<Tok>;
pub uninterp spec fn tok_file_toks<L: rowan::Language>(t: &rowan::SyntaxToken<L>) -> Seq<Tok>;
/// index of a token in that sequence / the run [lo, hi) of tokens a node covers
pub uninterp spec fn tok_idx<L: rowan::Language>(t: &rowan::SyntaxToken<L>) -> int;
pub uninterp spec fn node_lo<L: rowan::Language>(n: &rowan::SyntaxNode<L>) -> int;
pub uninterp spec fn node_hi<L: rowan::Language>(n: &rowan::SyntaxNode<L>) -> int;
pub uninterp spec fn kind_trivia<K>(k: K) -> bool;
/// start / end offset of a node
pub uninterp spec fn node_start<L: rowan::Language>(n: &rowan::SyntaxNode<L>) -> nat;
pub uninterp spec fn node_end<L: rowan::Language>(n: &rowan::SyntaxNode<L>) -> nat;
/// well-formedness of the model (ASSUMED of rowan trees built by the verified parser): token ranges in source order; a node's range spans its run
pub open spec fn toks_wf(ts: Seq<Tok>) -> bool {
    (forall|i: int| 0 <= i < ts.len() ==> (#[trigger] ts[i]).start <= ts[i].end)
    && (forall|i: int, j: int| 0 <= i <= j < ts.len() ==> (#[trigger] ts[i]).start <= (#[trigger] ts[j]).start && ts[i].end <= ts[j].end)
}
pub open spec fn node_wf<L: rowan::Language>(n: &rowan::SyntaxNode<L>) -> bool {
    toks_wf(file_toks(n)) && 0 <= node_lo(n) <= node_hi(n) <= file_toks(n).len() && node_start(n) <= node_end(n)
    && (node_lo(n) < node_hi(n) ==> node_start(n) == file_toks(n)[node_lo(n)].start && node_end(n) == file_toks(n)[node_hi(n) - 1].end)
}
pub assume_specification<L: rowan::Language> [rowan::SyntaxNode::<L>::text_range] (n: &rowan::SyntaxNode<L>) -> (r: TextRange)
    ensures tr_start(r) == node_start(n), tr_end(r) == node_end(n);
pub assume_specification<L: rowan::Language> [rowan::SyntaxNode::<L>::last_token] (n: &rowan::SyntaxNode<L>) -> (r: Option<rowan::SyntaxToken<L>>)
    ensures r is Some == (node_lo(n) < node_hi(n)), r matches Some(t) ==> tok_file_toks(&t) == file_toks(n) && tok_idx(&t) == node_hi(n) - 1;
pub assume_specification<L: rowan::Language> [rowan::SyntaxToken::<L>::prev_token] (t: &rowan::SyntaxToken<L>) -> (r: Option<rowan::SyntaxToken<L>>)
    ensures r is Some == (tok_idx(t) > 0), r matches Some(p) ==> tok_file_toks(&p) == tok_file_toks(t) && tok_idx(&p) == tok_idx(t) - 1;
pub assume_specification<L: rowan::Language> [rowan::SyntaxToken::<L>::kind] (t: &rowan::SyntaxToken<L>) -> (k: <L as rowan::Language>::Kind)
    ensures 0 <= tok_idx(t) < tok_file_toks(t).len() ==> kind_trivia(k) == tok_file_toks(t)[tok_idx(t)].trivia;
pub assume_specification [SyntaxKind::is_trivia] (k: &SyntaxKind) -> (b: bool) ensures b == kind_trivia(*k);
pub assume_specification<L: rowan::Language> [rowan::SyntaxToken::<L>::text_range] (t: &rowan::SyntaxToken<L>) -> (r: TextRange)
    ensures 0 <= tok_idx(t) < tok_file_toks(t).len() ==> tr_start(r) == tok_file_toks(t)[tok_idx(t)].start && tr_end(r) == tok_file_toks(t)[tok_idx(t)].end;
pub assume_specification [TextRange::start] (r: TextRange) -> (s: TextSize) ensures ts_val(s) == tr_start(r);
pub assume_specification [TextRange::end] (r: TextRange) -> (s: TextSize) ensures ts_val(s) == tr_end(r);
// text-size: TextRange::new asserts start <= end
pub assume_specification [TextRange::new] (start: TextSize, end: TextSize) -> (r: TextRange)
    requires ts_val(start) <= ts_val(end) ensures tr_start(r) == ts_val(start), tr_end(r) == ts_val(end);
pub assume_specification [TextRange::empty] (offset: TextSize) -> (r: TextRange) ensures tr_start(r) == ts_val(offset), tr_end(r) == ts_val(offset);
}
}
