// Unit SYN prelude: assumed contracts on the dependency crates the syntax crate calls
// (unscanny 0.1.0, rowan 0.16.1, ecow 0.2, text-size) and the ghost vocabulary shared by
// the lexer / preprocessor / parser contracts.  Everything in this file that is an
// `assume_specification`, `axiom` or `external_body` is part of the TRUSTED BASE and is
// listed in the evidence by the mechanical scan.
pub mod prelude {
use vstd::prelude::*;
pub use vstd::string::*;
pub use vstd::std_specs::convert::*;
pub use unscanny::Scanner;
pub use ecow::EcoString;
pub use rowan::{GreenNodeBuilder, GreenNode, Checkpoint, TextRange, TextSize};
verus!{

// ------------------------------------------------------------------ external types
#[verifier::external_type_specification] #[verifier::external_body] pub struct ExEcoString(EcoString);
#[verifier::external_type_specification] #[verifier::external_body] pub struct ExScanner<'a>(Scanner<'a>);
#[verifier::external_type_specification] #[verifier::external_body] pub struct ExBuilder<'a>(GreenNodeBuilder<'a>);
#[verifier::external_type_specification] #[verifier::external_body] pub struct ExGreenNode(GreenNode);
#[verifier::external_type_specification] #[verifier::external_body] pub struct ExCheckpoint(Checkpoint);
#[verifier::external_type_specification] #[verifier::external_body] pub struct ExTextRange(TextRange);
#[verifier::external_type_specification] #[verifier::external_body] pub struct ExTextSize(TextSize);
#[verifier::external_type_specification] pub struct ExRSK(rowan::SyntaxKind);

// ------------------------------------------------------------------ text model
// A source text is a Seq<char>; its UTF-8 encoding is `enc`, and `boff(s,i)` is the byte
// offset of char index i.  u8len/enc are uninterpreted: only 1 <= u8len <= 4 and
// |enc(s)| = boff(s,|s|) are assumed (A-utf8).
pub uninterp spec fn u8len(c: char) -> nat;
pub uninterp spec fn enc(s: Seq<char>) -> Seq<u8>;
pub broadcast axiom fn ax_u8len(c: char) ensures 1 <= #[trigger] u8len(c) <= 4;
pub axiom fn ax_u8len_ascii(c: char) ensures (c as u32) < 128 ==> u8len(c) == 1;

pub open spec fn boff(s: Seq<char>, i: nat) -> nat
    decreases i
{
    if i == 0 || i > s.len() { 0 } else { boff(s, (i - 1) as nat) + u8len(s[i - 1]) }
}
pub open spec fn is_boundary(s: Seq<char>, b: nat) -> bool { exists|j: nat| j <= s.len() && #[trigger] boff(s, j) == b }

pub proof fn lemma_boff_step(s: Seq<char>, i: nat)
    requires i < s.len()
    ensures boff(s, i + 1) == boff(s, i) + u8len(s[i as int]), boff(s, i + 1) > boff(s, i)
{ broadcast use ax_u8len; }

pub proof fn lemma_mono_ind(s: Seq<char>, i: nat, j: nat)
    requires i <= j <= s.len()
    ensures boff(s, i) <= boff(s, j), boff(s, j) - boff(s, i) >= j - i
    decreases j - i
{
    if i < j { lemma_mono_ind(s, i, (j - 1) as nat); lemma_boff_step(s, (j - 1) as nat); }
}
pub proof fn lemma_boff_mono(s: Seq<char>)
    ensures forall|i: nat, j: nat| i <= j <= s.len() ==> #[trigger] boff(s, i) <= #[trigger] boff(s, j),
            forall|i: nat, j: nat| i < j <= s.len() ==> #[trigger] boff(s, i) < #[trigger] boff(s, j),
{
    assert forall|i: nat, j: nat| i <= j <= s.len() implies #[trigger] boff(s, i) <= #[trigger] boff(s, j) by { lemma_mono_ind(s, i, j); }
    assert forall|i: nat, j: nat| i < j <= s.len() implies #[trigger] boff(s, i) < #[trigger] boff(s, j) by { lemma_mono_ind(s, i + 1, j); lemma_boff_step(s, i); }
}
pub proof fn lemma_boff_gap(s: Seq<char>)
    ensures forall|i: nat, j: nat| i <= j <= s.len() ==> #[trigger] boff(s, j) - #[trigger] boff(s, i) >= j - i,
{
    assert forall|i: nat, j: nat| i <= j <= s.len() implies #[trigger] boff(s, j) - #[trigger] boff(s, i) >= j - i by { lemma_mono_ind(s, i, j); }
}
/// boff is injective on 0..=len, so a byte offset names at most one char index
pub proof fn lemma_boff_inj(s: Seq<char>, i: nat, j: nat)
    requires i <= s.len(), j <= s.len(), boff(s, i) == boff(s, j)
    ensures i == j
{
    lemma_boff_mono(s);
    if i < j { assert(boff(s, i) < boff(s, j)); } else if j < i { assert(boff(s, j) < boff(s, i)); }
}
pub axiom fn lemma_enc_len(s: Seq<char>) ensures enc(s).len() == boff(s, s.len());
/// A-utf8: the encoding of a char range is the byte range between the two offsets
pub axiom fn ax_enc_sub(s: Seq<char>, i: nat, j: nat)
    requires i <= j <= s.len()
    ensures enc(s.subrange(i as int, j as int)) =~= enc(s).subrange(boff(s, i) as int, boff(s, j) as int);

/// A-str: two &str with the same chars are the same string
pub broadcast axiom fn ax_str_inj(a: &str, b: &str) ensures #![trigger a@, b@] (a@ == b@) == (a == b);
pub uninterp spec fn str_bytes(s: &str) -> Seq<u8>;
pub broadcast axiom fn ax_str_bytes(s: &str) ensures #[trigger] str_bytes(s) == enc(s@);

// ------------------------------------------------------------------ unscanny::Scanner
pub uninterp spec fn sc_src(s: &Scanner) -> Seq<char>;
pub uninterp spec fn sc_ci(s: &Scanner) -> nat;

// pattern semantics (trusted, one axiom group per pattern type used in lexer.rs)
pub uninterp spec fn pat_mlen<T, P>(p: P, rest: Seq<char>) -> Option<nat>;
pub uninterp spec fn pat_yes<T, P>(p: P, c: char) -> bool;
pub uninterp spec fn pat_no<T, P>(p: P, c: char) -> bool;
/// pat_at(p, s, k): pattern p matches the text s at char index k (used by eat_until)
pub uninterp spec fn pat_at<T, P>(p: P, s: Seq<char>, k: int) -> bool;
/// pat_miss(p, s, k): the scanner tried p at index k and it did not match
pub uninterp spec fn pat_miss<T, P>(p: P, s: Seq<char>, k: int) -> bool;

pub broadcast axiom fn ax_pat_char(p: char, rest: Seq<char>)
    ensures #[trigger] pat_mlen::<(), char>(p, rest) == (if rest.len() > 0 && rest[0] == p { Some(1nat) } else { None::<nat> });
pub broadcast axiom fn ax_pat_str(p: &str, rest: Seq<char>)
    ensures #[trigger] pat_mlen::<(), &str>(p, rest) == (if p@.len() <= rest.len() && rest.subrange(0, p@.len() as int) == p@ { Some(p@.len()) } else { None::<nat> });
/// a function pattern is *called* on the next char: the outcome is whatever value r it returned, and
/// p.ensures((c,), r) holds for that r (operational reading; assumes the pattern function returns)
pub broadcast axiom fn ax_pat_fn<F: FnMut(char) -> bool>(p: F, rest: Seq<char>)
    ensures rest.len() == 0 ==> #[trigger] pat_mlen::<char, F>(p, rest) == None::<nat>,
        rest.len() > 0 ==> (pat_mlen::<char, F>(p, rest) == Some(1nat) && p.ensures((rest[0],), true))
                        || (pat_mlen::<char, F>(p, rest) == None::<nat> && p.ensures((rest[0],), false));
pub broadcast axiom fn ax_pat_fnref<F: FnMut(&char) -> bool>(p: F, rest: Seq<char>)
    ensures rest.len() == 0 ==> #[trigger] pat_mlen::<&char, F>(p, rest) == None::<nat>,
        rest.len() > 0 ==> (pat_mlen::<&char, F>(p, rest) == Some(1nat) && p.ensures((&rest[0],), true))
                        || (pat_mlen::<&char, F>(p, rest) == None::<nat> && p.ensures((&rest[0],), false));
pub broadcast axiom fn ax_yes_fn<F: FnMut(char) -> bool>(p: F, c: char)
    ensures #[trigger] pat_yes::<char, F>(p, c) == p.ensures((c,), true);
pub broadcast axiom fn ax_no_fn<F: FnMut(char) -> bool>(p: F, c: char)
    ensures #[trigger] pat_no::<char, F>(p, c) == p.ensures((c,), false);
pub broadcast axiom fn ax_yes_fnref<F: FnMut(&char) -> bool>(p: F, c: char)
    ensures #[trigger] pat_yes::<&char, F>(p, c) == p.ensures((&c,), true);
pub broadcast axiom fn ax_no_fnref<F: FnMut(&char) -> bool>(p: F, c: char)
    ensures #[trigger] pat_no::<&char, F>(p, c) == p.ensures((&c,), false);
pub broadcast axiom fn ax_at_str(p: &str, s: Seq<char>, k: int)
    ensures #[trigger] pat_at::<(), &str>(p, s, k) == (0 <= k && k + p@.len() <= s.len() && s.subrange(k, k + p@.len()) == p@),
        #[trigger] pat_miss::<(), &str>(p, s, k) == !(0 <= k && k + p@.len() <= s.len() && s.subrange(k, k + p@.len()) == p@);
pub broadcast axiom fn ax_at_fn<F: FnMut(char) -> bool>(p: F, s: Seq<char>, k: int)
    ensures #[trigger] pat_at::<char, F>(p, s, k) ==> 0 <= k < s.len() && p.ensures((s[k],), true),
        #[trigger] pat_miss::<char, F>(p, s, k) ==> 0 <= k < s.len() && p.ensures((s[k],), false);

pub open spec fn rest(s: &Scanner) -> Seq<char> { sc_src(s).subrange(sc_ci(s) as int, sc_src(s).len() as int) }

pub assume_specification<'a> [Scanner::<'a>::new] (string: &'a str) -> (s: Scanner<'a>)
    ensures sc_src(&s) == string@, sc_ci(&s) == 0;
pub assume_specification<'a> [Scanner::<'a>::cursor] (s: &Scanner<'a>) -> (r: usize)
    ensures r == boff(sc_src(s), sc_ci(s));
pub assume_specification<'a> [Scanner::<'a>::peek] (s: &Scanner<'a>) -> (r: Option<char>)
    ensures sc_ci(s) < sc_src(s).len() ==> r == Some(sc_src(s)[sc_ci(s) as int]),
            sc_ci(s) >= sc_src(s).len() ==> r.is_none();
pub assume_specification<'a> [Scanner::<'a>::eat] (s: &mut Scanner<'a>) -> (r: Option<char>)
    ensures sc_src(final(s)) == sc_src(old(s)),
        sc_ci(old(s)) < sc_src(old(s)).len() ==> r == Some(sc_src(old(s))[sc_ci(old(s)) as int]) && sc_ci(final(s)) == sc_ci(old(s)) + 1,
        sc_ci(old(s)) >= sc_src(old(s)).len() ==> r.is_none() && sc_ci(final(s)) == sc_ci(old(s));
pub assume_specification<'a, T, P: unscanny::Pattern<T>> [Scanner::<'a>::eat_if::<T>] (s: &mut Scanner<'a>, pat: P) -> (r: bool)
    ensures sc_src(final(s)) == sc_src(old(s)),
        match pat_mlen::<T, P>(pat, rest(old(s))) {
            Some(n) => r && sc_ci(final(s)) == sc_ci(old(s)) + n && sc_ci(final(s)) <= sc_src(old(s)).len(),
            None => !r && sc_ci(final(s)) == sc_ci(old(s)),
        };
pub assume_specification<'a, T, P: unscanny::Pattern<T>> [Scanner::<'a>::eat_while::<T>] (s: &mut Scanner<'a>, pat: P) -> (r: &'a str)
    ensures sc_src(final(s)) == sc_src(old(s)),
        sc_ci(old(s)) <= sc_src(old(s)).len() ==> sc_ci(old(s)) <= sc_ci(final(s)) <= sc_src(old(s)).len(),
        forall|k: int| sc_ci(old(s)) <= k < sc_ci(final(s)) ==> pat_yes::<T, P>(pat, #[trigger] sc_src(old(s))[k]),
        sc_ci(final(s)) < sc_src(old(s)).len() ==> pat_no::<T, P>(pat, sc_src(old(s))[sc_ci(final(s)) as int]);
pub assume_specification<'a, T, P: unscanny::Pattern<T>> [Scanner::<'a>::eat_until::<T>] (s: &mut Scanner<'a>, pat: P) -> (r: &'a str)
    ensures sc_src(final(s)) == sc_src(old(s)),
        sc_ci(old(s)) <= sc_src(old(s)).len() ==> sc_ci(old(s)) <= sc_ci(final(s)) <= sc_src(old(s)).len(),
        forall|k: int| #![trigger sc_src(old(s))[k]] #![trigger pat_miss::<T, P>(pat, sc_src(old(s)), k)] sc_ci(old(s)) <= k < sc_ci(final(s)) ==> pat_miss::<T, P>(pat, sc_src(old(s)), k),
        sc_ci(final(s)) < sc_src(old(s)).len() ==> pat_at::<T, P>(pat, sc_src(old(s)), sc_ci(final(s)) as int);
pub assume_specification<'a> [Scanner::<'a>::jump] (s: &mut Scanner<'a>, target: usize)
    ensures sc_src(final(s)) == sc_src(old(s)),
        forall|j: nat| j <= sc_src(old(s)).len() && boff(sc_src(old(s)), j) == target ==> sc_ci(final(s)) == j;
pub assume_specification<'a> [Scanner::<'a>::from] (s: &Scanner<'a>, start: usize) -> (r: &'a str)
    ensures forall|j: nat| j <= sc_ci(s) && sc_ci(s) <= sc_src(s).len() && boff(sc_src(s), j) == start ==> r@ == sc_src(s).subrange(j as int, sc_ci(s) as int);
pub assume_specification<'a> [Scanner::<'a>::get] (s: &Scanner<'a>, range: core::ops::Range<usize>) -> (r: &'a str)
    ensures forall|i: nat, j: nat| i <= j && j <= sc_src(s).len() && boff(sc_src(s), i) == range.start && boff(sc_src(s), j) == range.end
        ==> r@ == sc_src(s).subrange(i as int, j as int);

// the rest of the Scanner API (not used by the pinned lexer; specified so that a changed lexer stays decidable)
pub assume_specification<'a, T, P: unscanny::Pattern<T>> [Scanner::<'a>::at::<T>] (s: &Scanner<'a>, pat: P) -> (r: bool)
    ensures r == pat_mlen::<T, P>(pat, rest(s)).is_some();
pub assume_specification<'a> [Scanner::<'a>::done] (s: &Scanner<'a>) -> (r: bool)
    ensures sc_ci(s) <= sc_src(s).len() ==> r == (sc_ci(s) == sc_src(s).len());
pub assume_specification<'a> [Scanner::<'a>::string] (s: &Scanner<'a>) -> (r: &'a str)
    ensures r@ == sc_src(s);
pub assume_specification<'a> [Scanner::<'a>::before] (s: &Scanner<'a>) -> (r: &'a str)
    ensures sc_ci(s) <= sc_src(s).len() ==> r@ == sc_src(s).subrange(0, sc_ci(s) as int);
pub assume_specification<'a> [Scanner::<'a>::after] (s: &Scanner<'a>) -> (r: &'a str)
    ensures sc_ci(s) <= sc_src(s).len() ==> r@ == rest(s);
pub assume_specification<'a> [Scanner::<'a>::uneat] (s: &mut Scanner<'a>) -> (r: Option<char>)
    ensures sc_src(final(s)) == sc_src(old(s)),
        0 < sc_ci(old(s)) <= sc_src(old(s)).len() ==> r == Some(sc_src(old(s))[sc_ci(old(s)) - 1]) && sc_ci(final(s)) == sc_ci(old(s)) - 1,
        sc_ci(old(s)) == 0 ==> r.is_none() && sc_ci(final(s)) == 0;
pub assume_specification<'a> [Scanner::<'a>::eat_whitespace] (s: &mut Scanner<'a>) -> (r: &'a str)
    ensures sc_src(final(s)) == sc_src(old(s)),
        sc_ci(old(s)) <= sc_src(old(s)).len() ==> sc_ci(old(s)) <= sc_ci(final(s)) <= sc_src(old(s)).len();
pub assume_specification<'a, T, P: unscanny::Pattern<T>> [Scanner::<'a>::expect::<T>] (s: &mut Scanner<'a>, pat: P)
    requires pat_mlen::<T, P>(pat, rest(old(s))).is_some()
    ensures sc_src(final(s)) == sc_src(old(s)),
        sc_ci(final(s)) == sc_ci(old(s)) + pat_mlen::<T, P>(pat, rest(old(s))).unwrap();
pub assume_specification<'a> [Scanner::<'a>::scout] (s: &Scanner<'a>, n: isize) -> (r: Option<char>)
    ensures n >= 0 && sc_ci(s) + n < sc_src(s).len() ==> r == Some(sc_src(s)[sc_ci(s) + n]),
        n >= 0 && sc_ci(s) + n >= sc_src(s).len() ==> r.is_none(),
        n < 0 && sc_ci(s) + n >= 0 && sc_ci(s) <= sc_src(s).len() ==> r == Some(sc_src(s)[sc_ci(s) + n]),
        n < 0 && sc_ci(s) + n < 0 ==> r.is_none();
pub assume_specification<'a> [Scanner::<'a>::locate] (s: &Scanner<'a>, n: isize) -> (r: usize)
    ensures sc_ci(s) <= sc_src(s).len() ==> r == boff(sc_src(s), (if sc_ci(s) + n < 0 { 0int } else if sc_ci(s) + n > sc_src(s).len() { sc_src(s).len() as int } else { sc_ci(s) + n }) as nat);
pub assume_specification<'a> [Scanner::<'a>::to] (s: &Scanner<'a>, end: usize) -> (r: &'a str)
    ensures forall|j: nat| sc_ci(s) <= j && j <= sc_src(s).len() && boff(sc_src(s), j) == end ==> r@ == sc_src(s).subrange(sc_ci(s) as int, j as int);

pub assume_specification [char::is_ascii_digit] (c: &char) -> (r: bool) ensures r == ('0' <= *c && *c <= '9');
pub assume_specification [char::is_ascii_hexdigit] (c: &char) -> (r: bool)
    ensures r == (('0' <= *c && *c <= '9') || ('a' <= *c && *c <= 'f') || ('A' <= *c && *c <= 'F'));
pub assume_specification [char::is_ascii_alphabetic] (c: &char) -> (r: bool) ensures r == (('a' <= *c && *c <= 'z') || ('A' <= *c && *c <= 'Z'));
pub assume_specification [char::is_ascii_alphanumeric] (c: &char) -> (r: bool) ensures r == (('a' <= *c && *c <= 'z') || ('A' <= *c && *c <= 'Z') || ('0' <= *c && *c <= '9'));
pub assume_specification [char::is_ascii_whitespace] (c: &char) -> (r: bool)
    ensures r == (*c == ' ' || *c == '\t' || *c == '\n' || *c == '\x0C' || *c == '\r');
pub uninterp spec fn uni_alphabetic(c: char) -> bool;
pub uninterp spec fn uni_whitespace(c: char) -> bool;
pub assume_specification [char::is_alphabetic] (c: char) -> (r: bool)
    ensures r == uni_alphabetic(c);
/// Unicode Alphabetic restricted to ASCII is exactly the ASCII letters
pub axiom fn ax_alphabetic(c: char)
    ensures (('a' <= c && c <= 'z') || ('A' <= c && c <= 'Z')) ==> uni_alphabetic(c),
        (c as u32) < 128 && uni_alphabetic(c) ==> (('a' <= c && c <= 'z') || ('A' <= c && c <= 'Z'));

// ------------------------------------------------------------------ std integer parsing (used by interpret_number)
#[verifier::external_type_specification] #[verifier::external_body] pub struct ExParseIntError(core::num::ParseIntError);
#[verifier::external_trait_specification]
pub trait ExFromStr: Sized { type ExternalTraitSpecificationFor: core::str::FromStr; type Err; fn from_str(s: &str) -> Result<Self, Self::Err>; }
/// value of `[+-]?[0-9]+` as Rust's integer FromStr reads it (None: empty / lone sign / bad digit); uninterpreted
pub uninterp spec fn dec_val(s: Seq<char>) -> Option<int>;
/// value of a non-empty digit string in the given radix as from_str_radix reads it; uninterpreted
pub uninterp spec fn radix_val(s: Seq<char>, radix: u32) -> Option<int>;
/// the text a std string pattern (&str or char) stands for
pub uninterp spec fn std_pat_seq<P>(p: P) -> Seq<char>;
pub broadcast axiom fn ax_std_pat_str(p: &str) ensures #[trigger] std_pat_seq::<&str>(p) == p@;
pub broadcast axiom fn ax_std_pat_char(p: char) ensures #[trigger] std_pat_seq::<char>(p) == seq![p];
pub open spec fn has_prefix(s: Seq<char>, p: Seq<char>) -> bool { p.len() <= s.len() && s.subrange(0, p.len() as int) == p }
pub assume_specification<'a, P: core::str::pattern::Pattern> [str::strip_prefix::<P>] (s: &'a str, prefix: P) -> (r: Option<&'a str>)
    ensures match r {
        Some(t) => has_prefix(s@, std_pat_seq(prefix)) && t@ == s@.subrange(std_pat_seq(prefix).len() as int, s@.len() as int),
        None => !has_prefix(s@, std_pat_seq(prefix)),
    };
pub assume_specification<'a, P: core::str::pattern::Pattern> [str::starts_with::<P>] (s: &'a str, prefix: P) -> (r: bool)
    ensures r == has_prefix(s@, std_pat_seq(prefix));
/// vstd states str::len as spec_bytes().len(); in this unit's text model the bytes of a str are enc(chars)
pub broadcast axiom fn ax_spec_bytes(s: &str) ensures #[trigger] s.spec_bytes() == enc(s@), s.spec_bytes().len() <= usize::MAX;
// std str slicing helpers (documented behaviour: the result is a prefix / suffix / infix of the receiver; which chars are
// trimmed is left open, so any use that depends on it cannot be proved and is reported as undecided-or-failing, never assumed)
pub open spec fn is_prefix_of(t: Seq<char>, s: Seq<char>) -> bool { t.len() <= s.len() && s.subrange(0, t.len() as int) == t }
pub open spec fn is_suffix_of(t: Seq<char>, s: Seq<char>) -> bool { t.len() <= s.len() && s.subrange(s.len() - t.len(), s.len() as int) == t }
pub open spec fn is_infix_of(t: Seq<char>, s: Seq<char>) -> bool { exists|k: int| 0 <= k && k + t.len() <= s.len() && #[trigger] s.subrange(k, k + t.len()) == t }
pub assume_specification<'a, P: core::str::pattern::Pattern> [str::trim_end_matches::<P>] (s: &'a str, pat: P) -> (r: &'a str)
    where for<'b> <P as core::str::pattern::Pattern>::Searcher<'b>: core::str::pattern::ReverseSearcher<'b>
    ensures is_prefix_of(r@, s@), r.spec_bytes().len() <= s.spec_bytes().len();
pub assume_specification<'a, P: core::str::pattern::Pattern> [str::trim_start_matches::<P>] (s: &'a str, pat: P) -> (r: &'a str)
    ensures is_suffix_of(r@, s@), r.spec_bytes().len() <= s.spec_bytes().len();
pub assume_specification<'a> [str::trim_end] (s: &'a str) -> (r: &'a str) ensures is_prefix_of(r@, s@), r.spec_bytes().len() <= s.spec_bytes().len();
pub assume_specification<'a> [str::trim_start] (s: &'a str) -> (r: &'a str) ensures is_suffix_of(r@, s@), r.spec_bytes().len() <= s.spec_bytes().len();
pub assume_specification<'a> [str::trim] (s: &'a str) -> (r: &'a str) ensures is_infix_of(r@, s@), r.spec_bytes().len() <= s.spec_bytes().len();
pub assume_specification [u64::from_str_radix] (s: &str, radix: u32) -> (r: Result<u64, core::num::ParseIntError>)
    ensures r.is_ok() == (radix_val(s@, radix) is Some && 0 <= radix_val(s@, radix).unwrap() <= u64::MAX),
        r.is_ok() ==> r.unwrap() == radix_val(s@, radix).unwrap();
pub assume_specification [<i64 as core::str::FromStr>::from_str] (s: &str) -> (r: Result<i64, core::num::ParseIntError>)
    ensures r.is_ok() == (dec_val(s@) is Some && i64::MIN <= dec_val(s@).unwrap() <= i64::MAX),
        r.is_ok() ==> r.unwrap() == dec_val(s@).unwrap();
pub assume_specification [<u64 as core::str::FromStr>::from_str] (s: &str) -> (r: Result<u64, core::num::ParseIntError>)
    ensures r.is_ok() == (dec_val(s@) is Some && 0 <= dec_val(s@).unwrap() <= u64::MAX),
        r.is_ok() ==> r.unwrap() == dec_val(s@).unwrap();
pub assume_specification<F: core::str::FromStr> [str::parse::<F>] (s: &str) -> (r: Result<F, F::Err>)
    ensures call_ensures(F::from_str, (s,), r);

// ------------------------------------------------------------------ character classes of the TableGen reference
pub open spec fn is_ident_start(c: char) -> bool { ('a' <= c && c <= 'z') || ('A' <= c && c <= 'Z') || c == '_' }
pub open spec fn is_ident_cont(c: char) -> bool { is_ident_start(c) || ('0' <= c && c <= '9') }

// ------------------------------------------------------------------ ecow / String messages
pub uninterp spec fn eco_view(e: &EcoString) -> Seq<char>;
/// text of a value that is convertible into a message string (`impl Into<String>` / `impl Into<EcoString>`)
pub uninterp spec fn msg_text<M>(m: M) -> Seq<char>;
pub broadcast axiom fn ax_msg_str(m: &str) ensures #[trigger] msg_text::<&str>(m) == m@;
pub broadcast axiom fn ax_msg_eco(m: EcoString) ensures #[trigger] msg_text::<EcoString>(m) == eco_view(&m);
pub broadcast axiom fn ax_msg_string(m: String) ensures #[trigger] msg_text::<String>(m) == m@;
/// A-into: every `Into<EcoString>` / `Into<String>` conversion used for messages obeys vstd's
/// IntoSpec and keeps the text (the real impls are `From<&str>`, `From<String>`, `From<EcoString>`, identity)
pub axiom fn ax_into_eco<M: Into<EcoString>>(m: M)
    ensures <M as IntoSpec<EcoString>>::obeys_into_spec(),
        eco_view(&<M as IntoSpec<EcoString>>::into_spec(m)) == msg_text(m);
pub axiom fn ax_into_string<M: Into<String>>(m: M)
    ensures <M as IntoSpec<String>>::obeys_into_spec(),
        (<M as IntoSpec<String>>::into_spec(m))@ == msg_text(m);
/// stands for `eco_format!("expected {kind:?}")`: formatting machinery is outside Verus (R5);
/// the literal prefix is non-empty, which is all the contracts use.
#[verifier::external_body]
pub fn opaque_eco_string() -> (r: EcoString) ensures eco_view(&r).len() > 0 { unimplemented!() }

// ------------------------------------------------------------------ rowan::GreenNodeBuilder (0.16.1, read from its source)
pub struct BuilderView { pub parents: Seq<nat>, pub n: nat, pub text: Seq<u8> }
pub uninterp spec fn builder_view<'c>(b: &GreenNodeBuilder<'c>) -> BuilderView;
pub uninterp spec fn cp_val(c: Checkpoint) -> nat;
/// the text of the finished green tree
pub uninterp spec fn green_text(g: &GreenNode) -> Seq<u8>;

pub assume_specification<'c> [GreenNodeBuilder::<'c>::new] () -> (b: GreenNodeBuilder<'static>)
    ensures builder_view(&b) == (BuilderView { parents: Seq::empty(), n: 0, text: Seq::empty() });
pub assume_specification<'c> [GreenNodeBuilder::<'c>::start_node] (b: &mut GreenNodeBuilder<'c>, kind: rowan::SyntaxKind)
    ensures builder_view(final(b)) == (BuilderView { parents: builder_view(old(b)).parents.push(builder_view(old(b)).n), ..builder_view(old(b)) });
pub assume_specification<'c> [GreenNodeBuilder::<'c>::token] (b: &mut GreenNodeBuilder<'c>, kind: rowan::SyntaxKind, text: &str)
    ensures builder_view(final(b)) == (BuilderView { n: builder_view(old(b)).n + 1, text: builder_view(old(b)).text + str_bytes(text), ..builder_view(old(b)) });
// finish_node: `let (kind, first_child) = self.parents.pop().unwrap(); ... self.children.drain(first_child..)`
pub assume_specification<'c> [GreenNodeBuilder::<'c>::finish_node] (b: &mut GreenNodeBuilder<'c>)
    requires builder_view(old(b)).parents.len() > 0, builder_view(old(b)).parents.last() <= builder_view(old(b)).n
    ensures builder_view(final(b)) == (BuilderView { parents: builder_view(old(b)).parents.drop_last(), n: builder_view(old(b)).parents.last() + 1, ..builder_view(old(b)) });
pub assume_specification<'c> [GreenNodeBuilder::<'c>::checkpoint] (b: &GreenNodeBuilder<'c>) -> (c: Checkpoint)
    ensures cp_val(c) == builder_view(b).n;
// start_node_at: assert!(checkpoint <= self.children.len()); if let Some(&(_, first_child)) = self.parents.last() { assert!(checkpoint >= first_child) }
pub assume_specification<'c> [GreenNodeBuilder::<'c>::start_node_at] (b: &mut GreenNodeBuilder<'c>, checkpoint: Checkpoint, kind: rowan::SyntaxKind)
    requires cp_val(checkpoint) <= builder_view(old(b)).n,
        builder_view(old(b)).parents.len() > 0 ==> cp_val(checkpoint) >= builder_view(old(b)).parents.last()
    ensures builder_view(final(b)) == (BuilderView { parents: builder_view(old(b)).parents.push(cp_val(checkpoint)), ..builder_view(old(b)) });
// finish: assert_eq!(self.children.len(), 1); the root's text is the concatenation of the pushed token texts
pub assume_specification<'c> [GreenNodeBuilder::<'c>::finish] (b: GreenNodeBuilder<'c>) -> (g: GreenNode)
    requires builder_view(&b).n == 1, builder_view(&b).parents.len() == 0
    ensures green_text(&g) == builder_view(&b).text;

pub uninterp spec fn ts_val(t: TextSize) -> nat;
pub uninterp spec fn tr_start(r: TextRange) -> nat;
pub uninterp spec fn tr_end(r: TextRange) -> nat;
pub assume_specification [TextRange::new] (start: TextSize, end: TextSize) -> (r: TextRange)
    requires ts_val(start) <= ts_val(end)
    ensures tr_start(r) == ts_val(start), tr_end(r) == ts_val(end);
/// `usize -> TextSize` is `u32::try_from(x).map(TextSize::from)` (text-size 1.1.1, src/traits.rs)
pub axiom fn ax_usize_to_text_size(x: usize)
    ensures <usize as TryIntoSpec<TextSize>>::obeys_try_into_spec(),
        x <= u32::MAX ==> (<usize as TryIntoSpec<TextSize>>::try_into_spec(x)).is_ok()
            && ts_val(<usize as TryIntoSpec<TextSize>>::try_into_spec(x).unwrap()) == x;

pub assume_specification<Idx: Clone> [<core::ops::Range<Idx> as Clone>::clone] (r: &core::ops::Range<Idx>) -> (c: core::ops::Range<Idx>) ensures c == *r;
pub assume_specification<T: core::cmp::PartialEq> [<[T]>::contains] (s: &[T], x: &T) -> (r: bool) ensures r == s@.contains(*x);

}
}
