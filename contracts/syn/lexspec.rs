// C14 reference: the TableGen token language, written from the LLVM TableGen Programmer's
// Reference / TGLexer, as a reference lexer over Seq<char>: `ref_lex(s, i)` is the (kind, end)
// of the token that starts at char index i, or None when no *valid* token starts there.
// The contract of Lexer::next_token (tag C14) is agreement with ref_lex whenever it is Some.
// Independent of the code under verification: nothing here mentions lexer.rs.
pub mod lexspec {
use vstd::prelude::*;
use crate::prelude::*;
use crate::token_kind::TokenKind;
verus!{

// ---------------------------------------------------------------- character classes
pub open spec fn is_digit(c: char) -> bool { '0' <= c && c <= '9' }
pub open spec fn is_hex(c: char) -> bool { is_digit(c) || ('a' <= c && c <= 'f') || ('A' <= c && c <= 'F') }
pub open spec fn is_bin(c: char) -> bool { c == '0' || c == '1' }
pub open spec fn is_alpha(c: char) -> bool { ('a' <= c && c <= 'z') || ('A' <= c && c <= 'Z') }
/// separators: blank, tab, newline, carriage return (form feed is accepted as well)
pub open spec fn is_ws(c: char) -> bool { c == ' ' || c == '\t' || c == '\n' || c == '\r' || c == '\x0C' }
pub open spec fn is_nl(c: char) -> bool { c == '\n' || c == '\r' }

pub open spec fn p_ws() -> spec_fn(char) -> bool { |c: char| is_ws(c) }
pub open spec fn p_digit() -> spec_fn(char) -> bool { |c: char| is_digit(c) }
pub open spec fn p_hex() -> spec_fn(char) -> bool { |c: char| is_hex(c) }
pub open spec fn p_bin() -> spec_fn(char) -> bool { |c: char| is_bin(c) }
pub open spec fn p_alpha() -> spec_fn(char) -> bool { |c: char| is_alpha(c) }
pub open spec fn p_ident_cont() -> spec_fn(char) -> bool { |c: char| is_ident_cont(c) }
pub open spec fn p_not_nl() -> spec_fn(char) -> bool { |c: char| !is_nl(c) }
pub open spec fn p_uni_alpha() -> spec_fn(char) -> bool { |c: char| uni_alphabetic(c) }

/// end of the maximal run of chars satisfying p that starts at i
pub open spec fn scan(s: Seq<char>, i: nat, p: spec_fn(char) -> bool) -> nat
    decreases s.len() - i
{
    if i < s.len() && p(s[i as int]) { scan(s, i + 1, p) } else { i }
}
/// (conditional form, no `requires`: used as a proof hint, it can never fail by itself - if the run is not what the reference
/// says, the NAMED postcondition of the scanning function fails instead)
pub open spec fn is_run(s: Seq<char>, i: nat, j: nat, p: spec_fn(char) -> bool) -> bool {
    i <= j <= s.len() && (forall|k: int| i <= k < j ==> p(#[trigger] s[k])) && (j < s.len() ==> !p(s[j as int]))
}
pub proof fn lemma_scan_unique(s: Seq<char>, i: nat, j: nat, p: spec_fn(char) -> bool)
    ensures is_run(s, i, j, p) ==> scan(s, i, p) == j
    decreases j - i
{
    if is_run(s, i, j, p) && i < j { assert(is_run(s, i + 1, j, p)); lemma_scan_unique(s, i + 1, j, p); }
}
pub proof fn lemma_scan_props(s: Seq<char>, i: nat, p: spec_fn(char) -> bool)
    requires i <= s.len()
    ensures i <= scan(s, i, p) <= s.len(), forall|k: int| i <= k < scan(s, i, p) ==> p(#[trigger] s[k]),
        scan(s, i, p) < s.len() ==> !p(s[scan(s, i, p) as int])
    decreases s.len() - i
{
    if i < s.len() && p(s[i as int]) { lemma_scan_props(s, i + 1, p); }
}
pub proof fn lemma_scan_bounds(s: Seq<char>, i: nat, p: spec_fn(char) -> bool)
    requires i <= s.len()
    ensures i <= scan(s, i, p) <= s.len()
    decreases s.len() - i
{
    if i < s.len() && p(s[i as int]) { lemma_scan_bounds(s, i + 1, p); }
}
/// first index >= i where the two-char string (a,b) occurs, else len
pub open spec fn find2(s: Seq<char>, i: nat, a: char, b: char) -> nat
    decreases s.len() - i
{
    if i >= s.len() { s.len() } else if s[i as int] == a && i + 1 < s.len() && s[(i + 1) as int] == b { i } else { find2(s, i + 1, a, b) }
}
pub open spec fn is_first2(s: Seq<char>, i: nat, j: nat, a: char, b: char) -> bool {
    i <= j <= s.len()
    && (forall|k: int| i <= k < j ==> !(#[trigger] s[k] == a && k + 1 < s.len() && s[k + 1] == b))
    && (j < s.len() ==> s[j as int] == a && j + 1 < s.len() && s[(j + 1) as int] == b)
}
pub proof fn lemma_find2_unique(s: Seq<char>, i: nat, j: nat, a: char, b: char)
    ensures is_first2(s, i, j, a, b) ==> find2(s, i, a, b) == j
    decreases j - i
{
    if is_first2(s, i, j, a, b) && i < j { assert(is_first2(s, i + 1, j, a, b)); lemma_find2_unique(s, i + 1, j, a, b); }
}

// ---------------------------------------------------------------- keyword and bang-operator tables (ProgRef)
pub open spec fn kw_kind(w: Seq<char>) -> TokenKind {
    if w == "assert"@ { TokenKind::Assert } else if w == "bit"@ { TokenKind::Bit } else if w == "bits"@ { TokenKind::Bits }
    else if w == "class"@ { TokenKind::Class } else if w == "code"@ { TokenKind::Code } else if w == "dag"@ { TokenKind::Dag }
    else if w == "def"@ { TokenKind::Def } else if w == "defm"@ { TokenKind::Defm } else if w == "defset"@ { TokenKind::Defset }
    else if w == "defvar"@ { TokenKind::Defvar } else if w == "dump"@ { TokenKind::Dump } else if w == "else"@ { TokenKind::ElseKw }
    else if w == "field"@ { TokenKind::Field } else if w == "foreach"@ { TokenKind::Foreach } else if w == "if"@ { TokenKind::If }
    else if w == "in"@ { TokenKind::In } else if w == "include"@ { TokenKind::Include } else if w == "int"@ { TokenKind::Int }
    else if w == "let"@ { TokenKind::Let } else if w == "list"@ { TokenKind::List } else if w == "multiclass"@ { TokenKind::MultiClass }
    else if w == "string"@ { TokenKind::String } else if w == "then"@ { TokenKind::Then } else if w == "true"@ { TokenKind::TrueVal }
    else if w == "false"@ { TokenKind::FalseVal } else { TokenKind::Id }
}
/// a word that starts with a digit is never a keyword
pub proof fn lemma_kw_digit(w: Seq<char>)
    requires w.len() > 0, is_digit(w[0])
    ensures kw_kind(w) == TokenKind::Id
{
    reveal_strlit("assert"); reveal_strlit("bit"); reveal_strlit("bits"); reveal_strlit("class"); reveal_strlit("code"); reveal_strlit("dag");
    reveal_strlit("def"); reveal_strlit("defm"); reveal_strlit("defset"); reveal_strlit("defvar"); reveal_strlit("dump"); reveal_strlit("else");
    reveal_strlit("field"); reveal_strlit("foreach"); reveal_strlit("if"); reveal_strlit("in"); reveal_strlit("include"); reveal_strlit("int");
    reveal_strlit("let"); reveal_strlit("list"); reveal_strlit("multiclass"); reveal_strlit("string"); reveal_strlit("then"); reveal_strlit("true");
    reveal_strlit("false");
}
pub proof fn lemma_kw_digit_all(s: Seq<char>, i: nat)
    requires i < s.len(), is_digit(s[i as int])
    ensures forall|j: nat| i < j <= s.len() ==> kw_kind(#[trigger] s.subrange(i as int, j as int)) == TokenKind::Id
{
    assert forall|j: nat| i < j <= s.len() implies kw_kind(#[trigger] s.subrange(i as int, j as int)) == TokenKind::Id by {
        lemma_kw_digit(s.subrange(i as int, j as int));
    }
}
pub open spec fn bang_kind(w: Seq<char>) -> Option<TokenKind> {
    if w == "add"@ { Some(TokenKind::XAdd) } else if w == "and"@ { Some(TokenKind::XAnd) } else if w == "cast"@ { Some(TokenKind::XCast) }
    else if w == "con"@ { Some(TokenKind::XCon) } else if w == "cond"@ { Some(TokenKind::XCond) } else if w == "dag"@ { Some(TokenKind::XDag) }
    else if w == "div"@ { Some(TokenKind::XDiv) } else if w == "empty"@ { Some(TokenKind::XEmpty) } else if w == "eq"@ { Some(TokenKind::XEq) }
    else if w == "exists"@ { Some(TokenKind::XExists) } else if w == "filter"@ { Some(TokenKind::XFilter) } else if w == "find"@ { Some(TokenKind::XFind) }
    else if w == "foldl"@ { Some(TokenKind::XFoldl) } else if w == "foreach"@ { Some(TokenKind::XForEach) } else if w == "ge"@ { Some(TokenKind::XGe) }
    else if w == "getdagarg"@ { Some(TokenKind::XGetDagArg) } else if w == "getdagname"@ { Some(TokenKind::XGetDagName) }
    else if w == "getdagop"@ { Some(TokenKind::XGetDagOp) } else if w == "gt"@ { Some(TokenKind::XGt) } else if w == "head"@ { Some(TokenKind::XHead) }
    else if w == "if"@ { Some(TokenKind::XIf) } else if w == "initialized"@ { Some(TokenKind::XInitialized) }
    else if w == "interleave"@ { Some(TokenKind::XInterleave) } else if w == "isa"@ { Some(TokenKind::XIsA) } else if w == "le"@ { Some(TokenKind::XLe) }
    else if w == "listconcat"@ { Some(TokenKind::XListConcat) } else if w == "listflatten"@ { Some(TokenKind::XListFlatten) }
    else if w == "listremove"@ { Some(TokenKind::XListRemove) } else if w == "listsplat"@ { Some(TokenKind::XListSplat) }
    else if w == "logtwo"@ { Some(TokenKind::XLog2) } else if w == "lt"@ { Some(TokenKind::XLt) } else if w == "mul"@ { Some(TokenKind::XMul) }
    else if w == "ne"@ { Some(TokenKind::XNe) } else if w == "not"@ { Some(TokenKind::XNot) } else if w == "or"@ { Some(TokenKind::XOr) }
    else if w == "range"@ { Some(TokenKind::XRange) } else if w == "repr"@ { Some(TokenKind::XRepr) }
    else if w == "setdagarg"@ { Some(TokenKind::XSetDagArg) } else if w == "setdagname"@ { Some(TokenKind::XSetDagName) }
    else if w == "setdagop"@ { Some(TokenKind::XSetDagOp) } else if w == "shl"@ { Some(TokenKind::XShl) } else if w == "size"@ { Some(TokenKind::XSize) }
    else if w == "sra"@ { Some(TokenKind::XSra) } else if w == "srl"@ { Some(TokenKind::XSrl) } else if w == "strconcat"@ { Some(TokenKind::XStrConcat) }
    else if w == "sub"@ { Some(TokenKind::XSub) } else if w == "subst"@ { Some(TokenKind::XSubst) } else if w == "substr"@ { Some(TokenKind::XSubstr) }
    else if w == "tail"@ { Some(TokenKind::XTail) } else if w == "tolower"@ { Some(TokenKind::XToLower) } else if w == "toupper"@ { Some(TokenKind::XToUpper) }
    else if w == "xor"@ { Some(TokenKind::XXor) } else { None }
}
pub open spec fn directive_kind(w: Seq<char>) -> Option<TokenKind> {
    if w == "ifdef"@ { Some(TokenKind::Ifdef) } else if w == "ifndef"@ { Some(TokenKind::Ifndef) } else if w == "else"@ { Some(TokenKind::Else) }
    else if w == "endif"@ { Some(TokenKind::Endif) } else if w == "define"@ { Some(TokenKind::Define) } else { None }
}

// ---------------------------------------------------------------- strings, comments, code
pub open spec fn valid_escape(c: char) -> bool { c == '\\' || c == '\'' || c == '"' || c == 't' || c == 'n' }
/// end (one past the closing quote) of a string literal whose body starts at i; `esc` = the previous
/// char was an unescaped backslash.  None: end of line / end of file / invalid escape.
pub open spec fn str_end(s: Seq<char>, i: nat, esc: bool) -> Option<nat>
    decreases s.len() - i
{
    if i >= s.len() { None }
    else if esc { if valid_escape(s[i as int]) { str_end(s, i + 1, false) } else { None } }
    else if s[i as int] == '"' { Some(i + 1) }
    else if is_nl(s[i as int]) { None }
    else if s[i as int] == '\\' { str_end(s, i + 1, true) }
    else { str_end(s, i + 1, false) }
}
/// end (one past the final "*/") of a block comment whose body starts at i at nesting depth d >= 1
pub open spec fn bc_end(s: Seq<char>, i: nat, d: nat) -> Option<nat>
    decreases s.len() - i
{
    if i >= s.len() || d == 0 { None }
    else if s[i as int] == '*' && i + 1 < s.len() && s[(i + 1) as int] == '/' { if d == 1 { Some(i + 2) } else { bc_end(s, i + 2, (d - 1) as nat) } }
    else if s[i as int] == '/' && i + 1 < s.len() && s[(i + 1) as int] == '*' { bc_end(s, i + 2, d + 1) }
    else { bc_end(s, i + 1, d) }
}

// ---------------------------------------------------------------- numbers
/// the literal's value fits 64 bits: 0x/0b literals as unsigned 64-bit, negative decimals as i64,
/// other decimals as unsigned 64-bit (digit-string values dec_val / radix_val are those of Rust's std parsers)
pub open spec fn num_ok(text: Seq<char>) -> bool {
    if has_prefix(text, seq!['0', 'x']) {
        let v = radix_val(text.subrange(2, text.len() as int), 16); v is Some && 0 <= v.unwrap() <= u64::MAX
    } else if has_prefix(text, seq!['0', 'b']) {
        let v = radix_val(text.subrange(2, text.len() as int), 2); v is Some && 0 <= v.unwrap() <= u64::MAX
    } else if text.len() > 0 && text[0] == '-' {
        dec_val(text) is Some && i64::MIN <= dec_val(text).unwrap() <= i64::MAX
    } else {
        dec_val(text) is Some && 0 <= dec_val(text).unwrap() <= u64::MAX
    }
}

pub open spec fn ref_number(s: Seq<char>, i: nat) -> Option<(TokenKind, nat)>
    recommends i < s.len()
{
    let c = s[i as int];
    if c == '+' || c == '-' {
        if i + 1 < s.len() && is_digit(s[(i + 1) as int]) {
            let j = scan(s, i + 1, p_digit());
            if num_ok(s.subrange(i as int, j as int)) && !(j < s.len() && is_ident_start(s[j as int])) { Some((TokenKind::IntVal, j)) } else { None }
        } else { Some((if c == '+' { TokenKind::Plus } else { TokenKind::Minus }, i + 1)) }
    } else if c == '0' && i + 2 < s.len() && s[(i + 1) as int] == 'x' && is_hex(s[(i + 2) as int]) {
        let j = scan(s, i + 2, p_hex());
        if num_ok(s.subrange(i as int, j as int)) { Some((TokenKind::IntVal, j)) } else { None }
    } else if c == '0' && i + 2 < s.len() && s[(i + 1) as int] == 'b' && is_bin(s[(i + 2) as int]) {
        let j = scan(s, i + 2, p_bin());
        if num_ok(s.subrange(i as int, j as int)) { Some((TokenKind::BinaryIntVal, j)) } else { None }
    } else {
        let d = scan(s, i, p_digit());
        if d < s.len() && is_ident_start(s[d as int]) {
            // digit-leading identifier (e.g. 4foo); the 0x/0b look-alikes are left unclaimed
            if s[d as int] == 'x' || s[d as int] == 'b' { None }
            else { Some((TokenKind::Id, scan(s, d, p_ident_cont()))) }
        } else if num_ok(s.subrange(i as int, d as int)) { Some((TokenKind::IntVal, d)) } else { None }
    }
}

// ---------------------------------------------------------------- the reference lexer
pub open spec fn punct_kind(c: char) -> Option<TokenKind> {
    if c == ']' { Some(TokenKind::RSquare) } else if c == '{' { Some(TokenKind::LBrace) } else if c == '}' { Some(TokenKind::RBrace) }
    else if c == '(' { Some(TokenKind::LParen) } else if c == ')' { Some(TokenKind::RParen) } else if c == '<' { Some(TokenKind::Less) }
    else if c == '>' { Some(TokenKind::Greater) } else if c == ':' { Some(TokenKind::Colon) } else if c == ';' { Some(TokenKind::Semi) }
    else if c == ',' { Some(TokenKind::Comma) } else if c == '=' { Some(TokenKind::Equal) } else if c == '?' { Some(TokenKind::Question) }
    else { None }
}
#[verifier::opaque]
pub open spec fn ref_lex(s: Seq<char>, i: nat) -> Option<(TokenKind, nat)> {
    if i >= s.len() { Some((TokenKind::Eof, i)) } else {
        let c = s[i as int];
        if is_ws(c) { Some((TokenKind::Whitespace, scan(s, i + 1, p_ws()))) }
        else if c == '/' && i + 1 < s.len() && s[(i + 1) as int] == '/' { Some((TokenKind::LineComment, scan(s, i + 2, p_not_nl()))) }
        else if c == '/' && i + 1 < s.len() && s[(i + 1) as int] == '*' {
            match bc_end(s, i + 2, 1) { Some(j) => Some((TokenKind::BlockComment, j)), None => None }
        }
        else if is_digit(c) || c == '-' || c == '+' { ref_number(s, i) }
        else if is_ident_start(c) { let j = scan(s, i + 1, p_ident_cont()); Some((kw_kind(s.subrange(i as int, j as int)), j)) }
        else if c == '"' { match str_end(s, i + 1, false) { Some(j) => Some((TokenKind::StrVal, j)), None => None } }
        else if c == '$' {
            if i + 1 < s.len() && is_ident_start(s[(i + 1) as int]) { Some((TokenKind::VarName, scan(s, i + 2, p_ident_cont()))) } else { None }
        }
        else if c == '[' {
            if i + 1 < s.len() && s[(i + 1) as int] == '{' {
                let j = find2(s, i + 2, '}', ']');
                if j < s.len() { Some((TokenKind::CodeFragment, j + 2)) } else { None }
            } else { Some((TokenKind::LSquare, i + 1)) }
        }
        else if c == '!' {
            let j = scan(s, i + 1, p_alpha());
            match bang_kind(s.subrange((i + 1) as int, j as int)) { Some(k) => Some((k, j)), None => None }
        }
        else if c == '#' {
            let j = scan(s, i + 1, p_alpha());
            if j == i + 1 { Some((TokenKind::Paste, i + 1)) }
            else if j < s.len() && !is_ws(s[j as int]) { None }     // `#word(`: left unclaimed
            else { match directive_kind(s.subrange((i + 1) as int, j as int)) { Some(k) => Some((k, j)), None => Some((TokenKind::Paste, i + 1)) } }
        }
        else if c == '.' {
            if i + 1 < s.len() && s[(i + 1) as int] == '.' {
                if i + 2 < s.len() && s[(i + 2) as int] == '.' { Some((TokenKind::DotDotDot, i + 3)) } else { None }
            } else { Some((TokenKind::Dot, i + 1)) }
        }
        else { match punct_kind(c) { Some(k) => Some((k, i + 1)), None => None } }
    }
}

// ---------------------------------------------------------------- sequence-level statement of C14
/// `toks` is the reference tokenisation of s[i..]: each element is what ref_lex yields there
pub open spec fn ref_tokens(s: Seq<char>, i: nat, toks: Seq<(TokenKind, nat)>) -> bool
    decreases toks.len()
{
    if toks.len() == 0 { true } else {
        ref_lex(s, i) == Some(toks[0]) && toks[0].1 >= i && ref_tokens(s, toks[0].1, toks.subrange(1, toks.len() as int))
    }
}
/// the function computed by one call of the real lexer, as far as C14 pins it down
pub open spec fn lex_step_ok(s: Seq<char>, i: nat, k: TokenKind, j: nat) -> bool {
    ref_lex(s, i) is Some ==> ref_lex(s, i) == Some((k, j))
}
/// C14, sequence form: a lexer whose every step satisfies lex_step_ok reproduces any valid token sequence
/// exactly (kinds and boundaries), and never reports Error inside it.
pub proof fn lex_sequence(s: Seq<char>, i: nat, toks: Seq<(TokenKind, nat)>, out: Seq<(TokenKind, nat)>)
    requires ref_tokens(s, i, toks), out.len() == toks.len(),
        forall|n: int| 0 <= n < out.len() ==> lex_step_ok(s, if n == 0 { i } else { out[n - 1].1 }, (#[trigger] out[n]).0, out[n].1),
    ensures out =~= toks
    decreases toks.len()
{
    if toks.len() > 0 {
        assert(lex_step_ok(s, i, out[0].0, out[0].1));
        assert(out[0] == toks[0]);
        let t2 = toks.subrange(1, toks.len() as int);
        let o2 = out.subrange(1, out.len() as int);
        assert forall|n: int| 0 <= n < o2.len() implies lex_step_ok(s, if n == 0 { toks[0].1 } else { o2[n - 1].1 }, (#[trigger] o2[n]).0, o2[n].1) by {
            assert(o2[n] == out[n + 1]);
            if n > 0 { assert(o2[n - 1] == out[n]); }
        }
        lex_sequence(s, toks[0].1, t2, o2);
        assert forall|n: int| 0 <= n < out.len() implies out[n] == toks[n] by {
            if n > 0 { assert(o2[n - 1] == out[n]); assert(t2[n - 1] == toks[n]); }
        }
    }
}
/// every directive word consists of ASCII letters only (and is non-empty)
pub proof fn lemma_directive_alpha(w: Seq<char>)
    requires directive_kind(w) is Some
    ensures w.len() > 0, forall|k: int| 0 <= k < w.len() ==> is_alpha(#[trigger] w[k])
{
    reveal_strlit("ifdef"); reveal_strlit("ifndef"); reveal_strlit("else"); reveal_strlit("endif"); reveal_strlit("define");
}
/// `#`: the reference (ASCII letter run, directive only when followed by blank/EOF) expressed over the
/// Unicode-alphabetic run that `char::is_alphabetic` yields
pub proof fn lemma_hash_case(s: Seq<char>, i: nat)
    requires i < s.len(), s[i as int] == '#',
        forall|c: char| is_alpha(c) ==> uni_alphabetic(c),
        forall|c: char| (c as u32) < 128 && uni_alphabetic(c) ==> is_alpha(c),
    ensures ({
        let ju = scan(s, i + 1, p_uni_alpha());
        match ref_lex(s, i) {
            Some(t) => match directive_kind(s.subrange((i + 1) as int, ju as int)) { Some(k) => t == (k, ju), None => t == (TokenKind::Paste, (i + 1) as nat) },
            None => true,
        } })
{
    reveal(ref_lex);
    let ja = scan(s, i + 1, p_alpha());
    let ju = scan(s, i + 1, p_uni_alpha());
    lemma_scan_props(s, i + 1, p_alpha());
    lemma_scan_props(s, i + 1, p_uni_alpha());
    let wu = s.subrange((i + 1) as int, ju as int);
    if ja == i + 1 {
        if directive_kind(wu) is Some {
            lemma_directive_alpha(wu);
            assert(wu[0] == s[(i + 1) as int]);
        }
    } else if ja < s.len() && !is_ws(s[ja as int]) {
    } else {
        assert forall|k: int| i + 1 <= k < ja implies p_uni_alpha()(#[trigger] s[k]) by { assert(p_alpha()(s[k])); }
        if ja < s.len() { assert(!uni_alphabetic(s[ja as int])); }
        lemma_scan_unique(s, i + 1, ja, p_uni_alpha());
    }
}
/// the reference lexer, case by case on the first char, in the vocabulary of the sub-scanner contracts
pub proof fn lemma_ref_lex_cases(s: Seq<char>, i: nat)
    ensures
        i >= s.len() ==> ref_lex(s, i) == Some((TokenKind::Eof, i)),
        i < s.len() ==> ({
            let c = s[i as int];
            let n1 = i + 1 < s.len();
            &&& (is_ws(c) ==> ref_lex(s, i) == Some((TokenKind::Whitespace, scan(s, i + 1, p_ws()))))
            &&& (c == '/' && n1 && s[(i + 1) as int] == '/' ==> ref_lex(s, i) == Some((TokenKind::LineComment, scan(s, i + 2, p_not_nl()))))
            &&& (c == '/' && n1 && s[(i + 1) as int] == '*' ==> ref_lex(s, i) == (match bc_end(s, i + 2, 1) { Some(j) => Some((TokenKind::BlockComment, j)), None => None }))
            &&& (c == '/' && !(n1 && (s[(i + 1) as int] == '/' || s[(i + 1) as int] == '*')) ==> ref_lex(s, i) is None)
            &&& (is_digit(c) || c == '-' || c == '+' ==> ref_lex(s, i) == ref_number(s, i))
            &&& (is_ident_start(c) ==> ref_lex(s, i) == Some((kw_kind(s.subrange(i as int, scan(s, i + 1, p_ident_cont()) as int)), scan(s, i + 1, p_ident_cont()))))
            &&& (c == '"' ==> ref_lex(s, i) == (match str_end(s, i + 1, false) { Some(j) => Some((TokenKind::StrVal, j)), None => None }))
            &&& (c == '$' ==> ref_lex(s, i) == (if n1 && is_ident_start(s[(i + 1) as int]) { Some((TokenKind::VarName, scan(s, i + 2, p_ident_cont()))) } else { None }))
            &&& (c == '[' && n1 && s[(i + 1) as int] == '{' ==> ref_lex(s, i) == (if find2(s, i + 2, '}', ']') < s.len() { Some((TokenKind::CodeFragment, find2(s, i + 2, '}', ']') + 2)) } else { None }))
            &&& (c == '[' && !(n1 && s[(i + 1) as int] == '{') ==> ref_lex(s, i) == Some((TokenKind::LSquare, (i + 1) as nat)))
            &&& (c == '!' ==> ref_lex(s, i) == (match bang_kind(s.subrange((i + 1) as int, scan(s, i + 1, p_alpha()) as int)) { Some(k) => Some((k, scan(s, i + 1, p_alpha()))), None => None }))
            &&& (c == '.' ==> ref_lex(s, i) == (if n1 && s[(i + 1) as int] == '.' { if i + 2 < s.len() && s[(i + 2) as int] == '.' { Some((TokenKind::DotDotDot, (i + 3) as nat)) } else { None } } else { Some((TokenKind::Dot, (i + 1) as nat)) }))
            &&& (c == ']' ==> ref_lex(s, i) == Some((TokenKind::RSquare, (i + 1) as nat)))
            &&& (c == '{' ==> ref_lex(s, i) == Some((TokenKind::LBrace, (i + 1) as nat)))
            &&& (c == '}' ==> ref_lex(s, i) == Some((TokenKind::RBrace, (i + 1) as nat)))
            &&& (c == '(' ==> ref_lex(s, i) == Some((TokenKind::LParen, (i + 1) as nat)))
            &&& (c == ')' ==> ref_lex(s, i) == Some((TokenKind::RParen, (i + 1) as nat)))
            &&& (c == '<' ==> ref_lex(s, i) == Some((TokenKind::Less, (i + 1) as nat)))
            &&& (c == '>' ==> ref_lex(s, i) == Some((TokenKind::Greater, (i + 1) as nat)))
            &&& (c == ':' ==> ref_lex(s, i) == Some((TokenKind::Colon, (i + 1) as nat)))
            &&& (c == ';' ==> ref_lex(s, i) == Some((TokenKind::Semi, (i + 1) as nat)))
            &&& (c == ',' ==> ref_lex(s, i) == Some((TokenKind::Comma, (i + 1) as nat)))
            &&& (c == '=' ==> ref_lex(s, i) == Some((TokenKind::Equal, (i + 1) as nat)))
            &&& (c == '?' ==> ref_lex(s, i) == Some((TokenKind::Question, (i + 1) as nat)))
            &&& (!is_ws(c) && c != '/' && !is_digit(c) && c != '-' && c != '+' && !is_ident_start(c) && c != '"' && c != '$' && c != '[' && c != '!' && c != '#'
                 && c != '.' && punct_kind(c) is None ==> ref_lex(s, i) is None)
        }),
{
    reveal(ref_lex);
}
/// no valid token is an Error token
pub proof fn lemma_ref_never_error(s: Seq<char>, i: nat)
    ensures ref_lex(s, i) is Some ==> ref_lex(s, i).unwrap().0 != TokenKind::Error
{
    reveal(ref_lex);
    reveal_strlit("assert");
}

}
}
