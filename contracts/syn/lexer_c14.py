"""C14 layer on the lexer: functional postconditions that pin every sub-scanner to the reference
lexer `ref_lex` of lexspec.rs (tags C14; table clauses also C20)."""
from splice import C

CH = 'old(self).chars()'
CI = 'old(self).ci()'


def fnfacts(pat, T, spec_yes):
    """ghost prologue linking a function-item pattern to its spec (eat_while/eat_if/eat_until)"""
    return ('proof { '
            'assert forall|c: char| #[trigger] pat_yes::<%s, _>(%s, c) implies %s by { %s(%s, c); } '
            'assert forall|c: char| #[trigger] pat_no::<%s, _>(%s, c) implies !(%s) by { %s(%s, c); } }'
            % (T, pat, spec_yes, 'ax_yes_fn' if T == 'char' else 'ax_yes_fnref', pat,
               T, pat, spec_yes, 'ax_no_fn' if T == 'char' else 'ax_no_fnref', pat))


def add(U):
    U.prelude_files.append('/verif/contracts/syn/lexspec.rs')
    U.prepend('lexer.rs', 'use crate::lexspec::*;')
    F = U.fns

    def ens(name, *clauses):
        F[('lexer.rs', name)].ensures += [C(t, tags, name=nm) for (t, tags, nm) in clauses]

    def pro(name, text):
        fc = F[('lexer.rs', name)]
        fc.tagged_prologue.append((text, 'C14', 'C14 proof hint'))

    # ---- whitespace
    ens('Lexer::whitespace', ('final(self).ci() == scan(%s, %s, p_ws())' % (CH, CI), 'C14', 'whitespace token = maximal run of blanks'))
    pro('Lexer::whitespace', fnfacts('char::is_ascii_whitespace', '&char', 'is_ws(c)'))
    F[('lexer.rs', 'Lexer::whitespace')].body_proofs.append((r'TokenKind::Whitespace', 'proof { lemma_scan_unique(self.chars(), old(self).ci(), self.ci(), p_ws()); }', 'tags=C14'))
    # ---- line comment
    ens('Lexer::line_comment', ('final(self).ci() == scan(%s, %s, p_not_nl())' % (CH, CI), 'C14', 'line comment ends before the newline'))
    pro('Lexer::line_comment', 'proof { assert forall|k: int| #[trigger] pat_at::<char, _>(is_newline, self.chars(), k) implies (0 <= k < self.chars().len() && is_nl(self.chars()[k])) by { ax_at_fn(is_newline, self.chars(), k); } '
        'assert forall|k: int| #[trigger] pat_miss::<char, _>(is_newline, self.chars(), k) implies (0 <= k < self.chars().len() && !is_nl(self.chars()[k])) by { ax_at_fn(is_newline, self.chars(), k); } }')
    F[('lexer.rs', 'Lexer::line_comment')].body_proofs.append((r'TokenKind::LineComment', 'proof { lemma_scan_unique(self.chars(), old(self).ci(), self.ci(), p_not_nl()); }', 'tags=C14'))
    # ---- block comment (nesting)
    ens('Lexer::block_comment', ('match bc_end(%s, %s, 1) { Some(j) => final(self).ci() == j, None => true }' % (CH, CI), 'C14', 'block comments nest; token ends after the matching */'))
    F[('lexer.rs', 'Lexer::block_comment')].loops = {0: dict(
        invariant=['self.adv(old(self))', 'self.lwf()',
                   C('depth > 0 ==> bc_end(self.chars(), old(self).ci(), 1) == bc_end(self.chars(), self.ci(), depth as nat)', 'C14', name='block comment: the depth counter mirrors the nesting of /* and */'),
                   C('depth == 0 ==> bc_end(self.chars(), old(self).ci(), 1) == Some(self.ci())', 'C14', name='block comment ends at the */ that closes the outermost /*'),
                   '2 * (depth as int - 1) <= self.ci() - old(self).ci()'],
        decreases='self.chars().len() - self.ci()',
        body_prologue='proof { lemma_enc_len(self.chars()); lemma_mono_ind(self.chars(), 0, self.chars().len()); reveal_strlit("*/"); reveal_strlit("/*"); let r = rest(&self.s); assert(r.len() >= 2 ==> r.subrange(0, 2) =~= seq![r[0], r[1]]); assert("*/"@ =~= seq![\'*\', \'/\']); assert("/*"@ =~= seq![\'/\', \'*\']); }')}
    # ---- identifier / keywords
    ens('Lexer::identifier',
        ('final(self).ci() == scan(%s, %s, p_ident_cont())' % (CH, CI), 'C14', 'identifier = maximal run of [A-Za-z0-9_]'),
        ('forall|si: nat| si <= %s && boff(%s, si) == start ==> ret == kw_kind(%s.subrange(si as int, final(self).ci() as int))' % (CI, CH, CH),
         'C14 C20', 'keyword table: the identifier text decides the kind'))
    pro('Lexer::identifier', fnfacts('is_identifier_continue', 'char', 'is_ident_cont(c)'))
    F[('lexer.rs', 'Lexer::identifier')].body_proofs.append((r'match ident \{', 'proof { lemma_scan_unique(self.chars(), old(self).ci(), self.ci(), p_ident_cont()); }', 'tags=C14'))
    # ---- bang operators
    ens('Lexer::bangoperator',
        ('final(self).ci() == scan(%s, %s, p_alpha())' % (CH, CI), 'C14', 'operator name = maximal run of letters'),
        ('bang_kind(%s.subrange(%s as int, final(self).ci() as int)) is Some ==> ret == bang_kind(%s.subrange(%s as int, final(self).ci() as int)).unwrap()' % (CH, CI, CH, CI),
         'C14 C20', 'bang operator table: every operator of the reference gets its own kind'),
        ('bang_kind(%s.subrange(%s as int, final(self).ci() as int)) is None ==> ret == TokenKind::Error' % (CH, CI),
         'C20', 'bang operator table: the lexer accepts no operator outside the table the completion list is checked against'))
    pro('Lexer::bangoperator', fnfacts('char::is_ascii_alphabetic', '&char', 'is_alpha(c)') + ' proof { lemma_boff_mono(self.chars()); }')
    F[('lexer.rs', 'Lexer::bangoperator')].body_proofs.append((r'match ident \{', 'proof { lemma_scan_unique(self.chars(), old(self).ci(), self.ci(), p_alpha()); assert(ident@ == self.chars().subrange(old(self).ci() as int, self.ci() as int)); }', 'tags=C14'))
    # ---- var name
    ens('Lexer::var_name',
        ('%s < %s.len() && is_ident_start(%s[%s as int]) ==> ret == TokenKind::VarName && final(self).ci() == scan(%s, %s + 1, p_ident_cont())' % (CI, CH, CH, CI, CH, CI),
         'C14', '$name'))
    pro('Lexer::var_name', fnfacts('is_identifier_continue', 'char', 'is_ident_cont(c)') +
        ' proof { assert forall|r: Seq<char>| #[trigger] pat_mlen::<char, _>(is_identifier_start, r) == (if r.len() > 0 && is_ident_start(r[0]) { Some(1nat) } else { None::<nat> }) by { ax_pat_fn(is_identifier_start, r); } }')
    F[('lexer.rs', 'Lexer::var_name')].body_proofs.append((r'TokenKind::VarName', 'proof { if old(self).ci() < self.chars().len() && is_ident_start(self.chars()[old(self).ci() as int]) && old(self).ci() + 1 <= self.ci() { lemma_scan_unique(self.chars(), old(self).ci() + 1, self.ci(), p_ident_cont()); } }', 'tags=C14'))
    # ---- code fragment
    ens('Lexer::code_fragment',
        ("find2(%s, %s, '}', ']') < %s.len() ==> ret == TokenKind::CodeFragment && final(self).ci() == find2(%s, %s, '}', ']') + 2" % (CH, CI, CH, CH, CI),
         'C14', '[{ ... }] ends at the first }]'))
    pro('Lexer::code_fragment',
        'proof { reveal_strlit("}]"); assert("}]"@ =~= seq![\'}\', \']\']); '
        'assert forall|k: int| #[trigger] pat_at::<(), &str>("}]", self.chars(), k) == (0 <= k && k + 1 < self.chars().len() && self.chars()[k] == \'}\' && self.chars()[k + 1] == \']\') by { '
        'ax_at_str("}]", self.chars(), k); if 0 <= k && k + 2 <= self.chars().len() { assert(self.chars().subrange(k, k + 2) =~= seq![self.chars()[k], self.chars()[k + 1]]); } } '
        'assert forall|k: int| #[trigger] pat_miss::<(), &str>("}]", self.chars(), k) == !(0 <= k && k + 1 < self.chars().len() && self.chars()[k] == \'}\' && self.chars()[k + 1] == \']\') by { '
        'ax_at_str("}]", self.chars(), k); if 0 <= k && k + 2 <= self.chars().len() { assert(self.chars().subrange(k, k + 2) =~= seq![self.chars()[k], self.chars()[k + 1]]); } } }')
    F[('lexer.rs', 'Lexer::code_fragment')].body_proofs.append((r'if self\.s\.eat_if\("\}\]"\)', 'proof { lemma_find2_unique(self.chars(), old(self).ci(), self.ci(), \'}\', \']\'); let r = rest(&self.s); if r.len() >= 2 { assert(r.subrange(0, 2) =~= seq![r[0], r[1]]); } }', 'tags=C14'))
    # ---- string
    ens('Lexer::string',
        ('match str_end(%s, %s, false) { Some(j) => ret == TokenKind::StrVal && final(self).ci() == j, None => true }' % (CH, CI), 'C14', 'string literal with escapes'))
    lp = F[('lexer.rs', 'Lexer::string')].loops[0]
    lp['invariant_except_break'] = [C('str_end(self.chars(), old(self).ci(), false) is Some ==> str_end(self.chars(), old(self).ci(), false) == str_end(self.chars(), self.ci(), escaped)', 'C14', name='string literal: the closing quote is the first unescaped one (escape state tracked correctly)')]
    lp['ensures'] = [C('str_end(self.chars(), old(self).ci(), false) is Some ==> str_end(self.chars(), old(self).ci(), false) == Some(self.ci())', 'C14', name='string literal ends at its closing quote')]
    # ---- preprocessor directives / paste
    ens('Lexer::preprocessor',
        ('match directive_kind(%s.subrange(%s as int, scan(%s, %s, p_uni_alpha()) as int)) { Some(k) => ret == k && final(self).ci() == scan(%s, %s, p_uni_alpha()), None => ret == TokenKind::Paste && final(self).ci() == %s }' % (CH, CI, CH, CI, CH, CI, CI),
         'C14', '#ifdef/#ifndef/#else/#endif/#define, else paste'))
    pro('Lexer::preprocessor', 'proof { assert forall|c: char| #[trigger] pat_yes::<char, _>(char::is_alphabetic, c) implies uni_alphabetic(c) by { ax_yes_fn(char::is_alphabetic, c); } '
        'assert forall|c: char| #[trigger] pat_no::<char, _>(char::is_alphabetic, c) implies !uni_alphabetic(c) by { ax_no_fn(char::is_alphabetic, c); } }')
    F[('lexer.rs', 'Lexer::preprocessor')].body_proofs.append((r'match ident \{', 'proof { lemma_scan_unique(self.chars(), old(self).ci(), self.ci(), p_uni_alpha()); }', 'tags=C14'))
    # ---- numbers
    fc = F[('lexer.rs', 'Lexer::number')]
    fc.requires += [C('%s >= 1 && boff(%s, (%s - 1) as nat) == start && c == %s[%s - 1]' % (CI, CH, CI, CH, CI), 'C14', name='number() is entered after its first char'),
                    C("is_digit(c) || c == '+' || c == '-'", 'C14')]
    ens('Lexer::number',
        ('match ref_number(%s, (%s - 1) as nat) { Some(t) => ret == t.0 && final(self).ci() == t.1, None => true }' % (CH, CI), 'C14', 'numbers, signs and digit-leading identifiers'))
    fc.closures = {0: dict(params='c: char', ret='r: bool', ensures=['r == is_bin(c)'], bind='__cl0',
                           after_call='proof { assert forall|x: char| #[trigger] pat_yes::<char, _>(__cl0, x) implies is_bin(x) by { ax_yes_fn(__cl0, x); } '
                                      'assert forall|x: char| #[trigger] pat_no::<char, _>(__cl0, x) implies !is_bin(x) by { ax_no_fn(__cl0, x); } '
                                      'lemma_scan_unique(self.chars(), old(self).ci() + 1, self.ci(), p_bin()); }')}
    fc.prologue = (fc.prologue or '') + ' ' + fnfacts('char::is_ascii_digit', '&char', 'is_digit(c)') + ' ' + fnfacts('char::is_ascii_hexdigit', '&char', 'is_hex(c)') + (
        ' proof { lemma_boff_mono(self.chars()); let i0 = (self.ci() - 1) as nat; if is_digit(c) { lemma_kw_digit_all(self.chars(), i0); } '
        'assert forall|r: Seq<char>| #[trigger] pat_mlen::<char, _>(is_identifier_start, r) == (if r.len() > 0 && is_ident_start(r[0]) { Some(1nat) } else { None::<nat> }) by { ax_pat_fn(is_identifier_start, r); } }')
    fc.body_proofs.append((r'if base == 10 && c\.is_ascii_digit\(\)',
        'proof { if base == 2 { } '
        'else if base == 16 { lemma_scan_unique(self.chars(), old(self).ci() + 1, self.ci(), p_hex()); } '
        'else { lemma_scan_unique(self.chars(), old(self).ci(), self.ci(), p_digit()); } }', 'tags=C14'))
    U.fns[('lexer.rs', 'interpret_number')].ensures = [C('ret.is_some() == num_ok(text@)', 'C14')]
    # ---- the dispatcher
    F[('lexer.rs', 'Lexer::next_token')].attrs += ['spinoff_prover', 'rlimit(60)']
    pro('Lexer::next_token', 'proof { lemma_ref_lex_cases(self.chars(), self.ci()); lemma_ref_never_error(self.chars(), self.ci()); '
        'if self.ci() < self.chars().len() && self.chars()[self.ci() as int] == \'#\' { '
        'assert forall|c: char| is_alpha(c) implies uni_alphabetic(c) by { ax_alphabetic(c); } '
        'assert forall|c: char| (c as u32) < 128 && uni_alphabetic(c) implies is_alpha(c) by { ax_alphabetic(c); } '
        'lemma_hash_case(self.chars(), self.ci()); } }')
    ens('Lexer::next_token',
        ('match ref_lex(%s, %s) { Some(t) => ret == t.0 && final(self).ci() == t.1, None => true }' % (CH, CI), 'C14',
         'every valid reference token is lexed with exactly its kind and boundaries'),
        ('ref_lex(%s, %s) is Some ==> ret != TokenKind::Error' % (CH, CI), 'C14', 'no lexical error on a valid token'))
