def add(U):
    pass
