"""Contracts of the grammar functions (grammar.rs, grammar/{statement,value,type}.rs).

Every grammar function gets the same frame, instantiated from a small table:

  requires  inv(false) of the parser, an open node (so that finish_node is legal)
  ensures   inv_s (C01,C02), inv_t (C01: tiling preserved), same_shape (builder balanced:
            parents stack unchanged, children only added), fuel' <= fuel (C02)
  decreases (old(p).fuel(), RANK)   -- lexicographic; RANK orders calls made without
                                       consuming a token (computed once from the call graph,
                                       then fixed here)
`strict` functions additionally require a look-ahead kind and ensure fuel' < fuel; that is
what closes the recursion value -> ... -> value and statement -> ... -> statement.
"""
from splice import C

BOTH = 'C01 C02'

RANK = {'statement::include': 0, 'statement::r#assert': 1, 'statement::class': 2, 'statement::def': 3, 'statement::defm': 4,
        'statement::defset': 5, 'statement::defvar': 6, 'statement::dump': 7, 'statement::foreach': 8, 'statement::r#if': 9,
        'statement::r#let': 10, 'statement::multi_class': 11, 'statement::statement': 12, 'statement::statement_list': 13,
        'source_file': 14, 'delimited': 15, 'value::integer': 16, 'value::string': 17, 'value::code': 18, 'value::boolean': 19,
        'value::uninitialized': 20, 'value::value_list': 21, 'value::bits': 22, 'r#type::bit_type': 23, 'r#type::int_type': 24,
        'r#type::string_type': 25, 'r#type::dag_type': 26, 'r#type::bits_type': 27, 'r#type::list_type': 28, 'r#type::code_type': 29,
        'value::identifier': 30, 'r#type::class_id': 31, 'r#type::r#type': 32, 'value::list': 33, 'value::dag': 34,
        'value::identifier_or_class_value': 35, 'value::bang_operator': 36, 'value::cond_operator': 37, 'value::simple_value': 38,
        'value::range_suffix': 39, 'value::slice_suffix': 40, 'value::field_suffix': 41, 'value::value_suffix': 42,
        'value::inner_name_value': 43, 'value::name_value': 44, 'value::opt_name_value': 45, 'statement::object_name': 46,
        'value::range_piece': 47, 'value::range_list': 48, 'value::inner_value': 49, 'value::value': 50, 'statement::let_item': 51,
        'statement::let_list': 52, 'statement::multi_class_statement': 53, 'statement::multi_class_statements': 54,
        'statement::foreach_iterator_init': 55, 'statement::foreach_iterator': 56, 'statement::template_arg_decl': 57,
        'statement::template_arg_list': 58, 'statement::opt_template_arg_list': 59, 'statement::positional_arg_value': 60,
        'statement::named_arg_value': 61, 'statement::arg_value': 62, 'statement::arg_value_list': 63, 'statement::class_ref': 64,
        'statement::parent_class_list': 65, 'statement::field_def': 66, 'statement::field_let': 67, 'statement::body_item': 68,
        'statement::body': 69, 'statement::record_body': 70, 'value::opt_value': 71, 'value::slice_element': 72,
        'value::slice_elements': 73, 'value::var_name': 74, 'value::dagarg': 75, 'value::dagarg_list': 76, 'value::cond_clause': 77}

FILES = {'': 'grammar.rs', 'statement': 'grammar/statement.rs', 'value': 'grammar/value.rs', 'r#type': 'grammar/type.rs'}

REQ = [C('old(p).inv(false)', BOTH), C('old(p).open_node()', 'C02', name='called inside an open node')]
ENS = [C('final(p).inv_s(false)', 'C02', name='parser invariant preserved'),
       C('final(p).inv_t(false)', 'C01', name='tiling preserved: builder text == input prefix before the look-ahead'),
       C('final(p).same_shape(old(p))', 'C02', name='builder balanced: every start_node has its finish_node'),
       C('final(p).fuel() <= old(p).fuel()', 'C02', name='never un-consumes input')]
LT = C('final(p).fuel() < old(p).fuel()', 'C02', name='consumes at least one token')


def KW(k):
    return 'crate::token_kind::TokenKind::' + k


def node_loop(extra=()):
    return dict(invariant=['p.inv(false)', 'p.in_node(old(p))', 'p.fuel() <= old(p).fuel()'] + list(extra), decreases='p.fuel()')


def flat_loop(extra=()):
    return dict(invariant=['p.inv(false)', 'p.open_node()', 'p.same_shape(old(p))', 'p.fuel() <= old(p).fuel()'] + list(extra), decreases='p.fuel()')


def add(U):
    U.generators.append(auto_contracts)
    U.append('parser.rs', '''
impl<T: TokenStream> ParserBase<T> {
    /// loop-invariant shape inside a grammar function that has opened its node
    pub open spec fn in_node(&self, o: &Self) -> bool {
        self.bv().parents =~= o.bv().parents.push(o.bv().n) && self.bv().n >= o.bv().n && self.srcv() == o.srcv()
        && self.bnd() == o.bnd()
    }
}
pub open spec fn is_type_first(k: TokenKind) -> bool {
    k == TokenKind::Bit || k == TokenKind::Int || k == TokenKind::String || k == TokenKind::Dag
    || k == TokenKind::Bits || k == TokenKind::List || k == TokenKind::Code || k == TokenKind::Id
}
''')

    for f in ('grammar.rs', 'grammar/statement.rs', 'grammar/value.rs', 'grammar/type.rs'):
        U.prepend(f, 'broadcast use {ax_msg_str};')

    def g(mod, name, strict=None, req=(), ens=(), loops=None, closures=None, prologue=None, lt_if=None, ret_ens=(), body_proofs=None):
        key = (mod + '::' if mod else '') + name
        r = list(REQ) + [C(x, 'C02') if isinstance(x, str) else x for x in req]
        e = list(ENS) + list(ens) + list(ret_ens)
        if strict is not None:
            if isinstance(strict, str):
                r.append(C('old(p).cur() == %s' % KW(strict), 'C02', name='look-ahead is ' + strict))
            else:
                r.append(C(' || '.join('old(p).cur() == %s' % KW(k) for k in strict), 'C02'))
            e.append(LT)
        if lt_if:
            e.append(C('%s ==> final(p).fuel() < old(p).fuel()' % lt_if, 'C02', name='consumes when ' + lt_if))
        fc = U.fn(FILES[mod], name, requires=r, ensures=e, decreases='old(p).fuel(), %dnat' % (RANK[key] * 1000),
                  loops=loops or {}, closures=closures or {}, prologue=prologue, body_proofs=body_proofs or [])
        if name != 'delimited':
            fc.uniform_loops = True

    # closure contract used with delimited(): may only be called with less fuel than the enclosing function had
    def clos():
        return {0: dict(params='p: &mut Parser',
                        requires=['old(p).inv(false)', 'old(p).open_node()', 'old(p).fuel() < f0'],
                        ensures=['final(p).inv(false)', 'final(p).same_shape(old(p))', 'final(p).fuel() <= old(p).fuel()'])}
    F0 = 'let ghost f0 = p.fuel();'

    # ---------------- grammar.rs
    g('', 'source_file',
      req=[C('old(p).bv().parents.len() == 0 && old(p).bv().n == 0', 'C02')],
      ens=[C('final(p).bv().parents.len() == 0 && final(p).bv().n == 1', 'C02', name='exactly one root node is built'),
           C('final(p).srcv() == old(p).srcv() && final(p).bnd() == old(p).bnd()', BOTH),
           C('final(p).cur() == crate::token_kind::TokenKind::Eof', 'C01', name='source_file stops only at end of input')])
    U.fns[('grammar.rs', 'source_file')].requires = [c for c in U.fns[('grammar.rs', 'source_file')].requires if 'open_node' not in c.text]
    U.fns[('grammar.rs', 'source_file')].ensures = [c for c in U.fns[('grammar.rs', 'source_file')].ensures if 'same_shape' not in c.text]
    DEL_Q = ('forall|q: &mut Parser| #![trigger parser.requires((q,))] (*q).inv(false) && (*q).open_node() && (*q).srcv() == old(p).srcv() '
             '&& (*q).bnd() == old(p).bnd() && (*q).fuel() <= old(p).fuel() '
             '&& (old(p).cur() == bra && bra != crate::token_kind::TokenKind::Eof ==> (*q).fuel() < old(p).fuel()) ==> parser.requires((q,))')
    DEL_E = ('forall|q: &mut Parser, r: ()| #![trigger parser.ensures((q,), r)] parser.ensures((q,), r) ==> '
             'final(q).inv(false) && final(q).same_shape(&*q) && final(q).fuel() <= (*q).fuel()')
    g('', 'delimited',
      req=[C('delim != crate::token_kind::TokenKind::Eof', 'C02', name='delimiter is a real token (loop progress)'),
           C(DEL_Q, BOTH, name='element parser may be called on any smaller-or-equal state'),
           C(DEL_E, BOTH, name='element parser preserves the invariant')],
      lt_if='old(p).cur() == bra && bra != crate::token_kind::TokenKind::Eof',
      loops={0: dict(invariant=['p.inv(false)', 'p.open_node()', 'p.same_shape(old(p))', 'p.fuel() <= old(p).fuel()',
                                'delim != crate::token_kind::TokenKind::Eof',
                                'old(p).cur() == bra && bra != crate::token_kind::TokenKind::Eof ==> p.fuel() < old(p).fuel()',
                                DEL_Q, DEL_E],
                     decreases='p.fuel()')})

    # ---------------- statement.rs
    S = 'statement'
    top = ['!p.cur().spec_is_trivia()']
    g(S, 'statement_list',
      ens=[C('typ is TopLevel ==> final(p).cur() == crate::token_kind::TokenKind::Eof', 'C01', name='top level consumes the whole input')],
      loops={0: node_loop(), 1: node_loop(), 2: node_loop()})
    g(S, 'statement', lt_if='old(p).cur() != crate::token_kind::TokenKind::Eof')
    g(S, 'include', strict='Include')
    g(S, 'class', strict='Class')
    g(S, 'def', strict='Def')
    g(S, 'object_name')
    g(S, 'r#let', strict='Let')
    g(S, 'let_list', loops={0: node_loop()})
    g(S, 'let_item')
    g(S, 'multi_class', strict='MultiClass')
    g(S, 'multi_class_statements', loops={0: node_loop()})
    g(S, 'multi_class_statement', lt_if='old(p).cur() != crate::token_kind::TokenKind::Eof')
    g(S, 'defm', strict='Defm')
    g(S, 'defset', strict='Defset')
    g(S, 'defvar', strict='Defvar')
    g(S, 'dump', strict='Dump')
    g(S, 'foreach', strict='Foreach')
    g(S, 'foreach_iterator')
    g(S, 'foreach_iterator_init')
    g(S, 'r#if', strict='If')
    g(S, 'r#assert', strict='Assert')
    g(S, 'opt_template_arg_list')
    g(S, 'template_arg_list', strict='Less')
    g(S, 'template_arg_decl')
    g(S, 'record_body')
    g(S, 'parent_class_list', loops={0: node_loop()})
    g(S, 'class_ref')
    g(S, 'arg_value_list', loops={0: node_loop()})
    g(S, 'arg_value')
    CPREQ = [C('old(p).bv().parents.last() <= cp_val(checkpoint) <= old(p).bv().n', 'C02', name='checkpoint lies inside the open node')]
    CPENS = [C('final(p).bv().n == cp_val(checkpoint) + 1', 'C02')]
    g(S, 'positional_arg_value', req=CPREQ, ens=CPENS)
    g(S, 'named_arg_value', req=CPREQ, ens=CPENS)
    for nm in ('positional_arg_value', 'named_arg_value'):
        fc = U.fns[(FILES[S], nm)]
        fc.ensures = [c for c in fc.ensures if 'same_shape' not in c.text] + [
            C('final(p).bv().parents =~= old(p).bv().parents && final(p).srcv() == old(p).srcv() && final(p).bnd() == old(p).bnd()', 'C02')]
    g(S, 'body', loops={0: node_loop()})
    g(S, 'body_item', lt_if='ret')
    g(S, 'field_def', req=[C('crate::parser::is_type_first(old(p).cur()) || old(p).cur() == %s' % KW('Field'), 'C02')], ens=[LT])
    g(S, 'field_let', strict='Let')

    # ---------------- value.rs
    V = 'value'
    g(V, 'opt_value')
    g(V, 'value', loops={0: node_loop()})
    g(V, 'inner_value', loops={0: node_loop()})
    g(V, 'opt_name_value')
    g(V, 'name_value', loops={0: node_loop()})
    g(V, 'inner_name_value', loops={0: node_loop()})
    g(V, 'value_suffix', lt_if='ret')
    g(V, 'range_suffix', strict='LBrace')
    g(V, 'range_list', loops={0: node_loop()})
    g(V, 'range_piece')
    g(V, 'slice_suffix', strict='LSquare')
    g(V, 'slice_elements', loops={0: node_loop()})
    g(V, 'slice_element')
    g(V, 'field_suffix', strict='Dot')
    g(V, 'simple_value')
    for nm, k in [('integer', None), ('code', 'CodeFragment'), ('uninitialized', 'Question'), ('var_name', 'VarName'), ('identifier', 'Id')]:
        g(V, nm, lt_if=('old(p).cur() == %s' % KW(k)) if k else None)
    g(V, 'boolean')
    g(V, 'string', loops={0: node_loop()})
    g(V, 'bits', strict='LBrace')
    g(V, 'list', strict='LSquare')
    g(V, 'value_list', req=[C('old(p).cur() == bra && bra != crate::token_kind::TokenKind::Eof', 'C02', name='value_list starts at its opening bracket')],
      ens=[LT], closures=clos(), prologue=F0)
    g(V, 'dag', strict='LParen')
    g(V, 'dagarg_list', loops={0: node_loop()})
    g(V, 'dagarg')
    g(V, 'identifier_or_class_value', strict='Id',
      body_proofs=[(r'p\.builder\(\)\.start_node_at', 'let ghost p0 = *p;'),
                   (r'statement::arg_value_list\(p\);', 'proof { crate::parser::ParserBase::lemma_builder_start_node_at(&p0, &*p, cp_val(c)); }')])
    g(V, 'bang_operator', closures=clos(), prologue=F0)
    g(V, 'cond_operator', strict='XCond', closures=clos(), prologue=F0)
    g(V, 'cond_clause')

    # ---------------- type.rs
    T = 'r#type'
    g(T, 'r#type', lt_if='crate::parser::is_type_first(old(p).cur())')
    g(T, 'bit_type', strict='Bit')
    g(T, 'int_type', strict='Int')
    g(T, 'string_type', strict='String')
    g(T, 'dag_type', strict='Dag')
    g(T, 'bits_type', strict='Bits')
    g(T, 'list_type', strict='List')
    g(T, 'class_id', lt_if='old(p).cur() == %s' % KW('Id'))
    g(T, 'code_type', strict='Code')


# ---------------------------------------------------------------------------------------------------------------------
# Robustness: a grammar function that has no entry above (a helper introduced by a refactoring) gets the standard weak
# contract, standard loop invariants and a rank placed between its same-fuel callers and callees, computed from the call
# graph of the source at hand.  Without this a new helper inside the recursion would make Verus reject the whole unit.
import re as _re


def stmt_loop_clause(sp, f, lp, spec):
    """C20: a loop that parses statements (its body calls statement(p)) may only stop in front of a token that cannot start one"""
    body = sp.src[f][lp['body'][0]:lp['body'][1]].decode()
    if _re.search(r'(?<![a-z_])statement\(p\)', body):
        spec['after_loop'] = spec.get('after_loop', []) + [('!crate::grammar::statement::is_stmt_start(p.cur())', 'C20',
                                                             'a statement loop stops only in front of a token that cannot start a statement')]


def auto_contracts(sp):
    U = sp.u
    from splice import FnContract
    mods = {'grammar.rs': '', 'grammar/statement.rs': 'statement', 'grammar/value.rs': 'value', 'grammar/type.rs': 'r#type'}
    fns = {}
    for f, mod in mods.items():
        if f not in sp.anch:
            continue
        data = sp.src[f]
        for r in sp.anch[f]:
            if r['rec'] == 'fn' and not r['cfg_test'] and r['body']:
                fns[(mod, r['name'])] = (f, r, data[r['body'][0]:r['body'][1]].decode())
    names = {}
    for (m, n) in fns:
        names.setdefault(n, []).append(m)

    def calls(m, body):
        out = []
        for mm in _re.finditer(r'(?:(statement|value|r#type)::)?\b(r#[a-z_]+|[a-z_]+)\b\s*(\(|[,)])', body):
            q, nm, _ = mm.groups()
            if nm not in names or body[:mm.start()].rstrip().endswith('.'):
                continue
            tm = q if q else (m if m in names[nm] else names[nm][0])
            out.append((tm, nm))
        return out

    def rank_of(k):
        key = (k[0] + '::' if k[0] else '') + k[1]
        return RANK[key] * 1000 if key in RANK else None

    # known grammar functions: the uniform loop invariant goes on every loop the function has NOW (robust against a loop
    # being added, removed or moved into a helper); functions with a hand-written invariant (delimited) keep it
    for k, (f, r, body) in fns.items():
        fc = U.fns.get((f, r['path']))
        if fc is None or getattr(fc, 'uniform_loops', None) is None:
            continue
        fc.loops = {}
        for i, lp in enumerate(r['loops']):
            before = sp.src[f][r['body'][0]:lp['span'][0]].decode()
            fc.loops[i] = node_loop() if 'p.start_node(' in before else flat_loop()
            stmt_loop_clause(sp, f, lp, fc.loops[i])
    new = [k for k, (f, r, b) in fns.items() if (f, r['path']) not in U.fns and any(p.get('name') == 'p' and p.get('mut_ref') for p in r['params'])]
    for k in new:
        f, r, body = fns[k]
        lo = max([rank_of(c) for c in calls(k[0], body) if rank_of(c) is not None] + [0])
        his = [rank_of(c) for c, (cf, cr, cb) in fns.items() if k in calls(c[0], cb) and rank_of(c) is not None]
        hi = min([h for h in his if h > lo] + [lo + 1000])
        rank = (lo + hi) // 2
        loops = {}
        for i, lp in enumerate(r['loops']):
            before = sp.src[f][r['body'][0]:lp['span'][0]].decode()
            loops[i] = node_loop() if 'p.start_node(' in before else flat_loop()
            stmt_loop_clause(sp, f, lp, loops[i])
        fc = FnContract(f, r['path'], requires=list(REQ), ensures=list(ENS), decreases='old(p).fuel(), %dnat' % rank, loops=loops)
        fc.auto = True
        U.fns[(f, r['path'])] = fc
        sp.g.auto_contracted = getattr(sp.g, 'auto_contracted', []) + ['%s:%s (rank %d)' % (f, r['path'], rank)]
