"""C20: the completion vocabulary (real const tables of crates/ide/src/handlers/completion.rs, hoisted verbatim)
against the lexer tables (kw_kind / bang_kind, which the real lexer is proved to implement: clauses tagged C14 C20)
and the parser's statement dispatch.  One generated obligation per table entry, so a finding names one literal."""
import re
from splice import C

COMP = '../../ide/src/handlers/completion.rs'

KW_LITS = ['assert', 'bit', 'bits', 'class', 'code', 'dag', 'def', 'defm', 'defset', 'defvar', 'dump', 'else', 'field', 'foreach', 'if', 'in',
           'include', 'int', 'let', 'list', 'multiclass', 'string', 'then', 'true', 'false']


def reveal(lits):
    return ' '.join('reveal_strlit("%s");' % l for l in lits)


def distinct(w, chain):
    """ghost hints: w differs from every literal that precedes it in the if-chain of the spec table"""
    out = []
    for L in chain:
        if L == w:
            break
        if len(L) != len(w):
            out.append('assert(w@.len() != "%s"@.len());' % L)
        else:
            d = next(i for i in range(len(w)) if w[i] != L[i])
            out.append('assert(w@[%d] != "%s"@[%d]);' % (d, L, d))
    return ' '.join(out)


def spec_bang_words():
    txt = open('/verif/contracts/syn/lexspec.rs').read()
    body = txt[txt.index('pub open spec fn bang_kind'):txt.index('pub open spec fn directive_kind')]
    return re.findall(r'w == "(\w+)"@ \{ Some\(TokenKind::(\w+)\)', body)


def add(U):
    U.extra_files.append((COMP, 'completion'))
    U.tables_only_files = getattr(U, 'tables_only_files', set()) | {COMP}
    U.hoist_nested_consts = True
    U.prepend(COMP, 'use crate::lexspec::*;\nuse crate::token_kind::TokenKind;')
    U.drop_item(COMP, 'use', r'use syntax::.*', 'R9', 'imports of crates outside the unit')
    U.drop_item(COMP, 'use', r'use crate::.*', 'R9', 'imports of modules outside the unit')
    U.fn(COMP, 'exec', drop='uses the salsa database, rowan cursor API and the symbol map (outside the unit)')
    U.fn(COMP, 'CompletionContext::complete_classes', drop='uses the symbol map (class-name completion is not decided)')
    for f in ('CompletionItem::new_simple', 'CompletionItem::new_snippet', 'CompletionContext::new', 'CompletionContext::finish'):
        U.fn(COMP, f, attrs=['external_body'], no_ret=True)
    # the loops `for &kw in &TABLE` use ref patterns (unsupported by Verus): bodies are not verified; it is
    # ASSUMED that each function offers exactly the entries of its table (and the literal snippet labels)
    for f in ('complete_toplevel_keywords', 'complete_primitive_types', 'complete_primitive_values', 'complete_bang_operators'):
        U.fn(COMP, 'CompletionContext::' + f, attrs=['external_body'], no_ret=True)
    # parser side: the default arm of statement() is unreachable for a statement keyword
    U.append('grammar/statement.rs', '''
/// the kinds that start a top-level statement (grammar: Statement ::= Include | Assert | Class | Def | Defm | Defset | Defvar | Dump | Foreach | If | Let | MultiClass)
pub open spec fn is_stmt_start(k: TokenKind) -> bool {
    k == TokenKind::Include || k == TokenKind::Assert || k == TokenKind::Class || k == TokenKind::Def || k == TokenKind::Defm || k == TokenKind::Defset
    || k == TokenKind::Defvar || k == TokenKind::Dump || k == TokenKind::Foreach || k == TokenKind::If || k == TokenKind::Let || k == TokenKind::MultiClass
}
''')
    fc = U.fns[('grammar/statement.rs', 'statement')]
    fc.wrap_exprs = getattr(fc, 'wrap_exprs', []) + [
        (r'p\.error_and_eat\("expected class, def[^"]*"\)', 'proof { assert(!is_stmt_start(p.cur())); }', 'C20',
         'statement(): the error arm is unreachable when the look-ahead is a statement keyword')]
    U.generators.append(generate)


def generate(sp):
    U = sp.u
    recs = sp.anch[COMP]
    tables = {}
    snippet_labels = {}
    src = sp.src[COMP].decode()
    for r in recs:
        if r['rec'] != 'fn':
            continue
        for c in r.get('consts', []):
            if c['str_array']:
                tables[c['name']] = [e['value'] for e in c['elems']]
        if r['name'] == 'complete_primitive_types' and r['body']:
            body = sp.src[COMP][r['body'][0]:r['body'][1]].decode()
            snippet_labels['complete_primitive_types'] = re.findall(r'new_(?:snippet|simple)\(\s*"(\w+)"', body)
    out = []

    def ob(name, tags, desc, body, finding=None):
        sp.g.inserted[name] = dict(tags=tags, finding=finding, desc=desc)
        out.append('fn %s() { %s }' % (name, body))

    def ident_ok(w):
        return 'w@.len() > 0 && is_ident_start(w@[0]) && (forall|k: int| 0 <= k < w@.len() ==> is_ident_cont(#[trigger] w@[k]))'
    # (i) offered keywords / types / booleans are keywords of the lexer
    for i, w in enumerate(tables.get('TOPLEVEL_KEYWORDS', [])):
        ob('c20_toplevel_kw_%d' % i, 'C20', 'offered top-level keyword "%s" lexes as a keyword that starts a statement' % w,
           ('let w = TOPLEVEL_KEYWORDS[%d]; proof { reveal_strlit("%s"); %s } ' + distinct(w, KW_LITS) + ' assert(%s); assert(kw_kind(w@) != TokenKind::Id); assert(crate::grammar::statement::is_stmt_start(kw_kind(w@)));')
           % (i, w, reveal(KW_LITS), ident_ok(w)), finding='C20:toplevel:%s' % w)
    for i, w in enumerate(tables.get('PRIMITIVE_TYPES', [])):
        ob('c20_primitive_type_%d' % i, 'C20', 'offered type "%s" lexes as a type keyword' % w,
           ('let w = PRIMITIVE_TYPES[%d]; proof { reveal_strlit("%s"); %s } ' + distinct(w, KW_LITS) + ' assert(%s); assert(crate::parser::is_type_first(kw_kind(w@)) && kw_kind(w@) != TokenKind::Id);')
           % (i, w, reveal(KW_LITS), ident_ok(w)), finding='C20:type:%s' % w)
    for i, w in enumerate(snippet_labels.get('complete_primitive_types', [])):
        ob('c20_snippet_type_%d' % i, 'C20', 'offered type snippet "%s" lexes as a type keyword' % w,
           ('let w = "%s"; proof { reveal_strlit("%s"); %s } ' + distinct(w, KW_LITS) + ' assert(%s); assert(crate::parser::is_type_first(kw_kind(w@)) && kw_kind(w@) != TokenKind::Id);')
           % (w, w, reveal(KW_LITS), ident_ok(w)), finding='C20:type:%s' % w)
    for i, w in enumerate(tables.get('BOOLEAN_VALUES', [])):
        ob('c20_boolean_%d' % i, 'C20', 'offered value "%s" lexes as a boolean literal' % w,
           ('let w = BOOLEAN_VALUES[%d]; proof { reveal_strlit("%s"); %s } ' + distinct(w, KW_LITS) + ' assert(%s); assert(kw_kind(w@) == TokenKind::TrueVal || kw_kind(w@) == TokenKind::FalseVal);')
           % (i, w, reveal(KW_LITS), ident_ok(w)), finding='C20:bool:%s' % w)
    bang = spec_bang_words()
    blits = [w for (w, _) in bang]
    offered = tables.get('BANG_OPERATORS', [])
    for i, w in enumerate(offered):
        lits = blits + ([w] if w not in blits else [])
        ob('c20_bang_offered_%d' % i, 'C20', 'offered bang operator "%s" is recognised by the lexer (!%s lexes as a bang operator, not an error)' % (w, w),
           ('let w = BANG_OPERATORS[%d]; proof { %s } ' + (distinct(w, blits) if w in blits else '') + ' assert(forall|k: int| 0 <= k < w@.len() ==> is_alpha(#[trigger] w@[k])); assert(bang_kind(w@) is Some);')
           % (i, reveal(lits)), finding='C20:offered-not-lexable:%s' % w)
    # (ii) every operator the lexer accepts is offered
    for (w, k) in bang:
        name = 'c20_bang_lexable_%s' % w
        if w in offered:
            j = offered.index(w)
            ob(name, 'C20', 'lexable bang operator "%s" is offered after `!`' % w,
               'let o = BANG_OPERATORS[%d]; proof { reveal_strlit("%s"); } assert(o@ == "%s"@);' % (j, w, w), finding='C20:lexable-not-offered:%s' % w)
        else:
            ob(name, 'C20', 'lexable bang operator "%s" (TokenKind::%s) is NOT in the BANG_OPERATORS completion table' % (w, k),
               'proof { reveal_strlit("%s"); } assert(bang_kind("%s"@) is None);' % (w, w), finding='C20:lexable-not-offered:%s' % w)
    sp.g.c20_tables = {k: v for k, v in tables.items()}
    U.appendix[COMP] = U.appendix.get(COMP, '') + '\n// ---- C20 obligations, one per table entry (generated from the tables above on every run)\n' + '\n'.join(out) + '\n'
