"""Kill matrix for unit SYN: deliberate property-breaking edits applied to the in-memory copy of the
source (never to /repo).  Each must be rejected by a verification failure tagged with `expect`."""
M = [
 dict(id='P1-skip-without-save', file='parser.rs', old="            self.save();\n            self.lex();\n        }", new="            self.lex();\n        }", expect='C01'),
 dict(id='P2-lex-empty-range', file='parser.rs', old="self.current_range = start..end;", new="self.current_range = start..start;", expect='C01'),
 dict(id='P12-save-empty-text', file='parser.rs', old="self.token_stream.text(self.current_range.clone())", new="self.token_stream.text(self.current_range.start..self.current_range.start)", expect='C01'),
 dict(id='P25-lex-start-after-eat', file='parser.rs', old="        let start = self.token_stream.cursor();\n        self.current = self.token_stream.eat();", new="        self.current = self.token_stream.eat();\n        let start = self.token_stream.cursor();", expect='C01'),
 dict(id='P5-statement-error-without-eat', file='grammar/statement.rs', old='_ => p.error_and_eat("expected class, def, defm, defset, dump, multiclass, let or foreach"),', new='_ => p.error("expected class, def, defm, defset, dump, multiclass, let or foreach"),', expect='C02'),
 dict(id='P6-body-no-break', file='grammar/statement.rs', old="        if !body_item(p) {\n            break;\n        }", new="        body_item(p);", expect='C02'),
 dict(id='P7-hash-jumps-back', file='lexer.rs', old="self.s.jump(ident_start);", new="self.s.jump(ident_start - 1);", expect='C02'),
 dict(id='P8-error-without-message', file='lexer.rs', old='Some(\'\\r\') | Some(\'\\n\') => return self.error("End of line in string literal"),', new="Some('\\r') | Some('\\n') => return TokenKind::Error,", expect='C02'),
 dict(id='P10-dag-return-without-finish', file='grammar/value.rs', old='        p.error("expected identifier in dag init");\n        p.finish_node();', new='        p.error("expected identifier in dag init");', expect='C02'),
 dict(id='P11-defset-dispatch-to-defvar', file='grammar/statement.rs', old="T![defset] => defset(p),", new="T![defset] => defvar(p),", expect='C02'),
 dict(id='P14-delimited-no-break', file='grammar.rs', old="        if !p.eat_if(delim) {\n            break;\n        }", new="        p.eat_if(delim);", expect='C02'),
 dict(id='P16-empty-message', file='lexer.rs', old='self.error("Invalid \'..\' punctuation")', new='self.error("")', expect='C02'),
 dict(id='P17-error-range-swapped', file='parser.rs', old='''            self.current_range
                .start
                .try_into()
                .expect("start is to large"),
            self.current_range.end.try_into().expect("end is to large"),''', new='''            self.current_range.end.try_into().expect("end is to large"),
            self.current_range
                .start
                .try_into()
                .expect("start is to large"),''', expect='C02'),
 dict(id='P18-value-suffix-always-true', file='grammar/value.rs', old="        _ => return false,\n    };\n\n    true", new="        _ => CompletedMarker::Fail,\n    };\n\n    true", expect='C02'),
 dict(id='P23-source-file-no-finish', file='grammar.rs', old='        p.error("unexpected input at top level");\n    }\n    p.finish_node();', new='        p.error("unexpected input at top level");\n    }', expect='C02'),
 dict(id='P26-multiclass-stmt-error-no-eat', file='grammar/statement.rs', old="_ => p.error_and_eat(\"expected 'assert', 'def', 'defm', 'dump', 'foreach', 'let', or 'if' in multiclass body\"),", new="_ => p.error(\"expected 'assert', 'def', 'defm', 'dump', 'foreach', 'let', or 'if' in multiclass body\"),", expect='C02'),
 dict(id='P27-pp-cursor-off', file='preprocessor.rs', old="    fn cursor(&self) -> usize {\n        self.token_stream.cursor()\n    }", new="    fn cursor(&self) -> usize {\n        self.token_stream.cursor().saturating_sub(1)\n    }", expect='C01'),
 dict(id='P28-eat-if-no-eat', file='parser.rs', old="        if self.at(kind) {\n            self.eat();\n            true", new="        if self.at(kind) {\n            true", expect='C02'),
 dict(id='P29-list-type-no-assert', file='grammar/type.rs', old="    p.assert(T![list]);\n", new="", expect='C02'),
 dict(id='P30-string-loop-no-progress', file='grammar/value.rs', old="        while p.eat_if(TokenKind::StrVal) {}", new="        while p.at(TokenKind::StrVal) {}", expect='C02'),
]
# behaviour changes that do NOT break C01/C02: must still verify (no false alarm)
BENIGN = [
 dict(id='B1-recover-drop-eof-test', file='parser.rs', old="if !self.at_set(&RECOVER_TOKENS) && !self.eof() {", new="if !self.at_set(&RECOVER_TOKENS) {"),
 dict(id='B2-changed-message', file='grammar/statement.rs', old='"expected filename after include"', new='"expected a file name after include"'),
 dict(id='B3-extra-error', file='grammar/statement.rs', old="    p.expect(T![then]);", new="    p.expect(T![then]);\n    if p.eof() { p.error(\"unexpected end of file in if\"); }"),
 dict(id='B4-reorder-independent', file='parser.rs', old="        self.errors.push(SyntaxError::new(range, message));\n        self.is_after_error = true;", new="        self.is_after_error = true;\n        self.errors.push(SyntaxError::new(range, message));"),
]
