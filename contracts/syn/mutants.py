"""Kill matrix for unit SYN: deliberate property-breaking edits applied to the in-memory copy of the
source (never to /repo).  Each must be rejected by a verification failure tagged with `expect`."""
M = [
 dict(id='P1-skip-without-save', file='parser.rs', old="            self.save();\n            self.lex();\n        }", new="            self.lex();\n        }", expect='C01'),
 dict(id='P2-lex-empty-range', file='parser.rs', old="self.current_range = start..end;", new="self.current_range = start..start;", expect='C01'),
 dict(id='P12-save-empty-text', file='parser.rs', old="self.token_stream.text(self.current_range.clone())", new="self.token_stream.text(self.current_range.start..self.current_range.start)", expect='C01'),
 dict(id='P25-lex-start-after-eat', file='parser.rs', old="        let start = self.token_stream.cursor();\n        self.current = self.token_stream.eat();", new="        self.current = self.token_stream.eat();\n        let start = self.token_stream.cursor();", expect='C01'),
 dict(id='P5-statement-error-without-eat', file='grammar/statement.rs', old='_ => p.error_and_eat("expected class, def, defm, defset, dump, multiclass, let or foreach"),', new='_ => p.error("expected class, def, defm, defset, dump, multiclass, let or foreach"),', expect='C02'),
 dict(id='P6-body-no-break', file='grammar/statement.rs', old="        if !body_item(p) {\n            break;\n        }", new="        body_item(p);", expect='C02'),
 dict(id='P7-hash-jumps-back', file='lexer.rs', old="self.s.jump(ident_start);", new="self.s.jump(ident_start - 1);", expect='C02'),
 dict(id='P8-error-without-message', file='lexer.rs', old='Some(\'\\r\') | Some(\'\\n\') => return self.error("End of line in string literal"),', new="Some('\\r') | Some('\\n') => return TokenKind::Error,", expect='C02'),
 dict(id='P10-dag-return-without-finish', file='grammar/value.rs', old='        p.error("expected identifier in dag init");\n        p.finish_node();', new='        p.error("expected identifier in dag init");', expect='C02'),
 dict(id='P11-defset-dispatch-to-defvar', file='grammar/statement.rs', old="T![defset] => defset(p),", new="T![defset] => defvar(p),", expect='C02'),
 dict(id='P14-delimited-no-break', file='grammar.rs', old="        if !p.eat_if(delim) {\n            break;\n        }", new="        p.eat_if(delim);", expect='C02'),
 dict(id='P16-empty-message', file='lexer.rs', old='self.error("Invalid \'..\' punctuation")', new='self.error("")', expect='C02'),
 dict(id='P17-error-range-swapped', file='parser.rs', old='''            self.current_range
                .start
                .try_into()
                .expect("start is to large"),
            self.current_range.end.try_into().expect("end is to large"),''', new='''            self.current_range.end.try_into().expect("end is to large"),
            self.current_range
                .start
                .try_into()
                .expect("start is to large"),''', expect='C02'),
 dict(id='P18-value-suffix-always-true', file='grammar/value.rs', old="        _ => return false,\n    };\n\n    true", new="        _ => CompletedMarker::Fail,\n    };\n\n    true", expect='C02'),
 dict(id='P23-source-file-no-finish', file='grammar.rs', old='        p.error("unexpected input at top level");\n    }\n    p.finish_node();', new='        p.error("unexpected input at top level");\n    }', expect='C02'),
 dict(id='P26-multiclass-stmt-error-no-eat', file='grammar/statement.rs', old="_ => p.error_and_eat(\"expected 'assert', 'def', 'defm', 'dump', 'foreach', 'let', or 'if' in multiclass body\"),", new="_ => p.error(\"expected 'assert', 'def', 'defm', 'dump', 'foreach', 'let', or 'if' in multiclass body\"),", expect='C02'),
 dict(id='P27-pp-cursor-off', file='preprocessor.rs', old="    fn cursor(&self) -> usize {\n        self.token_stream.cursor()\n    }", new="    fn cursor(&self) -> usize {\n        self.token_stream.cursor().saturating_sub(1)\n    }", expect='C01'),
 dict(id='P28-eat-if-no-eat', file='parser.rs', old="        if self.at(kind) {\n            self.eat();\n            true", new="        if self.at(kind) {\n            true", expect='C02'),
 dict(id='P29-list-type-no-assert', file='grammar/type.rs', old="    p.assert(T![list]);\n", new="", expect='C02'),
 dict(id='P30-string-loop-no-progress', file='grammar/value.rs', old="        while p.eat_if(TokenKind::StrVal) {}", new="        while p.at(TokenKind::StrVal) {}", expect='C02'),
]
# behaviour changes that do NOT break C01/C02: must still verify (no false alarm)
BENIGN = [
 # shape rules of the splicer (R16 loop normal form, R17 helper inlining, R18 renamed local): behaviour-preserving refactorings must still verify
 dict(id='B6-while-as-loop-with-guard (R16)', file='lexer.rs', old="        while depth > 0 && !self.s.done() {", new="        loop {\n            if depth == 0 || self.s.done() {\n                break;\n            }"),
 dict(id='B7-extracted-helper (R17)', file='parser.rs', old="    pub(crate) fn error_and_eat(&mut self, message: impl Into<String>) {\n        self.error(message);\n\n        self.builder.start_node(SyntaxKind::Error.into());\n        self.eat();\n        self.builder.finish_node();\n    }", new="    fn eat_into_error_node_(&mut self) {\n        self.start_node(SyntaxKind::Error);\n        self.eat();\n        self.finish_node();\n    }\n\n    pub(crate) fn error_and_eat(&mut self, message: impl Into<String>) {\n        self.error(message);\n\n        self.eat_into_error_node_();\n    }"),
 dict(id='B8-renamed-local (R18)', file='lexer.rs', old="        let mut depth: usize = 1;\n        while depth > 0 && !self.s.done() {\n            if self.s.eat_if(\"*/\") {\n                depth -= 1;\n            } else if self.s.eat_if(\"/*\") {\n                depth += 1;", new="        let mut level: usize = 1;\n        while level > 0 && !self.s.done() {\n            if self.s.eat_if(\"*/\") {\n                level -= 1;\n            } else if self.s.eat_if(\"/*\") {\n                level += 1;"),
 dict(id='B5-var-name-without-start-check (`$` alone is no token of the reference: C14 says nothing)', file='lexer.rs', old="        if !self.s.eat_if(is_identifier_start) {\n            return self.error(\"Invalid variable name\");\n        }\n", new=""),

 dict(id='B1-recover-drop-eof-test', file='parser.rs', old="if !self.at_set(&RECOVER_TOKENS) && !self.eof() {", new="if !self.at_set(&RECOVER_TOKENS) {"),
 dict(id='B2-changed-message', file='grammar/statement.rs', old='"expected filename after include"', new='"expected a file name after include"'),
 dict(id='B3-extra-error', file='grammar/statement.rs', old="    p.expect(T![then]);", new="    p.expect(T![then]);\n    if p.eof() { p.error(\"unexpected end of file in if\"); }"),
 dict(id='B4-reorder-independent', file='parser.rs', old="        self.errors.push(SyntaxError::new(range, message));\n        self.is_after_error = true;", new="        self.is_after_error = true;\n        self.errors.push(SyntaxError::new(range, message));"),
]

# ---- C14 (lexical conformance) and C20 (completion vocabulary)
M += [
 dict(id='L1-backslash-always-escapes', file='lexer.rs', old="Some('\\\\') => escaped = !escaped,", new="Some('\\\\') => escaped = true,", expect='C14'),
 dict(id='L2-block-comments-do-not-nest', file='lexer.rs', old='            } else if self.s.eat_if("/*") {\n                depth += 1;\n            } else {', new='            } else {', expect='C14'),
 dict(id='L3-sign-at-eof-is-error', file='lexer.rs', old="                '+' => return TokenKind::Plus,", new="                '+' => return self.error(\"Invalid number\"),", expect='C14'),
 dict(id='L4-digit-leading-identifier-split', file='lexer.rs', old="        if base == 10 && c.is_ascii_digit() && self.s.at(is_identifier_start) {\n            return self.identifier(start);\n        }\n", new="", expect='C14'),
 dict(id='L5-hex-digits-decimal-only', file='lexer.rs', old="16 => self.s.eat_while(char::is_ascii_hexdigit),", new="16 => self.s.eat_while(char::is_ascii_digit),", expect='C14'),
 dict(id='L6-keyword-alias', file='lexer.rs', old='"defvar" => T![defvar],', new='"defvar" | "defv" => T![defvar],', expect='C14'),
 dict(id='L7-bang-operator-mixed-up', file='lexer.rs', old='"and" => T![!and],', new='"and" => T![!add],', expect='C14'),
 dict(id='L9-code-fragment-stops-at-brace', file='lexer.rs', old='        self.s.eat_until("}]");\n        if self.s.eat_if("}]") {', new='        self.s.eat_until("}");\n        if self.s.eat_if("}]") {', expect='C14'),
 dict(id='L10-line-comment-eats-newline', file='lexer.rs', old="        self.s.eat_until(is_newline);\n        TokenKind::LineComment", new="        self.s.eat_until(is_newline);\n        self.s.eat();\n        TokenKind::LineComment", expect='C14'),
 dict(id='K1-offered-keyword-not-lexed', file='lexer.rs', old='"defvar" => T![defvar],', new='"defvar_" => T![defvar],', expect='C20'),
 dict(id='K2-lexer-accepts-unoffered-operator', file='lexer.rs', old='"and" => T![!and],', new='"and" | "conj" => T![!and],', expect='C20'),
 dict(id='K3-offered-type-is-identifier', file='lexer.rs', old='"bits" => T![bits],', new='"bitz" => T![bits],', expect='C20'),
 dict(id='K4-completion-offers-unknown-operator', file='../../ide/src/handlers/completion.rs', old='            "add",\n', new='            "addd",\n', expect='C20'),
 dict(id='K5-completion-offers-unknown-keyword', file='../../ide/src/handlers/completion.rs', old='            "assert",\n', new='            "asserts",\n', expect='C20'),
]
