"""Unit SYN: contracts for crates/syntax/src (lexer, preprocessor, parser, grammar, parse()).

Contracts are spliced mechanically onto the real text of /repo on every run (engine/splice.py).
Tags name the property whose proof a clause belongs to:
  C01 tiling / losslessness, C02 totality (termination, panic freedom, error well-formedness),
  C14 lexical conformance, C20 (lexer side of the completion tables).
"""
from splice import UnitSpec, C

U = UnitSpec('syn', '/repo/crates/syntax/src', 'lib.rs', default_tags='C01 C02')
U.prelude_files = ['/verif/contracts/syn/prelude.rs']
U.exclude_mods = {'ast'}
U.reveal_strlits = True
U.macro_replacements = {'eco_format': 'crate::prelude::opaque_eco_string()'}
U.externs = ['rowan', 'ecow', 'unscanny']
U.flags = []
U.features = ['pattern']   # core::str::pattern::Pattern is named in the assumed contracts of str::strip_prefix / starts_with
# failures that are not tied to a spliced clause: termination and panic freedom belong to C02
U.kind_tags = {'precondition': 'C02', 'decreases': 'C02', 'termination': 'C02', 'overflow': 'C02', 'assert': 'C02', 'panic': 'C02', 'divzero': 'C02', 'bounds': 'C02'}

BOTH = 'C01 C02'

# ----------------------------------------------------------------------------- lib.rs
U.drop_item('lib.rs', 'use', r'use rowan::ast::AstNode;', 'R9', 'ast module is outside the unit')
U.item_attr('lib.rs', 'impl', r'<Language as rowan::Language>', '#[verifier::external]')
U.item_attr('lib.rs', 'enum', r'Language', '#[verifier::external]')
U.drop_item('lib.rs', 'type', r'SyntaxNode|SyntaxNodePtr|SyntaxToken|SyntaxElement', 'R9', 'rowan cursor API aliases, not used by parse()')
U.fn('lib.rs', 'Parse::syntax_node', drop='uses rowan cursor API (outside the unit)')
U.fn('lib.rs', 'Parse::source_file', drop='uses ast (outside the unit)')
U.fn('lib.rs', 'Parse::errors', ensures=['ret@ == self.spec_errors()'])
U.fn('lib.rs', 'parse',
     requires=[C('text@.len() <= u32::MAX && enc(text@).len() <= u32::MAX', BOTH)],
     ensures=[
         C('green_text(&ret.spec_green()) == enc(text@)', 'C01', name='tree text equals input'),
         C('crate::parser::errs_ok_seq(ret.spec_errors(), text@)', 'C02 C17', name='every syntax error: non-empty message, range inside the text on char boundaries'),
     ],
     prologue='proof { lemma_enc_len(text@); lemma_boff_mono(text@); }')
U.append('lib.rs', '''
impl Parse {
    pub closed spec fn spec_green(&self) -> GreenNode { self.green_node }
    pub closed spec fn spec_errors(&self) -> Seq<crate::error::SyntaxError> { self.errors@ }
}
''')

# ----------------------------------------------------------------------------- token_kind.rs
U.prepend('token_kind.rs', '''
pub assume_specification [<TokenKind as core::cmp::PartialEq>::eq] (a: &TokenKind, b: &TokenKind) -> (r: bool) ensures r == (*a == *b);
''')
U.append('token_kind.rs', '''
impl TokenKind {
    pub open spec fn spec_is_trivia(&self) -> bool {
        *self == TokenKind::Whitespace || *self == TokenKind::LineComment || *self == TokenKind::BlockComment || *self == TokenKind::PreProcessor
    }
    pub open spec fn spec_is_pp_directive(&self) -> bool {
        *self == TokenKind::Ifdef || *self == TokenKind::Ifndef || *self == TokenKind::Else || *self == TokenKind::Endif || *self == TokenKind::Define
    }
}
''')
U.fn('token_kind.rs', 'TokenKind::is_trivia', ensures=['ret == self.spec_is_trivia()'])
U.fn('token_kind.rs', 'TokenKind::is_bang_operator',
     ensures=['ret ==> *self != TokenKind::Eof && !self.spec_is_trivia()'])
U.fn('token_kind.rs', 'TokenKind::is_cond_operator', ensures=['ret == (*self == TokenKind::XCond)'])

# ----------------------------------------------------------------------------- syntax_kind.rs
U.prepend('syntax_kind.rs', '''
pub assume_specification [<SyntaxKind as core::cmp::PartialEq>::eq] (a: &SyntaxKind, b: &SyntaxKind) -> (r: bool) ensures r == (*a == *b);
''')
U.fn('syntax_kind.rs', 'SyntaxKind::is_trivia')
U.fn('syntax_kind.rs', '<rowan::SyntaxKind as From<SyntaxKind>>::from', attrs=['external_body'], no_ret=True)
U.fn('syntax_kind.rs', '<rowan::SyntaxKind as From<TokenKind>>::from', attrs=['external_body'], no_ret=True)

# ----------------------------------------------------------------------------- error.rs
U.item_attr('error.rs', 'impl', r'<SyntaxError as fmt::Display>', '#[verifier::external]')
U.fn('error.rs', 'SyntaxError::new',
     ensures=['ret.range == range', 'ret.message@ == msg_text(message)'],
     prologue='proof { ax_into_string(message); }')

# ----------------------------------------------------------------------------- token_stream.rs
U.insert_in('token_stream.rs', 'trait', 'TokenStream', '''
    /// well-formedness of the stream state
    spec fn wf(&self) -> bool;
    /// the UTF-8 bytes of the whole input
    spec fn src(&self) -> Seq<u8>;
    /// byte offset of the cursor
    spec fn pos(&self) -> nat;
    /// an error message is parked and will be returned by take_error()
    spec fn has_error(&self) -> bool;
    /// the char boundaries (byte offsets) of the input
    spec fn bnds(&self) -> spec_fn(nat) -> bool;
    /// progress measure: strictly decreases with every token other than Eof
    spec fn rank(&self) -> nat;
    proof fn lemma_len(&self) requires self.wf() ensures self.pos() <= self.src().len() <= u32::MAX;
''')
EAT_ENS = [
    C('final(self).wf()', BOTH),
    C('final(self).src() == old(self).src()', BOTH),
    C('final(self).bnds() == old(self).bnds()', 'C02'),
    C('old(self).pos() <= final(self).pos() <= final(self).src().len()', BOTH, name='cursor moves forward, stays inside the text'),
    C('ret != TokenKind::Eof ==> final(self).rank() < old(self).rank()', 'C02', name='progress: every token but Eof decreases the stream rank'),
    C('final(self).rank() <= old(self).rank()', 'C02'),
    C('ret == TokenKind::Eof ==> final(self).pos() == final(self).src().len() && old(self).pos() == final(self).pos()', BOTH, name='Eof only at the end of input'),
    C('ret == TokenKind::Error ==> final(self).has_error()', 'C02', name='an Error token has its message parked'),
    C('(ret == TokenKind::Ifdef || ret == TokenKind::Ifndef) ==> final(self).pos() >= old(self).pos() + 6', 'C02', name='#ifdef/#ifndef are at least 6 bytes'),
]
U.fn('token_stream.rs', 'TokenStream::eat', requires=['old(self).wf()'], ensures=EAT_ENS)
U.fn('token_stream.rs', 'TokenStream::cursor', requires=['self.wf()'],
     ensures=[C('ret == self.pos()', BOTH), C('self.pos() <= self.src().len() <= u32::MAX', BOTH), C('(self.bnds())(ret as nat)', 'C02')])
U.fn('token_stream.rs', 'TokenStream::text',
     requires=['self.wf()', 'range.start <= range.end <= self.src().len()', '(self.bnds())(range.start as nat)', '(self.bnds())(range.end as nat)'],
     ensures=[C('str_bytes(ret) == self.src().subrange(range.start as int, range.end as int)', 'C01', name='text(a..b) is the input slice')])
U.fn('token_stream.rs', 'TokenStream::take_error', requires=['old(self).wf()'],
     ensures=[C('final(self).wf()', BOTH), C('final(self).src() == old(self).src()', BOTH), C('final(self).pos() == old(self).pos()', BOTH),
              C('final(self).bnds() == old(self).bnds()', 'C02'), C('final(self).rank() == old(self).rank()', 'C02'),
              C('old(self).has_error() ==> ret.is_some() && eco_view(&ret.unwrap()).len() > 0', 'C02', name='parked message is returned and non-empty')])

# ----------------------------------------------------------------------------- lexer.rs
U.prepend('lexer.rs', 'broadcast use {ax_pat_char, ax_pat_str, ax_pat_fn, ax_pat_fnref, ax_yes_fn, ax_no_fn, ax_yes_fnref, ax_no_fnref, ax_at_str, ax_at_fn, ax_u8len, ax_str_bytes, ax_msg_str, ax_str_inj, ax_spec_bytes};')
U.append('lexer.rs', '''
impl<'a> Lexer<'a> {
    pub closed spec fn chars(&self) -> Seq<char> { sc_src(&self.s) }
    pub closed spec fn ci(&self) -> nat { sc_ci(&self.s) }
    pub closed spec fn err(&self) -> bool { self.error.is_some() && eco_view(&self.error.unwrap()).len() > 0 }
    pub open spec fn lwf(&self) -> bool { self.ci() <= self.chars().len() && enc(self.chars()).len() <= u32::MAX }
    /// frame + bounds shared by all sub-scanners
    pub open spec fn adv(&self, o: &Self) -> bool {
        self.chars() == o.chars() && o.ci() <= self.ci() <= self.chars().len()
    }
}
''')
U.insert_in('lexer.rs', 'impl', '<Lexer as TokenStream>', '''
    closed spec fn wf(&self) -> bool { self.lwf() }
    closed spec fn src(&self) -> Seq<u8> { enc(self.chars()) }
    closed spec fn pos(&self) -> nat { boff(self.chars(), self.ci()) }
    closed spec fn has_error(&self) -> bool { self.err() }
    closed spec fn bnds(&self) -> spec_fn(nat) -> bool { |p: nat| is_boundary(self.chars(), p) }
    closed spec fn rank(&self) -> nat { (self.chars().len() - self.ci()) as nat }
    proof fn lemma_len(&self) { lemma_boff_mono(self.chars()); lemma_enc_len(self.chars()); }
''')
MONO = 'proof { lemma_boff_mono(self.chars()); lemma_enc_len(self.chars()); }'
U.fn('lexer.rs', '<Lexer as TokenStream>::eat',
     prologue='proof { lemma_boff_mono(self.chars()); lemma_enc_len(self.chars()); lemma_boff_gap(self.chars()); }',
     body_proofs=[])
U.fn('lexer.rs', '<Lexer as TokenStream>::cursor', prologue=MONO)
U.fn('lexer.rs', '<Lexer as TokenStream>::text',
     prologue='''proof { lemma_boff_mono(self.chars()); lemma_enc_len(self.chars());
            let i = choose|i: nat| i <= self.chars().len() && boff(self.chars(), i) == range.start as nat;
            let j = choose|j: nat| j <= self.chars().len() && boff(self.chars(), j) == range.end as nat;
            if j < i { assert(boff(self.chars(), j) < boff(self.chars(), i)); }
            ax_enc_sub(self.chars(), i, j);
        }''')
U.fn('lexer.rs', '<Lexer as TokenStream>::take_error')
U.fn('lexer.rs', 'Lexer::new',
     requires=[C('enc(text@).len() <= u32::MAX', BOTH)],
     ensures=['ret.chars() == text@', C('ret.ci() == 0', 'C01'), '!ret.err()', 'ret.lwf()', 'ret.wf()', C('ret.pos() == 0', 'C01', name='lexing starts at offset 0'), 'ret.src() == enc(text@)', 'ret.bnds() == (|p: nat| is_boundary(text@, p))'],
     prologue='proof { lemma_enc_len(text@); lemma_boff_mono(text@); }')
U.fn('lexer.rs', 'Lexer::error',
     requires=[C('msg_text(msg).len() > 0', 'C02', name='lexer error messages are non-empty')],
     ensures=['ret == TokenKind::Error', 'final(self).err()', 'final(self).chars() == old(self).chars()', 'final(self).ci() == old(self).ci()'],
     prologue='proof { ax_into_eco(msg); }')

ADV = 'final(self).adv(old(self))'
LEX_COMMON = ['old(self).lwf()']
U.fn('lexer.rs', 'Lexer::next_token',
     requires=LEX_COMMON,
     ensures=[
         C(ADV, BOTH),
         C('ret != TokenKind::Eof ==> final(self).ci() > old(self).ci()', 'C02'),
         C('ret == TokenKind::Eof ==> final(self).ci() == old(self).ci() && old(self).ci() == old(self).chars().len()', BOTH),
         C('ret == TokenKind::Error ==> final(self).err()', 'C02'),
         C('(ret == TokenKind::Ifdef || ret == TokenKind::Ifndef) ==> final(self).ci() >= old(self).ci() + 6', 'C02'),
     ],
     prologue='proof { lemma_boff_mono(self.chars()); }')
for f, extra in [('whitespace', ['ret == TokenKind::Whitespace']),
                 ('line_comment', ['ret == TokenKind::LineComment']),
                 ('block_comment', ['ret == TokenKind::BlockComment']),
                 ('var_name', ['ret == TokenKind::Error ==> final(self).err()', 'ret != TokenKind::Ifdef && ret != TokenKind::Ifndef']),
                 ('code_fragment', ['ret == TokenKind::Error ==> final(self).err()', 'ret != TokenKind::Ifdef && ret != TokenKind::Ifndef']),
                 ('bangoperator', ['ret == TokenKind::Error ==> final(self).err()', 'ret != TokenKind::Ifdef && ret != TokenKind::Ifndef']),
                 ('string', ['ret == TokenKind::Error ==> final(self).err()', 'ret != TokenKind::Ifdef && ret != TokenKind::Ifndef'])]:
    kw = {}
    if f == 'string':
        kw['loops'] = {0: dict(invariant=['self.adv(old(self))', 'self.lwf()'], decreases='self.chars().len() - self.ci()')}
    U.fn('lexer.rs', 'Lexer::' + f, requires=LEX_COMMON,
         ensures=[C(ADV, BOTH), 'ret != TokenKind::Eof'] + extra, **kw)
U.fn('lexer.rs', 'Lexer::preprocessor', requires=LEX_COMMON,
     ensures=[C(ADV, BOTH), 'ret != TokenKind::Eof', 'ret != TokenKind::Error',
              C('(ret == TokenKind::Ifdef || ret == TokenKind::Ifndef) ==> final(self).ci() >= old(self).ci() + 5', 'C02')],
     prologue='proof { lemma_boff_mono(self.chars()); }',
     body_proofs=[(r'match ident \{', 'assert(ident@ == self.chars().subrange(old(self).ci() as int, self.ci() as int));')])
NUM_REQ = LEX_COMMON + ['is_boundary(old(self).chars(), start as nat)', 'start <= boff(old(self).chars(), old(self).ci())']
U.fn('lexer.rs', 'Lexer::number', requires=NUM_REQ,
     ensures=[C(ADV, BOTH), 'ret != TokenKind::Eof', 'ret == TokenKind::Error ==> final(self).err()', 'ret != TokenKind::Ifdef && ret != TokenKind::Ifndef'],
     prologue='proof { lemma_boff_mono(self.chars()); }')
U.fn('lexer.rs', 'Lexer::identifier', requires=NUM_REQ,
     ensures=[C(ADV, BOTH), 'ret != TokenKind::Eof', 'ret != TokenKind::Error', 'ret != TokenKind::Ifdef && ret != TokenKind::Ifndef'])
U.fn('lexer.rs', 'is_identifier_start', ensures=['ret == is_ident_start(c)'])
U.fn('lexer.rs', 'is_identifier_continue', ensures=['ret == is_ident_cont(c)'])
U.fn('lexer.rs', 'is_newline', ensures=["ret == (c == '\\r' || c == '\\n')"])
U.fn('lexer.rs', 'interpret_number', tags='C14',
     prologue='broadcast use {ax_std_pat_str, ax_std_pat_char}; proof { reveal_strlit("0x"); reveal_strlit("0b"); assert("0x"@ =~= seq![\'0\', \'x\']); assert("0b"@ =~= seq![\'0\', \'b\']); assert(seq![\'-\'].len() == 1); if text@.len() > 0 { assert(text@.subrange(0, 1) =~= seq![text@[0]]); assert(text@.subrange(0, 1)[0] == text@[0]); } assert(seq![\'-\'][0] == \'-\'); }')

# ----------------------------------------------------------------------------- preprocessor.rs
U.prepend('preprocessor.rs', 'broadcast use {ax_msg_str};')
U.insert_in('preprocessor.rs', 'impl', '<PreProcessor as TokenStream>', '''
    closed spec fn wf(&self) -> bool {
        self.token_stream.wf() && (self.error.is_some() ==> eco_view(&self.error.unwrap()).len() > 0)
        && 6 * self.open_conditionals <= self.token_stream.pos()
    }
    closed spec fn src(&self) -> Seq<u8> { self.token_stream.src() }
    closed spec fn pos(&self) -> nat { self.token_stream.pos() }
    closed spec fn has_error(&self) -> bool { self.error.is_some() || self.token_stream.has_error() }
    closed spec fn bnds(&self) -> spec_fn(nat) -> bool { self.token_stream.bnds() }
    closed spec fn rank(&self) -> nat { 2 * self.token_stream.rank() + if self.open_conditionals > 0 { 1nat } else { 0nat } }
    proof fn lemma_len(&self) { self.token_stream.lemma_len(); }
''')
U.append('preprocessor.rs', '''
impl<T: TokenStream> PreProcessor<T> {
    pub closed spec fn inner(&self) -> T { self.token_stream }
    pub closed spec fn perr(&self) -> bool { self.error.is_some() }
    pub closed spec fn perror(&self) -> Option<EcoString> { self.error }
    pub closed spec fn open(&self) -> nat { self.open_conditionals as nat }
    pub closed spec fn irank(&self) -> nat { self.token_stream.rank() }
    /// wf without the bound that ties open_conditionals to the cursor (re-established by the callers)
    pub closed spec fn wf0(&self) -> bool { self.token_stream.wf() && (self.error.is_some() ==> eco_view(&self.error.unwrap()).len() > 0) }
    /// frame of the helper functions: same input, cursor moved forward, inner rank not increased
    pub open spec fn hadv(&self, o: &Self) -> bool {
        self.wf0() && self.src() == o.src() && o.pos() <= self.pos() <= self.src().len() && self.bnds() == o.bnds() && self.irank() <= o.irank()
    }
    /// frame: same input, cursor moved forward
    pub open spec fn padv(&self, o: &Self) -> bool {
        self.wf() && self.src() == o.src() && o.pos() <= self.pos() <= self.src().len()
        && (self.bnds() == o.bnds())
    }
}
''')
U.fn('preprocessor.rs', '<PreProcessor as TokenStream>::eat')
U.fn('preprocessor.rs', '<PreProcessor as TokenStream>::cursor')
U.fn('preprocessor.rs', '<PreProcessor as TokenStream>::text')
U.fn('preprocessor.rs', '<PreProcessor as TokenStream>::take_error')
U.fn('preprocessor.rs', 'PreProcessor::new',
     requires=['token_stream.wf()'],
     ensures=['ret.wf()', 'ret.src() == token_stream.src()', C('ret.pos() == token_stream.pos()', 'C01'),
              'ret.bnds() == token_stream.bnds()'])
U.fn('preprocessor.rs', 'PreProcessor::define_macro', ensures=['final(self).inner() == old(self).inner()', 'final(self).perror() == old(self).perror()', 'final(self).open() == old(self).open()'])
U.fn('preprocessor.rs', 'PreProcessor::macros')
PP_REQ = ['old(self).wf()']
U.fn('preprocessor.rs', 'PreProcessor::next_token', requires=PP_REQ, ensures=EAT_ENS,
     prologue='proof { self.token_stream.lemma_len(); }')
U.fn('preprocessor.rs', 'PreProcessor::error',
     requires=[C('msg_text(message).len() > 0', 'C02', name='preprocessor error messages are non-empty')],
     ensures=['ret == TokenKind::Error', 'final(self).perr()', 'final(self).inner() == old(self).inner()', 'final(self).open() == old(self).open()',
              'old(self).wf0() ==> final(self).wf0()', 'old(self).wf() ==> final(self).wf()', 'final(self).has_error()'],
     prologue='proof { ax_into_eco(message); }')
HELPER_ENS = [C('final(self).hadv(old(self))', BOTH)]
U.fn('preprocessor.rs', 'PreProcessor::process_if',
     requires=['old(self).wf0()', C('6 * (old(self).open() + 1) <= old(self).pos()', 'C02', name='an #ifdef token (>= 6 bytes) was just consumed')],
     ensures=HELPER_ENS + ['final(self).wf()', C('ret == TokenKind::PreProcessor || ret == TokenKind::Error', 'C01', name='a directive yields a PreProcessor (trivia) or an Error token, never a premature Eof'), 'ret == TokenKind::Error ==> final(self).has_error()'],
     prologue='proof { self.token_stream.lemma_len(); }')
U.fn('preprocessor.rs', 'PreProcessor::process_define', requires=PP_REQ,
     ensures=HELPER_ENS + ['final(self).wf()', 'final(self).open() == old(self).open()', C('ret == TokenKind::PreProcessor || ret == TokenKind::Error', 'C01', name='a directive yields a PreProcessor (trivia) or an Error token, never a premature Eof'), 'ret == TokenKind::Error ==> final(self).has_error()'])
U.fn('preprocessor.rs', 'PreProcessor::process_else', requires=PP_REQ,
     ensures=HELPER_ENS + ['final(self).wf()', 'final(self).open() <= old(self).open()', C('ret == TokenKind::PreProcessor || ret == TokenKind::Error', 'C01', name='a directive yields a PreProcessor (trivia) or an Error token, never a premature Eof'), 'ret == TokenKind::Error ==> final(self).has_error()'])
U.fn('preprocessor.rs', 'PreProcessor::process_eof', requires=PP_REQ,
     ensures=['final(self).wf()', 'final(self).inner() == old(self).inner()', 'ret == TokenKind::Eof || ret == TokenKind::Error',
              'ret == TokenKind::Error ==> final(self).has_error() && old(self).open() > 0 && final(self).open() == 0',
              'ret == TokenKind::Eof ==> *final(self) == *old(self)'])
U.fn('preprocessor.rs', 'PreProcessor::process_endif', requires=PP_REQ,
     ensures=['final(self).wf()', 'final(self).inner() == old(self).inner()', 'final(self).perror() == old(self).perror()', 'final(self).open() <= old(self).open()', 'ret == TokenKind::PreProcessor'])
U.fn('preprocessor.rs', 'PreProcessor::next_not_trivia', requires=['old(self).wf0()'],
     ensures=HELPER_ENS + ['ret.0 <= final(self).pos()', '(final(self).bnds())(ret.0 as nat)', 'final(self).perror() == old(self).perror()', 'final(self).open() == old(self).open()',
                           'ret.0 >= old(self).pos()'],
     loops={0: dict(invariant=['self.hadv(old(self))', 'self.perror() == old(self).perror()', 'self.open() == old(self).open()'], decreases='self.irank()')},
     prologue='proof { self.token_stream.lemma_len(); }')
U.fn('preprocessor.rs', 'PreProcessor::eat_until_else_or_endif', requires=['old(self).wf()'],
     ensures=HELPER_ENS + ['final(self).wf()', 'final(self).open() <= old(self).open()', C('ret == TokenKind::PreProcessor || ret == TokenKind::Error', 'C01', name='a directive yields a PreProcessor (trivia) or an Error token, never a premature Eof'), 'ret == TokenKind::Error ==> final(self).has_error()'],
     loops={0: dict(invariant=['self.hadv(old(self))', 'self.wf()', 'self.open() <= old(self).open()', 'depth as int >= 1', '6 * (depth as int - 1) <= self.pos() - old(self).pos()', 'self.src().len() <= u32::MAX'],
                    decreases='self.irank()')},
     prologue='proof { self.token_stream.lemma_len(); }')

# ----------------------------------------------------------------------------- parser.rs
U.prepend('parser.rs', 'broadcast use {ax_msg_str, ax_msg_eco, ax_msg_string, ax_str_bytes, ax_spec_bytes};')
U.append('parser.rs', '''
/// C02: every recorded syntax error has a non-empty message and a range inside the text
pub open spec fn err_ok<T: TokenStream>(e: SyntaxError, ts: &T) -> bool {
    e.message@.len() > 0 && tr_start(e.range) <= tr_end(e.range) <= ts.src().len()
    && (ts.bnds())(tr_start(e.range)) && (ts.bnds())(tr_end(e.range))
}
/// the same statement over the input text (used by parse())
pub open spec fn errs_ok_seq(errs: Seq<SyntaxError>, text: Seq<char>) -> bool {
    forall|i: int| 0 <= i < errs.len() ==> (#[trigger] errs[i]).message@.len() > 0
        && tr_start(errs[i].range) <= tr_end(errs[i].range) <= enc(text).len()
        && is_boundary(text, tr_start(errs[i].range)) && is_boundary(text, tr_end(errs[i].range))
}

impl<T: TokenStream> ParserBase<T> {
    pub closed spec fn cur(&self) -> TokenKind { self.current }
    pub closed spec fn ra(&self) -> nat { self.current_range.start as nat }
    pub closed spec fn rb(&self) -> nat { self.current_range.end as nat }
    pub closed spec fn bv(&self) -> BuilderView { builder_view(&self.builder) }
    pub closed spec fn srcv(&self) -> Seq<u8> { self.token_stream.src() }
    pub closed spec fn ts(&self) -> T { self.token_stream }
    pub closed spec fn bnd(&self) -> spec_fn(nat) -> bool { self.token_stream.bnds() }
    pub closed spec fn errs(&self) -> Seq<SyntaxError> { self.errors@ }
    pub closed spec fn after_err(&self) -> bool { self.is_after_error }
    pub closed spec fn bld(&self) -> GreenNodeBuilder<'static> { self.builder }
    pub closed spec fn same_but_builder(&self, o: &Self) -> bool {
        self.token_stream == o.token_stream && self.current == o.current && self.current_range == o.current_range
        && self.errors == o.errors && self.is_after_error == o.is_after_error
    }
    pub closed spec fn same_but_errors(&self, o: &Self) -> bool {
        self.token_stream == o.token_stream && self.current == o.current && self.current_range == o.current_range && self.builder == o.builder
    }
    /// termination measure: rank of the token stream plus one while the look-ahead is not Eof
    pub closed spec fn fuel(&self) -> nat {
        self.token_stream.rank() + if self.current != TokenKind::Eof { 1nat } else { 0nat }
    }
    pub closed spec fn errs_ok(&self) -> bool {
        forall|i: int| 0 <= i < self.errors@.len() ==> err_ok(#[trigger] self.errors@[i], &self.token_stream)
    }
    /// structural invariant (C02): stream well-formed, look-ahead range on char boundaries, an Error
    /// look-ahead has its message parked, builder parents stack sorted, recorded errors well-formed;
    /// `saved` = the look-ahead token has already been pushed to the builder
    pub closed spec fn inv_s(&self, saved: bool) -> bool {
        &&& self.token_stream.wf()
        &&& self.rb() == self.token_stream.pos()
        &&& self.ra() <= self.rb() <= self.srcv().len() <= u32::MAX
        &&& (self.token_stream.bnds())(self.ra()) && (self.token_stream.bnds())(self.rb())
        &&& (self.current == TokenKind::Error && !saved ==> self.token_stream.has_error())
        &&& (self.bv().parents.len() > 0 ==> self.bv().parents.last() <= self.bv().n)
        &&& (forall|i: int, j: int| 0 <= i <= j < self.bv().parents.len() ==> self.bv().parents[i] <= self.bv().parents[j])
        &&& self.errs_ok()
    }
    /// tiling invariant (C01): the look-ahead range ends at the stream cursor, and the builder has
    /// received exactly the input prefix before the look-ahead (including it once saved)
    pub closed spec fn inv_t(&self, saved: bool) -> bool {
        &&& self.token_stream.wf()
        &&& self.rb() == self.token_stream.pos()
        &&& self.ra() <= self.rb() <= self.srcv().len() <= u32::MAX
        &&& (self.current == TokenKind::Eof ==> self.ra() == self.rb() && self.rb() == self.srcv().len())
        &&& self.bv().text =~= self.srcv().subrange(0, if saved { self.rb() as int } else { self.ra() as int })
    }
    pub open spec fn inv(&self, saved: bool) -> bool { self.inv_s(saved) && self.inv_t(saved) }
    pub open spec fn same_shape(&self, o: &Self) -> bool {
        self.bv().parents =~= o.bv().parents && self.bv().n >= o.bv().n && self.srcv() == o.srcv()
        && (self.bnd() == o.bnd())
    }
    /// a node may be closed
    pub open spec fn open_node(&self) -> bool { self.bv().parents.len() > 0 }
    /// effect of `p.builder().start_node_at(c, ..)` (grammar/value.rs bypasses ParserBase::start_node_at)
    pub proof fn lemma_builder_start_node_at(o: &Self, n: &Self, c: nat)
        requires o.inv(false), n.same_but_builder(o),
            builder_view(&n.bld()) == (BuilderView { parents: o.bv().parents.push(c), ..o.bv() }),
            c <= o.bv().n, o.open_node() ==> c >= o.bv().parents.last(),
        ensures n.inv(false), n.fuel() == o.fuel(), n.cur() == o.cur(), n.srcv() == o.srcv(), n.bnd() == o.bnd(), n.errs() == o.errs(),
            n.bv() == (BuilderView { parents: o.bv().parents.push(c), ..o.bv() }),
    {}
}
''')
U.fn('parser.rs', 'CompletedMarker::is_success', ensures=['ret == (*self is Success)'])
U.fn('parser.rs', 'CompletedMarker::or_error',
     requires=['old(parser).inv(false)', C('msg_text(message).len() > 0', 'C02', name='parser error messages are non-empty')],
     ensures=[C('final(parser).inv_s(false)', 'C02'), C('final(parser).inv_t(false)', 'C01'), 'final(parser).same_but_errors(old(parser))',
              'final(parser).fuel() == old(parser).fuel()', 'final(parser).cur() == old(parser).cur()', 'final(parser).bv() == old(parser).bv()', 'final(parser).same_shape(old(parser))'])

PINV = ['old(self).inv(false)']
ERRS_OK = C('final(self).errs_ok()', 'C17', name='recorded errors stay well-formed (non-empty message, range inside the text on char boundaries)')
INV_ENS = [C('final(self).inv_s(false)', 'C02'), C('final(self).inv_t(false)', 'C01'), ERRS_OK]
SHAPE = C('final(self).same_shape(old(self))', 'C02')
FUEL_LE = C('final(self).fuel() <= old(self).fuel()', 'C02')
U.fn('parser.rs', 'ParserBase::new',
     requires=['token_stream.wf()', C('token_stream.pos() == 0', 'C01', name='parsing starts at offset 0')],
     ensures=[C('ret.inv_s(false)', 'C02'), C('ret.inv_t(false)', 'C01'), 'ret.srcv() == token_stream.src()',
              'ret.bv().parents.len() == 0', 'ret.bv().n == 0', 'ret.errs().len() == 0',
              'ret.bnd() == token_stream.bnds()'],
     prologue='proof { token_stream.lemma_len(); }')
U.fn('parser.rs', 'ParserBase::finish',
     requires=['self.inv(false)', C('self.bv().n == 1 && self.bv().parents.len() == 0', 'C02', name='builder holds exactly one finished root node'),
               C('self.cur() == TokenKind::Eof', 'C01', name='whole input consumed before finish')],
     ensures=[C('green_text(&ret.0) == self.srcv()', 'C01'), C('ret.1@ == self.errs()', 'C02 C17'),
              C('forall|i: int| 0 <= i < ret.1@.len() ==> (#[trigger] ret.1@[i]).message@.len() > 0 && tr_start(ret.1@[i].range) <= tr_end(ret.1@[i].range) <= self.srcv().len() && (self.bnd())(tr_start(ret.1@[i].range)) && (self.bnd())(tr_end(ret.1@[i].range))', 'C02')])
U.fn('parser.rs', 'ParserBase::builder',
     ensures=['*ret == old(self).bld()', 'final(self).bld() == *final(ret)', 'final(self).same_but_builder(old(self))',
              'builder_view(ret) == old(self).bv()', 'final(self).bv() == builder_view(final(ret))',
              '*final(ret) == *ret ==> *final(self) == *old(self)',
              'old(self).inv_s(false) && old(self).open_node() ==> builder_view(ret).parents.last() <= builder_view(ret).n'])
NODE_FRAME = ['final(self).fuel() == old(self).fuel()', 'final(self).cur() == old(self).cur()', 'final(self).srcv() == old(self).srcv()',
              'final(self).bv().text == old(self).bv().text', 'final(self).errs() == old(self).errs()',
              'final(self).bnd() == old(self).bnd()']
U.fn('parser.rs', 'ParserBase::start_node', requires=PINV,
     ensures=INV_ENS + ['final(self).bv().parents == old(self).bv().parents.push(old(self).bv().n)', 'final(self).bv().n == old(self).bv().n'] + NODE_FRAME)
U.fn('parser.rs', 'ParserBase::start_node_at',
     requires=PINV + [C('cp_val(checkpoint) <= old(self).bv().n', 'C02', name='checkpoint not in the future'),
                      C('old(self).bv().parents.len() > 0 ==> cp_val(checkpoint) >= old(self).bv().parents.last()', 'C02', name='checkpoint inside the open node')],
     ensures=INV_ENS + ['final(self).bv().parents == old(self).bv().parents.push(cp_val(checkpoint))', 'final(self).bv().n == old(self).bv().n'] + NODE_FRAME)
U.fn('parser.rs', 'ParserBase::finish_node',
     requires=PINV + [C('old(self).bv().parents.len() > 0', 'C02', name='finish_node needs an open node')],
     ensures=INV_ENS + ['final(self).bv().parents == old(self).bv().parents.drop_last()', 'final(self).bv().n == old(self).bv().parents.last() + 1'] + NODE_FRAME)
U.fn('parser.rs', 'ParserBase::checkpoint', ensures=['cp_val(ret) == self.bv().n', 'self.inv_s(false) && self.open_node() ==> self.bv().parents.last() <= cp_val(ret)'])
U.fn('parser.rs', 'ParserBase::peek', ensures=['ret == self.cur()'])
U.fn('parser.rs', 'ParserBase::at', ensures=['ret == (self.cur() == kind)'])
U.fn('parser.rs', 'ParserBase::at_set', ensures=['ret == set@.contains(self.cur())'])
U.fn('parser.rs', 'ParserBase::eof', ensures=['ret == (self.cur() == TokenKind::Eof)'])
U.fn('parser.rs', 'ParserBase::error',
     requires=['old(self).inv_s(false) || old(self).inv_s(true)', C('msg_text(message).len() > 0', 'C02', name='parser error messages are non-empty')],
     ensures=['final(self).errs().len() == old(self).errs().len() + 1', 'final(self).after_err()', 'final(self).same_but_errors(old(self))',
              C('final(self).errs_ok()', 'C02 C17', name='recorded error is well-formed'),
              C('forall|s: bool| old(self).inv_s(s) ==> final(self).inv_s(s)', 'C02'), C('forall|s: bool| old(self).inv_t(s) ==> final(self).inv_t(s)', 'C01'),
              'final(self).fuel() == old(self).fuel()', 'final(self).bv() == old(self).bv()', 'final(self).cur() == old(self).cur()', 'final(self).ts() == old(self).ts()',
              'final(self).srcv() == old(self).srcv()', 'final(self).bnd() == old(self).bnd()'],
     prologue='proof { self.token_stream.lemma_len(); ax_usize_to_text_size(self.current_range.start); ax_usize_to_text_size(self.current_range.end); }')
EAT_LIKE = INV_ENS + [SHAPE, FUEL_LE]
U.fn('parser.rs', 'ParserBase::error_and_eat',
     requires=PINV + [C('msg_text(message).len() > 0', 'C02')],
     ensures=EAT_LIKE + [C('old(self).cur() != TokenKind::Eof ==> final(self).fuel() < old(self).fuel()', 'C02', name='error_and_eat consumes a token unless at Eof')])
U.fn('parser.rs', 'ParserBase::error_and_recover',
     requires=PINV + [C('msg_text(message).len() > 0', 'C02')],
     ensures=EAT_LIKE)
U.fn('parser.rs', 'ParserBase::assert',
     requires=PINV + [C('old(self).cur() == kind', 'C02', name='assert(kind): look-ahead must be kind (else assert! panics)')],
     ensures=EAT_LIKE + [C('kind != TokenKind::Eof ==> final(self).fuel() < old(self).fuel()', 'C02'), '!final(self).cur().spec_is_trivia()'])
U.fn('parser.rs', 'ParserBase::expect', requires=PINV, ensures=EAT_LIKE + ['!old(self).cur().spec_is_trivia() ==> !final(self).cur().spec_is_trivia()',
     C('old(self).cur() == kind && kind != TokenKind::Eof ==> final(self).fuel() < old(self).fuel()', 'C02')])
U.fn('parser.rs', 'ParserBase::expect_with_msg',
     requires=PINV + [C('msg_text(message).len() > 0', 'C02')],
     ensures=EAT_LIKE + ['!old(self).cur().spec_is_trivia() ==> !final(self).cur().spec_is_trivia()',
                         C('old(self).cur() == kind && kind != TokenKind::Eof ==> final(self).fuel() < old(self).fuel()', 'C02'),
                         'old(self).cur() != kind && !old(self).after_err() ==> final(self).errs().len() == old(self).errs().len() + 1'])
U.fn('parser.rs', 'ParserBase::eat', requires=PINV,
     ensures=EAT_LIKE + ['!final(self).cur().spec_is_trivia()',
                         C('old(self).cur() != TokenKind::Eof ==> final(self).fuel() < old(self).fuel()', 'C02', name='eat consumes a token unless at Eof')])
U.fn('parser.rs', 'ParserBase::eat_if', requires=PINV,
     ensures=EAT_LIKE + ['ret == (old(self).cur() == kind)',
                         C('ret && kind != TokenKind::Eof ==> final(self).fuel() < old(self).fuel()', 'C02'),
                         '!ret ==> *final(self) == *old(self)', 'ret ==> !final(self).cur().spec_is_trivia()'])
U.fn('parser.rs', 'ParserBase::save', requires=PINV,
     ensures=[C('final(self).inv_s(true)', 'C02'), C('final(self).inv_t(true)', 'C01', name='save pushes exactly the look-ahead token text'), ERRS_OK,
              'final(self).cur() == old(self).cur()', 'final(self).fuel() == old(self).fuel()',
              'final(self).bv().parents == old(self).bv().parents', 'final(self).bv().n == old(self).bv().n + 1', 'final(self).srcv() == old(self).srcv()',
              'final(self).bnd() == old(self).bnd()'],
     prologue='proof { self.token_stream.lemma_len(); }')
U.fn('parser.rs', 'ParserBase::lex', requires=['old(self).inv(true)'],
     ensures=INV_ENS + ['final(self).bv() == old(self).bv()', 'final(self).srcv() == old(self).srcv()',
                        'final(self).bnd() == old(self).bnd()',
                        C('old(self).cur() != TokenKind::Eof ==> final(self).fuel() < old(self).fuel()', 'C02', name='lex makes progress'),
                        FUEL_LE])
U.fn('parser.rs', 'ParserBase::skip', requires=PINV,
     ensures=EAT_LIKE + ['!final(self).cur().spec_is_trivia()', 'old(self).cur().spec_is_trivia() || *final(self) == *old(self)'],
     loops={0: dict(invariant=['self.inv(false)', 'self.fuel() <= old(self).fuel()', 'self.same_shape(old(self))',
                               'old(self).cur().spec_is_trivia() || *self == *old(self)'],
                    decreases='self.fuel()')})

import grammar_contracts  # noqa: E402  (adds the grammar functions to U)
grammar_contracts.add(U)
import lexer_c14  # noqa: E402
lexer_c14.add(U)
import completion_c20  # noqa: E402
completion_c20.add(U)
