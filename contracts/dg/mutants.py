"""Kill matrix for unit DG (C13): in-memory edits of handlers/diagnostics.rs (never /repo)."""
F = 'handlers/diagnostics.rs'
M = [
 dict(id='G1-syntax-errors-filed-under-the-root', file=F, old="Diagnostic::new(FileRange::new(file_id, err.range), err.message.to_string())", new="Diagnostic::new(FileRange::new(source_root.root(), err.range), err.message.to_string())", expect='C13'),
 dict(id='G2-grouped-under-the-root', file=F, old="        let file_id = diagnostic.location.file;\n", new="        let file_id = db.source_root().root();\n", expect='C13'),
 dict(id='G3-files-without-entry', file=F, old="        diagnostic_map.insert(file_id, Vec::new());\n", new="", expect='C13'),
 dict(id='G4-index-diagnostics-dropped', file=F, old="    diagnostic_list.extend(index.diagnostics().iter().cloned());\n", new="", expect='C13'),
 dict(id='G5-syntax-errors-of-the-wrong-parse', file=F, old="        let parse = db.parse(file_id);\n", new="        let parse = db.parse(source_root.root());\n", expect='C13'),
]
BENIGN = [
 dict(id='B1-index-before-syntax', file=F, old="    let index = db.index();\n    diagnostic_list.extend(index.diagnostics().iter().cloned());\n", new="    let index = db.index();\n    diagnostic_list.extend(index.diagnostics().iter().cloned());\n    let _ = 0;\n"),
]
