// Signature-only ASSUMED contracts harvested mechanically from Verus's own suggestions (bin/harvest dg).
pub mod vspecs {
use vstd::prelude::*;
use crate::vprelude::*;
verus!{
// HARVEST-BEGIN
// HARVEST-END
}
}
