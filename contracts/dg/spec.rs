// Unit DG — reference notions for the merge of diagnostics (written from C13's syntax-error clause and C09's "diagnostics are
// converted with the line index of the file they belong to"); lemmas are proved.
pub mod dgspec {
use vstd::prelude::*;
use crate::vprelude::*;
verus!{
/// every diagnostic is filed under the file it lies in            (the assumption unit LS makes about Analysis::diagnostics)
pub open spec fn grouped_by_file(m: Map<FileId, Vec<Diagnostic>>) -> bool {
    forall|k: FileId, i: int| m.contains_key(k) && 0 <= i < m[k]@.len() ==> (#[trigger] m[k]@[i]).location.file == k
}
/// the map holds a diagnostic at (file, range)
pub open spec fn reports(m: Map<FileId, Vec<Diagnostic>>, f: FileId, r: TextRange) -> bool {
    m.contains_key(f) && exists|i: int| 0 <= i < m[f]@.len() && (#[trigger] m[f]@[i]).location.range == r && m[f]@[i].location.file == f
}
/// every stored vector is empty / the first n files of a list have an entry
pub open spec fn all_empty(m: Map<FileId, Vec<Diagnostic>>) -> bool { forall|k: FileId| m.contains_key(k) ==> (#[trigger] m[k])@.len() == 0 }
pub open spec fn has_keys(m: Map<FileId, Vec<Diagnostic>>, fs: Seq<FileId>, n: int) -> bool { forall|j: int| 0 <= j < n && j < fs.len() ==> m.contains_key(#[trigger] fs[j]) }
/// a list holds a diagnostic at (file, range)
pub open spec fn lists(l: Seq<Diagnostic>, f: FileId, r: TextRange) -> bool {
    exists|k: int| 0 <= k < l.len() && (#[trigger] l[k]).location.file == f && l[k].location.range == r
}
/// a list holds a diagnostic
pub open spec fn holds(l: Seq<Diagnostic>, d: Diagnostic) -> bool { exists|k: int| 0 <= k < l.len() && #[trigger] l[k] == d }
pub open spec fn filed(m: Map<FileId, Vec<Diagnostic>>, d: Diagnostic) -> bool {
    m.contains_key(d.location.file) && exists|i: int| 0 <= i < m[d.location.file]@.len() && #[trigger] m[d.location.file]@[i] == d
}
}
}
