"""Unit DG (C13 partial, C09/C11 support): ide::handlers::diagnostics::exec — the merge of syntax errors and index diagnostics
into the per-file map the server publishes."""
from splice import UnitSpec, C

U = UnitSpec('dg', '/repo/crates/ide/src', None, default_tags='C13')
U.root_text = '''
pub mod file_system { pub use ide::file_system::*; }
pub mod index { pub use ide::index::*; }
'''
U.extra_files = [('handlers/diagnostics.rs', 'diagnostics')]
U.prelude_files = ['/verif/contracts/dg/prelude.rs', '/verif/contracts/dg/harvested.rs', '/verif/contracts/dg/spec.rs']
U.extra_uses = 'use vstd::prelude::*;\n#[allow(unused_imports)] use crate::vprelude::*;\n#[allow(unused_imports)] use crate::vspecs::*;\n#[allow(unused_imports)] use crate::dgspec::*;\n'
U.externs = ['ide', 'syntax', 'ecow', 'rowan', 'salsa']
U.repo_build = ['-p', 'ide']
U.flags = ['--no-trait-conflicts']
U.desugar_for = True
U.kind_tags = {}
F = 'handlers/diagnostics.rs'
U.drop_item(F, 'struct', r'Diagnostic', 'R9', 'data type comes from the linked ide crate')
U.drop_item(F, 'impl', r'Diagnostic', 'R9', 'comes from the linked ide crate')
U.fn(F, 'exec', attrs=['exec_allows_no_decreases_clause'])
