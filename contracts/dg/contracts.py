"""Unit DG (C13 partial, C09/C11 support): ide::handlers::diagnostics::exec — the merge of syntax errors and index diagnostics
into the per-file map the server publishes."""
from splice import UnitSpec, C

U = UnitSpec('dg', '/repo/crates/ide/src', None, default_tags='C13')
U.root_text = '''
pub mod file_system { pub use ide::file_system::*; }
pub mod index { pub use ide::index::*; }
'''
U.extra_files = [('handlers/diagnostics.rs', 'diagnostics')]
U.prelude_files = ['/verif/contracts/dg/prelude.rs', '/verif/contracts/dg/harvested.rs', '/verif/contracts/dg/spec.rs']
U.extra_uses = 'use vstd::prelude::*;\n#[allow(unused_imports)] use crate::vprelude::*;\n#[allow(unused_imports)] use crate::vspecs::*;\n#[allow(unused_imports)] use crate::dgspec::*;\n#[allow(unused_imports)] use vstd::std_specs::iter::IteratorSpec;\n'
U.externs = ['ide', 'syntax', 'ecow', 'rowan', 'salsa']
U.repo_build = ['-p', 'ide']
U.flags = ['--no-trait-conflicts']
U.desugar_for = True
U.kind_tags = {}
F = 'handlers/diagnostics.rs'
U.drop_item(F, 'struct', r'Diagnostic', 'R9', 'data type comes from the linked ide crate')
U.drop_item(F, 'impl', r'Diagnostic', 'R9', 'comes from the linked ide crate')
U.prepend(F, 'broadcast use {ax_fileid_key_model, axiom_random_state_builds_valid_hashers};')
DL = 'Vec<Diagnostic>'
U.fn(F, 'exec', attrs=['exec_allows_no_decreases_clause'],
     ensures=[C('grouped_by_file(ret@)', 'C13 C09', name='every diagnostic is filed under the file it lies in (what the server relies on when it converts them)'),
              C('forall|j: int, i: int| 0 <= j < ws_files(db).len() && 0 <= i < syntax_errors(db, ws_files(db)[j]).len() ==> reports(ret@, ws_files(db)[j], #[trigger] syntax_errors(db, ws_files(db)[j])[i])', 'C13',
                name='every syntax error of every file of the workspace (root or included) is reported in that file, at its range'),
              C('forall|k: int| 0 <= k < index_diags(db).len() ==> filed(ret@, #[trigger] index_diags(db)[k])', 'C13', name='every diagnostic of the indexer is reported in its own file'),
              C('forall|j: int| 0 <= j < ws_files(db).len() ==> ret@.contains_key(#[trigger] ws_files(db)[j])', 'C13 C11', name='every file of the workspace has an entry (possibly empty: stale diagnostics get cleared)')],
     lift=[dict(closure=0, name='syntax_diagnostic', sig='(file_id: FileId, @CAPTURES@err: &SyntaxError) -> (ret: Diagnostic)', replace='|err| syntax_diagnostic(file_id, @CAPTURES@err)',
                captures=[('source_root', '&SourceRoot', '&source_root')],
                ensures=[C('ret.location.range == err.range', 'C13 C17', name='a syntax diagnostic carries the range of the syntax error'), C('ret.location.file == file_id', 'C13 C17', name='a syntax error is reported in the file whose parse produced it')])],
     outline=[dict(move=True, rx=r'diagnostic_list\.extend\(parse\.errors\(\)\.iter\(\)\.map\(.*?\}\)\)', name='o_extend_syntax',
                   sig='(diagnostic_list: &mut %s, parse: &syntax::Parse, file_id: FileId, source_root: &SourceRoot)' % DL, call='o_extend_syntax(&mut diagnostic_list, &parse, file_id, &source_root)',
                   ensures=['final(diagnostic_list)@.len() == old(diagnostic_list)@.len() + parse_errors(parse).len()',
                            'forall|k: int| 0 <= k < old(diagnostic_list)@.len() ==> final(diagnostic_list)@[k] == old(diagnostic_list)@[k]',
                            'forall|i: int| 0 <= i < parse_errors(parse).len() ==> (#[trigger] final(diagnostic_list)@[old(diagnostic_list)@.len() + i]).location.file == file_id && final(diagnostic_list)@[old(diagnostic_list)@.len() + i].location.range == parse_errors(parse)[i]'],
                   why='Vec::extend over slice.iter().map(closure); ASSUMED: appends closure(e) for every error e, in order - the closure itself is moved out and verified (R15)'),
              dict(move=True, optional=True, rx=r'diagnostic_list\.extend\(index\.diagnostics\(\)\.iter\(\)\.cloned\(\)\)', name='o_extend_index',
                   sig='(diagnostic_list: &mut %s, index: &Arc<Index>)' % DL, call='o_extend_index(&mut diagnostic_list, &index)',
                   ensures=['final(diagnostic_list)@ == old(diagnostic_list)@ + idx_diags(&**index)'], why='Vec::extend over slice.iter().cloned()'),
              dict(move=True, rx=r'let diagnostics = diagnostic_map\.entry\(file_id\)\.or_insert_with\(Vec::new\);\s*diagnostics\.push\(diagnostic\);', name='o_file_under',
                   sig='(diagnostic_map: &mut HashMap<FileId, %s>, file_id: FileId, diagnostic: Diagnostic)' % DL, call='o_file_under(&mut diagnostic_map, file_id, diagnostic);',
                   ensures=['final(diagnostic_map)@.contains_key(file_id)',
                            'final(diagnostic_map)@[file_id]@ == (if old(diagnostic_map)@.contains_key(file_id) { old(diagnostic_map)@[file_id]@ } else { Seq::<Diagnostic>::empty() }).push(diagnostic)',
                            'forall|k: FileId| k != file_id ==> final(diagnostic_map)@.contains_key(k) == old(diagnostic_map)@.contains_key(k)',
                            'forall|k: FileId| k != file_id && old(diagnostic_map)@.contains_key(k) ==> #[trigger] final(diagnostic_map)@[k] == old(diagnostic_map)@[k]'],
                   why='HashMap entry API returning &mut Vec; ASSUMED: pushes the diagnostic onto the vector stored under the key (created empty if absent)'),
              dict(rx=r'source_root\.iter_files\(\)', name='o_files', sig='(source_root: &Arc<SourceRoot>) -> (r: std::vec::IntoIter<FileId>)', call='o_files(&source_root)',
                   wrap=('', '.collect::<Vec<_>>().into_iter()'), ensures=['r.remaining() =~= sr_files(&**source_root)', 'r.obeys_prophetic_iter_laws()', 'r.decrease() is Some'],
                   why='SourceRoot::iter_files returns an opaque `impl Iterator`; collected into a Vec to walk it with a specified iterator'),
              dict(rx=r'db\.source_root\(\)\.iter_files\(\)', name='o_files_of_db', sig='(db: &dyn IndexDatabase) -> (r: std::vec::IntoIter<FileId>)', call='o_files_of_db(db)',
                   wrap=('', '.collect::<Vec<_>>().into_iter()'), ensures=['r.remaining() =~= ws_files(db)', 'r.obeys_prophetic_iter_laws()', 'r.decrease() is Some'],
                   why='as above')],
     loops={
       0: dict(after_iter_init='let ghost files = __it0.remaining(); let ghost mut n: int = 0;',
               invariant=['0 <= n <= files.len()', '__it0.remaining() =~= files.skip(n)', '__it0.obeys_prophetic_iter_laws()', '__it0.decrease() is Some', 'files =~= ws_files(db)',
                          C('forall|j: int, i: int| 0 <= j < n && 0 <= i < syntax_errors(db, files[j]).len() ==> lists(diagnostic_list@, files[j], #[trigger] syntax_errors(db, files[j])[i])', 'C13',
                            name='the syntax errors of every file visited so far are in the list, each under its own file')],
               ensures=['forall|j: int, i: int| 0 <= j < ws_files(db).len() && 0 <= i < syntax_errors(db, ws_files(db)[j]).len() ==> lists(diagnostic_list@, ws_files(db)[j], #[trigger] syntax_errors(db, ws_files(db)[j])[i])'],
               body_prologue='let ghost l0 = diagnostic_list@; proof { assert(files.skip(n)[0] == files[n]); n = n + 1; }',
               body_epilogue='; proof { let l1 = diagnostic_list@; assert forall|j: int, i: int| 0 <= j < n && 0 <= i < syntax_errors(db, files[j]).len() implies lists(l1, files[j], #[trigger] syntax_errors(db, files[j])[i]) by { '
                             'let r = syntax_errors(db, files[j])[i]; '
                             'if j < n - 1 { let k = choose|k: int| 0 <= k < l0.len() && (#[trigger] l0[k]).location.file == files[j] && l0[k].location.range == r; assert(l1[k] == l0[k]); } '
                             'else { let k = l0.len() + i; assert(l1[k].location.file == files[j] && l1[k].location.range == r); } } }',
               decreases='__it0.decrease().unwrap()'),
       1: dict(after_iter_init='let ghost files1 = __it1.remaining(); let ghost mut n1: int = 0;',
               invariant=['0 <= n1 <= files1.len()', '__it1.remaining() =~= files1.skip(n1)', '__it1.obeys_prophetic_iter_laws()', '__it1.decrease() is Some', 'files1 =~= ws_files(db)',
                          C('has_keys(diagnostic_map@, files1, n1)', name='every workspace file visited so far has an entry'), 'all_empty(diagnostic_map@)'],
               ensures=['has_keys(diagnostic_map@, ws_files(db), ws_files(db).len() as int)'],
               body_prologue='proof { assert(files1.skip(n1)[0] == files1[n1]); n1 = n1 + 1; }',
               decreases='__it1.decrease().unwrap()'),
       2: dict(after_iter_init='let ghost all = __it2.remaining(); let ghost mut n2: int = 0;',
               invariant=['0 <= n2 <= all.len()', '__it2.remaining() =~= all.skip(n2)', '__it2.obeys_prophetic_iter_laws()', '__it2.decrease() is Some', 'all =~= l2',
                          C('grouped_by_file(diagnostic_map@)', 'C13 C09', name='every diagnostic filed so far sits under the file it lies in'),
                          'has_keys(diagnostic_map@, ws_files(db), ws_files(db).len() as int)',
                          C('forall|k: int| 0 <= k < n2 ==> filed(diagnostic_map@, #[trigger] all[k])', 'C13', name='every diagnostic taken from the list so far is in the map, under its own file')],
               ensures=['forall|k: int| 0 <= k < l2.len() ==> filed(diagnostic_map@, #[trigger] l2[k])'],
               body_prologue='let ghost m0 = diagnostic_map@; proof { assert(all.skip(n2)[0] == all[n2]); n2 = n2 + 1; }',
               body_epilogue=' proof { let m1 = diagnostic_map@; let d = all[n2 - 1]; let f = d.location.file; '
                             'assert(m1[f]@.len() >= 1 && m1[f]@[m1[f]@.len() - 1] == d); '
                             'assert forall|k: FileId, i: int| m1.contains_key(k) && 0 <= i < m1[k]@.len() implies (#[trigger] m1[k]@[i]).location.file == k by { '
                             'if k == f { if i < m1[k]@.len() - 1 { assert(m0.contains_key(k)); assert(m1[k]@[i] == m0[k]@[i]); } } else { assert(m0.contains_key(k)); assert(m1[k] == m0[k]); } } '
                             'assert forall|k: int| 0 <= k < n2 implies filed(m1, #[trigger] all[k]) by { '
                             'if k < n2 - 1 { let g = all[k].location.file; let i = choose|i: int| 0 <= i < m0[g]@.len() && #[trigger] m0[g]@[i] == all[k]; '
                             'if g == f { assert(m1[g]@[i] == m0[g]@[i]); } else { assert(m1[g] == m0[g]); assert(m1[g]@[i] == all[k]); } } '
                             'else { assert(m1[f]@[m1[f]@.len() - 1] == d); } } }',
               decreases='__it2.decrease().unwrap()'),
     },
     body_proofs=[(r'for diagnostic in diagnostic_list', 'let ghost l2 = diagnostic_list@; '
                   'proof { assert(all_empty(diagnostic_map@)); assert(grouped_by_file(diagnostic_map@)); }'),
                  (r'let mut diagnostic_map = HashMap::new\(\);', 'let ghost l1x = diagnostic_list@;'),
                  (r'diagnostic_map\n\}', 'proof { let m = diagnostic_map@; let fs = ws_files(db); '
                   'assert forall|j: int, i: int| 0 <= j < fs.len() && 0 <= i < syntax_errors(db, fs[j]).len() implies reports(m, fs[j], #[trigger] syntax_errors(db, fs[j])[i]) by { '
                   'let r = syntax_errors(db, fs[j])[i]; let k = choose|k: int| 0 <= k < lsyn.len() && (#[trigger] lsyn[k]).location.file == fs[j] && lsyn[k].location.range == r; '
                   'assert(l2[k] == lsyn[k]); assert(filed(m, l2[k])); let i2 = choose|i2: int| 0 <= i2 < m[fs[j]]@.len() && #[trigger] m[fs[j]]@[i2] == l2[k]; } '
                   'assert forall|k: int| 0 <= k < index_diags(db).len() implies filed(m, #[trigger] index_diags(db)[k]) by { assert(l2[lsyn.len() + k] == index_diags(db)[k]); assert(filed(m, l2[lsyn.len() + k])); } }'),
                  (r'let index = db\.index\(\);', 'let ghost lsyn = diagnostic_list@;')],
     )
