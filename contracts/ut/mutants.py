"""Kill matrix for unit UT (C17/C18): in-memory edits of utils.rs (never /repo)."""
F = 'utils.rs'
M = [
 dict(id='T1-stops-at-trivia', file=F, old="if !token.kind().is_trivia() {", new="if token.kind().is_trivia() {", expect='C17'),
 dict(id='T2-ends-at-token-start', file=F, old="return TextRange::new(start, token.text_range().end());", new="return TextRange::new(start, token.text_range().start());", expect='C17'),
 dict(id='T3-starts-at-node-end', file=F, old="let start = node.text_range().start();", new="let start = node.text_range().end();", expect='C17'),
 dict(id='T4-no-trimming', file=F, old="if !token.kind().is_trivia() {", new="if true {", expect='C17'),
]
BENIGN = [
 dict(id='B1-named-end', file=F, old="return TextRange::new(start, token.text_range().end());", new="let end = token.text_range().end();\n            return TextRange::new(start, end);"),
]
