"""Unit UT (C17 / C18): ide::utils::range_excluding_trivia - the range of a node without its trailing trivia."""
from splice import UnitSpec, C

U = UnitSpec('ut', '/repo/crates/ide/src', None, default_tags='C17 C18')
U.root_text = ''
U.extra_files = [('utils.rs', 'utils')]
U.prelude_files = ['/verif/contracts/ut/prelude.rs']
U.extra_uses = 'use vstd::prelude::*;\n#[allow(unused_imports)] use crate::vprelude::*;\n'
U.externs = ['syntax', 'rowan']
U.repo_build = ['-p', 'ide']
U.kind_tags = {}
F = 'utils.rs'
HASTOK = 'exists|i: int| node_lo(node) <= i < node_hi(node) && !(#[trigger] file_toks(node)[i]).trivia'
U.fn(F, 'range_excluding_trivia',
     requires=['node_wf(node)', C(HASTOK, name='ASSUMED at the call sites: the node contains a non-trivia token (a statement starts with its keyword, an include path is a string token)')],
     ensures=[C('tr_start(ret) == node_start(node)', name='the range starts where the node starts'),
              C('exists|j: int| node_lo(node) <= j < node_hi(node) && !(#[trigger] file_toks(node)[j]).trivia && tr_end(ret) == file_toks(node)[j].end '
                '&& forall|k: int| j < k < node_hi(node) ==> (#[trigger] file_toks(node)[k]).trivia', 'C17 C18', name='the range ends at the end of the node\'s last non-trivia token'),
              C('tr_start(ret) <= tr_end(ret) <= node_end(node)', name='start <= end, inside the node')],
     loops={0: dict(invariant=['node_wf(node)', HASTOK, C('ts_val(start) == node_start(node)', name='the trimmed range starts where the node starts'),
                               'end_token matches Some(t) ==> tok_file_toks(&t) == file_toks(node) && node_lo(node) <= tok_idx(&t) < node_hi(node) && forall|k: int| tok_idx(&t) < k < node_hi(node) ==> (#[trigger] file_toks(node)[k]).trivia',
                               'end_token is None ==> false'],
                    ensures=[C('false', name='the walk always stops at a non-trivia token of the node: the fall-through to an empty range is unreachable')],
                    decreases='match end_token { Some(t) => tok_idx(&t) + 1, None => 0 }')},
     body_proofs=[(r'return TextRange::new', 'proof { let j = tok_idx(&token); assert(node_lo(node) <= j < node_hi(node) && !file_toks(node)[j].trivia); assert(forall|k: int| j < k < node_hi(node) ==> (#[trigger] file_toks(node)[k]).trivia); }')])
