// Signature-only ASSUMED contracts harvested mechanically from Verus's own suggestions (bin/harvest ih).
pub mod vspecs {
use vstd::prelude::*;
use crate::vprelude::*;
verus!{
// HARVEST-BEGIN
pub assume_specification [ide::symbol_map::SymbolMap::iter_symbols_in_range] (_0: &ide::symbol_map::SymbolMap, _1: ide::file_system::FileRange) -> std::option::Option<impl std::iter::Iterator<Item = (ide::file_system::FileRange, ide::symbol_map::symbol::SymbolId)> + '_>;
// HARVEST-END
}
}
