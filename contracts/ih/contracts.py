"""Unit IH (C19, the range clause): ide::handlers::inlay_hint::exec returns only hints inside the requested range."""
from splice import UnitSpec, C

U = UnitSpec('ih', '/repo/crates/ide/src', None, default_tags='C19')
U.root_text = '''
pub mod file_system { pub use ide::file_system::*; }
pub mod index { pub use ide::index::*; }
pub mod symbol_map { pub use ide::symbol_map::*; }
'''
U.extra_files = [('handlers/inlay_hint.rs', 'inlay_hint')]
U.prelude_files = ['/verif/contracts/ih/prelude.rs', '/verif/contracts/ih/harvested.rs']
U.extra_uses = 'use vstd::prelude::*;\n#[allow(unused_imports)] use crate::vprelude::*;\n#[allow(unused_imports)] use crate::vspecs::*;\n'
U.externs = ['ide', 'syntax', 'ecow', 'rowan', 'salsa']
U.repo_build = ['-p', 'ide']
U.flags = ['--no-trait-conflicts']
U.scope_listed = True
U.kind_tags = {}
U.delete_stmt_macros = {'tracing::debug', 'tracing::info', 'tracing::warn', 'tracing::error', 'tracing::trace'}
F = 'handlers/inlay_hint.rs'
IN = 'tr_start(range.range) <= ts_val(%s) <= tr_end(range.range)'
U.fn(F, 'exec',
     ensures=[C('ret matches Some(v) ==> forall|i: int| 0 <= i < v@.len() ==> ' + IN % '(#[trigger] v@[i]).position', name='only hints inside the requested range are returned')],
     lift=[dict(closure=0, optional=True, name='hint_in_range', sig='(@CAPTURES@hint: &InlayHint) -> (ret: bool)', replace='|hint| hint_in_range(@CAPTURES@hint)', captures=[('range', 'FileRange', 'range')],
                ensures=[C('ret == (' + IN % 'hint.position' + ')', name='a hint is kept iff its position lies inside the requested range')])],
     outline=[dict(move=True, rx=r'for \(symbol_loc, symbol_id\) in iter \{.*?\n    \}\n', name='o_collect_hints',
                   sig="<I: Iterator<Item = (FileRange, ide::symbol_map::symbol::SymbolId)>>(db: &dyn IndexDatabase, symbol_map: &ide::symbol_map::SymbolMap, iter: I, hints: &mut Vec<InlayHint>)",
                   call='o_collect_hints(db, symbol_map, iter, &mut hints);\n', why='the loop that gathers the hints of every symbol overlapping the range (rowan navigation, format!); what it gathers is not constrained here - the filter below is'),
              dict(move=True, optional=True, rx=r'hints\.retain\(.*?\)\);', name='o_retain_in_range', sig='(hints: &mut Vec<InlayHint>, range: FileRange)', call='o_retain_in_range(&mut hints, range);',
                   ensures=['forall|i: int| 0 <= i < final(hints)@.len() ==> ' + IN % '(#[trigger] final(hints)@[i]).position'],
                   why='Vec::retain(closure); ASSUMED: keeps exactly the elements for which the closure answers true - the closure is moved out and verified (R15)')])
