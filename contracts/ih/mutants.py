"""Kill matrix for unit IH (C19, range clause): in-memory edits of handlers/inlay_hint.rs (never /repo)."""
F = 'handlers/inlay_hint.rs'
M = [
 dict(id='H1-no-filter', file=F, old="    hints.retain(|hint| range.range.contains_inclusive(hint.position));\n", new="", expect='C19'),
 dict(id='H2-filter-inverted', file=F, old="hints.retain(|hint| range.range.contains_inclusive(hint.position));", new="hints.retain(|hint| !range.range.contains_inclusive(hint.position));", expect='C19'),
]
BENIGN = []
