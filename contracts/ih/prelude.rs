// Unit IH prelude (C19, the range clause): crates/ide/src/handlers/inlay_hint.rs::exec verified as its own crate against the real
// ide / syntax rlibs.  Everything here is ASSUMED.
pub mod vprelude {
use vstd::prelude::*;
pub use vstd::std_specs::hash::*;
pub use std::collections::HashMap;
pub use std::sync::Arc;
pub use ide::file_system::{FileId, FileRange, SourceRoot};
pub use ide::handlers::diagnostics::Diagnostic;
pub use ide::index::{Index, IndexDatabase};
pub use syntax::parser::TextRange;
verus!{
#[verifier::external_type_specification] pub struct ExFileId(FileId);
#[verifier::external_type_specification] pub struct ExFileRange(FileRange);
#[verifier::external_type_specification] pub struct ExDiagnostic(Diagnostic);
#[verifier::external_type_specification] #[verifier::external_body] pub struct ExTextRange(TextRange);
#[verifier::external_type_specification] #[verifier::external_body] pub struct ExTextSize(syntax::parser::TextSize);
#[verifier::external_type_specification] #[verifier::external_body] pub struct ExSymbolMap(ide::symbol_map::SymbolMap);
#[verifier::external_type_specification] #[verifier::external_body] pub struct ExSymbolId(ide::symbol_map::symbol::SymbolId);
pub uninterp spec fn ts_val(t: syntax::parser::TextSize) -> nat;
pub uninterp spec fn tr_start(r: TextRange) -> nat;
pub uninterp spec fn tr_end(r: TextRange) -> nat;
/// text-size: contains_inclusive(o) is start <= o <= end
pub assume_specification [TextRange::contains_inclusive] (r: TextRange, o: syntax::parser::TextSize) -> (b: bool) ensures b == (tr_start(r) <= ts_val(o) <= tr_end(r));
pub assume_specification [Index::symbol_map] (i: &Index) -> &ide::symbol_map::SymbolMap;
#[verifier::external_type_specification] #[verifier::external_body] pub struct ExSourceRoot(SourceRoot);
#[verifier::external_type_specification] #[verifier::external_body] pub struct ExIndex(Index);
#[verifier::external_type_specification] #[verifier::external_body] pub struct ExParse(syntax::Parse);
#[verifier::external_type_specification] #[verifier::external_body] pub struct ExLineIndex(ide::line_index::LineIndex);
#[verifier::external_type_specification] #[verifier::external_body] pub struct ExIncludeId(ide::file_system::IncludeId);
#[verifier::external_type_specification] #[verifier::external_body] pub struct ExIDS(ide::index::IndexDatabaseStorage);
#[verifier::external_type_specification] #[verifier::external_body] pub struct ExSDS(ide::db::SourceDatabaseStorage);
#[verifier::external_trait_specification] pub trait ExQueryGroup: Sized { type ExternalTraitSpecificationFor: salsa::plumbing::QueryGroup; }
#[verifier::external_trait_specification] pub trait ExDatabaseOps { type ExternalTraitSpecificationFor: salsa::plumbing::DatabaseOps; }
#[verifier::external_trait_specification] pub trait ExSalsaDatabase: salsa::plumbing::DatabaseOps { type ExternalTraitSpecificationFor: salsa::Database; }
#[verifier::external_trait_specification] pub trait ExHasQueryGroup<G: salsa::plumbing::QueryGroup>: salsa::Database { type ExternalTraitSpecificationFor: salsa::plumbing::HasQueryGroup<G>; }

// ---------------------------------------------------------------- what the database answers (functions of the revision; uninterpreted)
/// the files of the current workspace, in the order `SourceRoot::iter_files` yields them
pub uninterp spec fn ws_files<D: ?Sized>(db: &D) -> Seq<FileId>;
/// the syntax errors of a file's parse, as (range) list
pub uninterp spec fn syntax_errors<D: ?Sized>(db: &D, f: FileId) -> Seq<TextRange>;
/// the diagnostics the indexer produced
pub uninterp spec fn index_diags<D: ?Sized>(db: &D) -> Seq<Diagnostic>;
pub uninterp spec fn sr_files(s: &SourceRoot) -> Seq<FileId>;
pub uninterp spec fn parse_errors(p: &syntax::Parse) -> Seq<TextRange>;
pub uninterp spec fn idx_diags(i: &Index) -> Seq<Diagnostic>;

#[verifier::external_trait_specification]
pub trait ExSourceDatabase: salsa::Database + salsa::plumbing::HasQueryGroup<ide::db::SourceDatabaseStorage> {
    type ExternalTraitSpecificationFor: ide::db::SourceDatabase;
    fn parse(&self, file_id: FileId) -> (r: syntax::Parse) ensures parse_errors(&r) == syntax_errors(self, file_id);
    fn source_root(&self) -> (r: Arc<SourceRoot>) ensures sr_files(&*r) == ws_files(self);
}
#[verifier::external_trait_specification]
pub trait ExIndexDatabase: salsa::Database + salsa::plumbing::HasQueryGroup<ide::index::IndexDatabaseStorage> + ide::db::SourceDatabase {
    type ExternalTraitSpecificationFor: ide::index::IndexDatabase;
    fn index(&self) -> (r: Arc<Index>) ensures idx_diags(&*r) == index_diags(self);
}

pub use syntax::error::SyntaxError;
#[verifier::external_type_specification] pub struct ExSyntaxError(SyntaxError);
/// FileRange::new / Diagnostic::new are plain constructors (file_system.rs, handlers/diagnostics.rs)
pub assume_specification [FileRange::new] (file: FileId, range: TextRange) -> (r: FileRange) ensures r.file == file, r.range == range;
pub assume_specification<M: Into<String>> [Diagnostic::new] (location: FileRange, message: M) -> (r: Diagnostic) ensures r.location == location;
pub assume_specification [SourceRoot::root] (s: &SourceRoot) -> FileId;
/// A-hash: FileId (a u32 newtype with derived Eq/Hash) obeys vstd's key model
pub broadcast axiom fn ax_fileid_key_model() ensures #[trigger] obeys_key_model::<FileId>();
}
}
