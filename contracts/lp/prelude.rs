// Unit LP prelude (C10): crates/lsp/src/{to_proto,from_proto}.rs `position` / `range`, verified as their own crate against
// the real ide / async-lsp rlibs.  LineIndex's methods are ASSUMED here with the contract text that unit LI PROVES
// (module `li_contracts`, generated on every run from contracts/li/shared.py).
pub mod vprelude {
use vstd::prelude::*;
pub use ide::line_index::LineIndex;
pub use text_size::{TextRange, TextSize};
pub use async_lsp::lsp_types;
pub use crate::lispec::*;
verus!{
#[verifier::external_type_specification] #[verifier::external_body] pub struct ExLineIndex(LineIndex);
#[verifier::external_type_specification] #[verifier::external_body] pub struct ExTextSize(TextSize);
#[verifier::external_type_specification] #[verifier::external_body] pub struct ExTextRange(TextRange);
#[verifier::external_type_specification] pub struct ExPosition(lsp_types::Position);
#[verifier::external_type_specification] pub struct ExRange(lsp_types::Range);
/// the text a line index was built from / offsets fit a TextSize
pub uninterp spec fn li_view(l: &LineIndex) -> Seq<char>;
pub open spec fn li_wf(l: &LineIndex) -> bool { blen(li_view(l)) <= u32::MAX }
pub uninterp spec fn ts_val(t: TextSize) -> nat;
pub uninterp spec fn tr_start(r: TextRange) -> nat;
pub uninterp spec fn tr_end(r: TextRange) -> nat;
// lsp-types 0.95: plain constructors
pub assume_specification [lsp_types::Position::new] (line: u32, character: u32) -> (r: lsp_types::Position) ensures r.line == line, r.character == character;
pub assume_specification [lsp_types::Range::new] (start: lsp_types::Position, end: lsp_types::Position) -> (r: lsp_types::Range) ensures r.start == start, r.end == end;
// text-size 1.1.1 (src/range.rs, src/size.rs, src/traits.rs): a TextSize is a u32, a TextRange an ordered pair of them
pub broadcast axiom fn ax_tr_ordered(r: TextRange) ensures #[trigger] tr_start(r) <= #[trigger] tr_end(r), tr_end(r) <= u32::MAX;
pub broadcast axiom fn ax_ts_u32(t: TextSize) ensures #[trigger] ts_val(t) <= u32::MAX;
pub assume_specification [TextRange::len] (r: TextRange) -> (s: TextSize) ensures ts_val(s) == tr_end(r) - tr_start(r);
pub assume_specification [TextRange::is_empty] (r: TextRange) -> (b: bool) ensures b == (tr_start(r) == tr_end(r));
pub assume_specification [TextRange::new] (start: TextSize, end: TextSize) -> (r: TextRange)
    requires ts_val(start) <= ts_val(end) ensures tr_start(r) == ts_val(start), tr_end(r) == ts_val(end);
pub assume_specification [<u32 as From<TextSize>>::from] (t: TextSize) -> (r: u32) ensures r == ts_val(t);
pub assume_specification [<usize as From<TextSize>>::from] (t: TextSize) -> (r: usize) ensures r == ts_val(t);
pub assume_specification [<TextSize as From<u32>>::from] (x: u32) -> (r: TextSize) ensures ts_val(r) == x;
// (Verus does not let a trait-method impl carry `requires`: the overflow / underflow panic of TextSize arithmetic is NOT modelled)
pub assume_specification [<TextSize as core::ops::Add>::add] (a: TextSize, b: TextSize) -> (r: TextSize)
    ensures ts_val(a) + ts_val(b) <= u32::MAX ==> ts_val(r) == ts_val(a) + ts_val(b);
pub assume_specification [<TextSize as core::ops::Sub>::sub] (a: TextSize, b: TextSize) -> (r: TextSize)
    ensures ts_val(b) <= ts_val(a) ==> ts_val(r) == ts_val(a) - ts_val(b);
pub assume_specification [TextRange::start] (r: TextRange) -> (s: TextSize) ensures ts_val(s) == tr_start(r);
pub assume_specification [TextRange::end] (r: TextRange) -> (s: TextSize) ensures ts_val(s) == tr_end(r);
}
}
