"""Kill matrix for unit LP (C10)."""
M = [
 dict(id='Q1-byte-column', file='to_proto.rs', old="let character = line_index.pos_to_col(position);", new="let character: u32 = (position - line_index.line_to_pos(line)).into();", expect='C10'),
 dict(id='Q2-line-and-column-swapped', file='to_proto.rs', old='lsp_types::Position::new(line.try_into().expect("line out of range"), character)', new='lsp_types::Position::new(character, line.try_into().expect("line out of range"))', expect='C10'),
 dict(id='Q3-from-proto-adds-column-as-bytes', file='from_proto.rs', old="line_index.line_col_to_pos(position.line.try_into().unwrap(), position.character)", new="line_index.line_to_pos(position.line.try_into().unwrap()) + TextSize::from(position.character)", expect='C10'),
 dict(id='Q4-range-ends-swapped', file='to_proto.rs', old="position(line_index, range.start()),\n        position(line_index, range.end()),", new="position(line_index, range.end()),\n        position(line_index, range.start()),", expect='C10'),
]
BENIGN = [
 dict(id='B1-named-intermediate', file='from_proto.rs', old="line_index.line_col_to_pos(position.line.try_into().unwrap(), position.character)", new="{ let l: usize = position.line.try_into().unwrap(); line_index.line_col_to_pos(l, position.character) }"),
]
