"""Unit LP (C10): the two `position` functions (and to_proto::range) of crates/lsp, checked against the contracts of
LineIndex that unit LI proves."""
from splice import UnitSpec, C
import sys, os
sys.path.insert(0, '/verif/contracts/li')
import shared

U = UnitSpec('lp', '/repo/crates/lsp/src', None, default_tags='C10')
U.root_text = ''
U.extra_files = [('to_proto.rs', 'to_proto'), ('from_proto.rs', 'from_proto')]
U.prelude_files = ['/verif/contracts/li/spec.rs', '/verif/contracts/lp/prelude.rs']


def li_contracts(build):
    K = shared.contracts('li_view(li)', 'li')
    sig = {'pos_to_line': '(li: &LineIndex, pos: TextSize) -> (ret: usize)', 'pos_to_col': '(li: &LineIndex, pos: TextSize) -> (ret: u32)',
           'line_to_pos': '(li: &LineIndex, line: usize) -> (ret: TextSize)', 'line_col_to_pos': '(li: &LineIndex, line: usize, col: u32) -> (ret: TextSize)'}
    out = ['pub mod li_contracts { use vstd::prelude::*; use crate::vprelude::*; verus!{',
           '// ASSUMED here, PROVED in unit LI: the same clause text (contracts/li/shared.py)']
    for name, s in sig.items():
        req, ens = K[name]
        tx = lambda c: (c.text if hasattr(c, 'text') else c)
        out.append('pub assume_specification [LineIndex::%s] %s\n    requires %s\n    ensures %s;' % (name, s, ',\n        '.join(tx(c) for c in req), ',\n        '.join(tx(c) for c in ens)))
    out.append('} }')
    return '\n'.join(out)


U.dynamic_preludes = [li_contracts]
U.extra_uses = 'use vstd::prelude::*;\n#[allow(unused_imports)] use crate::vprelude::*;\n#[allow(unused_imports)] use crate::li_contracts::*;\n'
U.externs = ['ide', 'syntax', 'async_lsp', 'text_size']
U.repo_build = ['-p', 'lsp', '--lib']
U.kind_tags = {'*': 'C10'}
for F, keep in [('to_proto.rs', r'position|range'), ('from_proto.rs', r'position')]:
    U.drop_item(F, 'fn', r'(?!(?:%s)$).*' % keep, 'R9', 'not a position conversion (outside this unit)')
    U.drop_item(F, 'use', r'.*crate::.*', 'R9', 'imports from the rest of the lsp crate, which is not part of this unit')
V = 'li_view(line_index)'
INSIDE = lambda e: C('%s <= blen(%s)' % (e, V), name='the offset lies inside the text')
PRO = 'proof { let s = li_view(line_index); lemma_line_of_mono(s, 0, s.len() as int); lemma_off_mono(s, 0, s.len() as int); }'
U.fn('to_proto.rs', 'position', rename={'position': 'position_'}, requires=['li_wf(line_index)', INSIDE('ts_val(position_)')],
     ensures=[C('forall|c: int| 0 <= c <= %(V)s.len() && ts_val(position_) == #[trigger] boff(%(V)s, c) ==> is_position_of(%(V)s, c, ret.line as int, ret.character as int)' % dict(V=V),
                name='an offset maps to the zero-based line containing it and the UTF-16 column within that line')],
     prologue=PRO)
U.fn('to_proto.rs', 'range', rename={'range': 'range_'}, requires=['li_wf(line_index)', INSIDE('tr_start(range_)'), INSIDE('tr_end(range_)')],
     ensures=[C('forall|c: int| 0 <= c <= %(V)s.len() && tr_start(range_) == #[trigger] boff(%(V)s, c) ==> is_position_of(%(V)s, c, ret.start.line as int, ret.start.character as int)' % dict(V=V), name='start of a range'),
              C('forall|c: int| 0 <= c <= %(V)s.len() && tr_end(range_) == #[trigger] boff(%(V)s, c) ==> is_position_of(%(V)s, c, ret.end.line as int, ret.end.character as int)' % dict(V=V), name='end of a range')])
U.fn('from_proto.rs', 'position', rename={'position': 'position_'}, requires=['li_wf(line_index)'],
     ensures=[C('is_offset_of(%s, position_.line as nat, position_.character as nat, ts_val(ret))' % V,
                name='a position maps to the offset of that line and UTF-16 column; a column past the end of a line means the line end')])
