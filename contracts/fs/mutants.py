"""Kill matrix for unit FS (C16): in-memory edits of file_system.rs (never /repo)."""
F = 'file_system.rs'
M = [
 dict(id='F1-no-visited-check', file=F, old="        if file_set.contains(&file_id) {\n            continue;\n        }\n", new="", expect='C16'),
 dict(id='F2-collected-include-not-recorded', file=F, old="                include_map.insert(include_id, resolved_file_id);\n                files.push_back(resolved_file_id);", new="                if file_set.contains(&resolved_file_id) { continue; }\n                include_map.insert(include_id, resolved_file_id);\n                files.push_back(resolved_file_id);", expect='C16'),
 dict(id='F3-include-not-queued', file=F, old="                include_map.insert(include_id, resolved_file_id);\n                files.push_back(resolved_file_id);", new="                include_map.insert(include_id, resolved_file_id);", expect='C16'),
 dict(id='F4-root-not-queued', file=F, old="    files.push_back(root_file);\n", new="", expect='C16'),
 dict(id='F5-map-not-stored', file=F, old="        db.set_resolved_include_map(file_id, include_map)\n", new="", expect='C16'),
 dict(id='F6-wrong-file-recorded', file=F, old="                include_map.insert(include_id, resolved_file_id);", new="                include_map.insert(include_id, file_id);", expect='C16'),
 dict(id='F7-file-not-marked-visited', file=F, old="        file_set.insert(file_id, file_path.clone());\n", new="", expect='C16'),
 dict(id='F8-id-of-the-directory', file=F, old="let file_id = fs.assign_or_get_file_id(candidate_file_path.clone());", new="let file_id = fs.assign_or_get_file_id(include_dir.clone());", expect='C16'),
 dict(id='F9-readability-of-the-directory', file=F, old="if let Some(file_content) = fs.read_content(&candidate_file_path) {", new="if let Some(file_content) = fs.read_content(include_dir) {", expect='C16'),
]
BENIGN = [
 dict(id='B1-queue-before-record', file=F, old="                include_map.insert(include_id, resolved_file_id);\n                files.push_back(resolved_file_id);", new="                files.push_back(resolved_file_id);\n                include_map.insert(include_id, resolved_file_id);"),
]
