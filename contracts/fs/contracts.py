"""Unit FS (C16): collect_sources terminates and returns exactly the files reachable from the root through the
include maps it stored in the database."""
from splice import UnitSpec, C

U = UnitSpec('fs', '/repo/crates/ide/src', None, default_tags='C16')
U.root_text = '''
pub mod db { pub use ide::db::*; }
'''
U.extra_files = [('file_system.rs', 'file_system')]
U.prelude_files = ['/verif/contracts/fs/prelude.rs', '/verif/contracts/fs/harvested.rs', '/verif/contracts/fs/spec.rs']
U.extra_uses = 'use vstd::prelude::*;\n#[allow(unused_imports)] use vstd::std_specs::iter::IteratorSpec;\n#[allow(unused_imports)] use crate::vprelude::*;\n#[allow(unused_imports)] use crate::vspecs::*;\n#[allow(unused_imports)] use crate::fsspec::*;\n'
U.externs = ['ide', 'syntax', 'ecow', 'rowan', 'salsa']
U.repo_build = ['-p', 'ide']
U.flags = ['--no-trait-conflicts']
U.desugar_for = True   # R4; the Vec iterator's vstd spec (IteratorSpec::remaining) gives termination of the inner loop
U.kind_tags = {}
F = 'file_system.rs'
U.prepend(F, 'broadcast use {ax_includeid_key_model, axiom_random_state_builds_valid_hashers, ax_asref_str};')
# data types and the FileSystem trait come from the linked ide crate
for kind, name in [('struct', 'FileId'), ('struct', 'FilePosition'), ('impl', 'FilePosition'), ('struct', 'FileRange'), ('impl', 'FileRange'), ('struct', 'FilePath'),
                   ('impl', 'FilePath'), ('impl', r'<FilePath as From<&Path>>'), ('struct', 'FileSet'), ('impl', 'FileSet'), ('struct', 'SourceRoot'), ('impl', 'SourceRoot'),
                   ('trait', 'FileSystem'), ('struct', 'IncludeId')]:
    U.drop_item(F, kind, name, 'R9', 'data type / trait comes from the linked ide crate')
U.drop_item(F, 'use', r'use crate::db::SourceDatabase;', 'R9', 'imported from the prelude')
U.fn(F, 'list_includes', attrs=['external_body'],
     ensures=[C('forall|i: int, j: int| 0 <= i < j < ret@.len() ==> (#[trigger] ret@[i]).0 != (#[trigger] ret@[j]).0', name='ASSUMED: distinct include statements have distinct ids (syntax node pointers)')])
U.fn(F, 'resolve_include_file',
     ensures=['incmap(final(db)) == incmap(old(db))', 'fs_universe(final(fs)) == fs_universe(old(fs))',
              'ret is Some ==> fs_universe(final(fs)).contains(ret.unwrap())',
              C('ret == resolve_spec(old(fs), include_path, include_dir_list@)', name='an include path resolves to the file of the FIRST directory of the list in which it is readable'),
              C('forall|p: EcoString, d: Seq<FilePath>| #[trigger] resolve_spec(final(fs), p, d) == resolve_spec(old(fs), p, d)', name='resolving one include does not change what the others resolve to')],
     loops={0: dict(after_iter_init='let ghost dirs = __it0.remaining(); let ghost mut n: int = 0;',
                    invariant=['0 <= n <= dirs.len()', '__it0.remaining() =~= dirs.skip(n)', '__it0.obeys_prophetic_iter_laws()', '__it0.decrease() is Some',
                               'dirs.len() == include_dir_list@.len()', 'forall|j: int| 0 <= j < dirs.len() ==> *(#[trigger] dirs[j]) == include_dir_list@[j]',
                               '*fs == *old(fs)', 'incmap(db) == incmap(old(db))',
                               C('resolve_from(fs, include_path, include_dir_list@, 0) == resolve_from(fs, include_path, include_dir_list@, n)', name='the path is not readable in any directory tried so far')],
                    ensures=['n == dirs.len()'],
                    body_prologue='proof { assert(dirs.skip(n)[0] == dirs[n]); n = n + 1; }',
                    decreases='__it0.decrease().unwrap()')},
     body_proofs=[(r'return Some\(file_id\);', 'proof { let f0 = old(fs); assert forall|p: EcoString, d: Seq<FilePath>| #[trigger] resolve_spec(fs, p, d) == resolve_spec(f0, p, d) by { lemma_resolve_frame(fs, f0, p, d, 0); } }')])
U.fn(F, 'collect_sources',
     requires=[C('fs_universe(old(fs)).finite()', name='ASSUMED: the file system can hand out only finitely many file ids'),
               'fs_universe(old(fs)).contains(root_file)'],
     ensures=[C('sroot_root(&ret) == root_file'),
              C('closed(incmap(final(db)), sroot_files(&ret))', name='every file a visited file includes is in the workspace'),
              C('sroot_files(&ret).contains(root_file)', name='the root is in the workspace'),
              C('forall|f: FileId| sroot_files(&ret).contains(f) ==> reachable(incmap(final(db)), root_file, f)', name='every file of the workspace is reachable from the root'),
              ],
     loops={
       0: dict(invariant=['fs_universe(fs) == fs_universe(old(fs))', 'fs_universe(fs).finite()', 'fset(&file_set).subset_of(fs_universe(fs))',
                          'forall|i: int| 0 <= i < files@.len() ==> fs_universe(fs).contains(#[trigger] files@[i])',
                          'qg == files@',
                          C('fset(&file_set).contains(root_file) || files@.contains(root_file)', name='BFS: the root is visited or queued'),
                          C('forall|f: FileId| fset(&file_set).contains(f) ==> #[trigger] incmap(db).contains_key(f)', name='BFS: every visited file has its include map stored'),
                          C('forall|f: FileId, g: FileId| fset(&file_set).contains(f) && #[trigger] incmap(db)[f].contains(g) ==> fset(&file_set).contains(g) || files@.contains(g)',
                            name='BFS: the includes of a visited file are visited or queued'),
                          C('forall|f: FileId| fset(&file_set).contains(f) || files@.contains(f) ==> #[trigger] reach_via(incmap(db), fset(&file_set), root_file, f)',
                            name='BFS: everything visited or queued is reachable from the root')],
               ensures=['files@.len() == 0'],
               decreases='fs_universe(fs).difference(fset(&file_set)).len(), files@.len()',
               before_loop='let ghost mut qg = files@; proof { lemma_reach_root(incmap(db), fset(&file_set), root_file); assert(files@[0] == root_file); }',
               body_prologue='let ghost v0 = fset(&file_set); let ghost m0 = incmap(db); let ghost q0 = files@; '
                             'proof { lemma_reach_root(m0, v0, root_file); lemma_pop_contains(qg, file_id, q0); }',
               body_epilogue='; proof { qg = files@; let v1 = fset(&file_set); let m1 = incmap(db); let uu = fs_universe(fs); '
                             'assert forall|g: FileId| #[trigger] q0.contains(g) implies files@.contains(g) by { let i = choose|i: int| 0 <= i < q0.len() && q0[i] == g; assert(files@[i] == g); } '
                             'assert(uu.difference(v1) =~= uu.difference(v0).remove(file_id)); assert(uu.difference(v0).contains(file_id)); '
                             'vstd::set_lib::lemma_len_subset(uu.difference(v0), uu); '
                             'assert forall|f: FileId| v1.contains(f) || files@.contains(f) implies #[trigger] reach_via(m1, v1, root_file, f) by { '
                             'lemma_reach_mono(m0, v0, m1, v1, root_file, file_id); '
                             'if v0.contains(f) || q0.contains(f) || f == file_id { lemma_reach_mono(m0, v0, m1, v1, root_file, f); } '
                             'else { let i = choose|i: int| 0 <= i < files@.len() && files@[i] == f; assert(i >= q0.len()); lemma_reach_step(m1, v1, root_file, file_id, f); } } }'),
       1: dict(after_iter_init='let ghost elems = __it1.remaining(); let ghost mut n: int = 0; let ghost dirs = include_dir_list@;',
               body_prologue='let ghost fq = files@; let ghost im0 = include_map@; proof { assert(elems.skip(n)[0] == elems[n]); n = n + 1; }',
               # order-independent: whatever this iteration did is read off the state at its end (at most one include recorded, at most one file queued)
               body_epilogue=' proof { let cur = n - 1; let k = elems[cur].0; '
                             'assert(!im0.contains_key(k)) by { if im0.contains_key(k) { let j = choose|j: int| 0 <= j < cur && (#[trigger] elems[j]).0 == k; assert(elems[j].0 != elems[cur].0); } } '
                             'if include_map@.contains_key(k) { let v = include_map@[k]; assert(include_map@ =~= im0.insert(k, v)); lemma_insert_values(im0, k, v); } else { assert(include_map@ =~= im0); } '
                             'if files@.len() == fq.len() + 1 { let x = files@[fq.len() as int]; assert(files@ =~= fq.push(x)); lemma_push_contains(fq, x); } else { assert(files@ =~= fq); } }',
               invariant=['fs_universe(fs) == fs_universe(old(fs))', 'fs_universe(fs).finite()', 'incmap(db) == m0', C('fset(&file_set) == v0.insert(file_id)', name='the file whose includes are being resolved is marked as visited'),
                          'forall|i: int| 0 <= i < files@.len() ==> fs_universe(fs).contains(#[trigger] files@[i])',
                          '0 <= n <= elems.len()', '__it1.remaining() =~= elems.skip(n)', '__it1.obeys_prophetic_iter_laws()', '__it1.decrease() is Some', 'include_dir_list@ == dirs',
                          'files@.len() >= q0.len()', 'forall|i: int| 0 <= i < q0.len() ==> #[trigger] files@[i] == q0[i]',
                          C('forall|x: FileId| include_map@.values().contains(x) ==> files@.contains(x)', name='every resolved include has been queued'),
                          C('forall|i: int| q0.len() <= i < files@.len() ==> include_map@.values().contains(#[trigger] files@[i])', name='everything queued for this file is in its include map'),
                          C('forall|j: int| 0 <= j < n ==> (match resolve_spec(fs, (#[trigger] elems[j]).1, dirs) { '
                            'Some(g) => include_map@.contains_key(elems[j].0) && include_map@[elems[j].0] == g, None => !include_map@.contains_key(elems[j].0) })',
                            name='an include statement is recorded in the include map iff it resolves, with the file it resolves to (document links, not-found diagnostics)'),
                          'forall|k: IncludeId| include_map@.contains_key(k) ==> exists|j: int| 0 <= j < n && (#[trigger] elems[j]).0 == k',
                          'forall|i: int, j: int| 0 <= i < j < elems.len() ==> (#[trigger] elems[i]).0 != (#[trigger] elems[j]).0'],
               decreases='__it1.decrease().unwrap()'),
     },
     body_proofs=[(r'SourceRoot::new\(file_set, root_file\)', 'proof { assert(files@.len() == 0); assert forall|g: FileId| !files@.contains(g) by { if files@.contains(g) { let i = choose|i: int| 0 <= i < files@.len() && files@[i] == g; } } '
                   'assert forall|f: FileId| fset(&file_set).contains(f) implies reachable(incmap(db), root_file, f) by { lemma_via_is_reachable(incmap(db), fset(&file_set), root_file, f); } }'),
                  (r'continue;', 'proof { qg = files@; }', 'optional')],
     )
