// signature-only assumed contracts harvested from Verus's hints (bin/harvest fs)
pub mod vspecs {
use vstd::prelude::*;
use crate::vprelude::*;
verus!{
// HARVEST-BEGIN
pub assume_specification [ide::file_system::FilePath::parent] (_0: &ide::file_system::FilePath) -> (r: std::option::Option<ide::file_system::FilePath>) ensures has_parent(_0) ==> r.is_some();
pub assume_specification<K> [std::env::var] (_0: K) -> std::result::Result<std::string::String, std::env::VarError> where K: std::convert::AsRef<std::ffi::OsStr>,;
pub assume_specification [<std::path::PathBuf as std::str::FromStr>::from_str] (_0: &str) -> (r: std::result::Result<std::path::PathBuf, <std::path::PathBuf as std::str::FromStr>::Err>) ensures r.is_ok();
pub assume_specification [syntax::Parse::syntax_node] (_0: &syntax::Parse) -> rowan::SyntaxNode<syntax::Language>;
// HARVEST-END
}
}
