// Unit FS prelude (C16: collect_sources).  file_system.rs's three functions are verified as their own crate against the
// real ide / syntax rlibs; the data types (FileId, FilePath, FileSet, SourceRoot, FileSystem, IncludeId) and the salsa
// database trait come from the linked ide crate.  Everything here is assumed.
pub mod vprelude {
use vstd::prelude::*;
pub use vstd::std_specs::hash::*;
pub use std::collections::{HashMap, VecDeque};
pub use ecow::EcoString;
pub use ide::file_system::{FileId, FilePath, FileSet, SourceRoot, FileSystem, IncludeId};
pub use ide::db::SourceDatabase;
verus!{
#[verifier::external_type_specification] #[verifier::external_body] pub struct ExEcoString(EcoString);
#[verifier::external_type_specification] pub struct ExFileId(FileId);
#[verifier::external_type_specification] pub struct ExFilePath(FilePath);
#[verifier::external_type_specification] #[verifier::external_body] pub struct ExFileSet(FileSet);
#[verifier::external_type_specification] #[verifier::external_body] pub struct ExSourceRoot(SourceRoot);
#[verifier::external_type_specification] #[verifier::external_body] pub struct ExIncludeId(IncludeId);
#[verifier::external_type_specification] #[verifier::external_body] pub struct ExParse(syntax::Parse);
#[verifier::external_type_specification] #[verifier::external_body] pub struct ExLineIndex(ide::line_index::LineIndex);
#[verifier::external_type_specification] #[verifier::external_body] pub struct ExPathBuf(std::path::PathBuf);
#[verifier::external_type_specification] #[verifier::external_body] pub struct ExVarError(std::env::VarError);
#[verifier::external_type_specification] #[verifier::external_body] pub struct ExLanguage(syntax::Language);
#[verifier::external_type_specification] #[verifier::external_body] pub struct ExSDS(ide::db::SourceDatabaseStorage);
#[verifier::external_type_specification] #[verifier::external_body] #[verifier::reject_recursive_types(L)] pub struct ExSyntaxNode<L: rowan::Language>(rowan::SyntaxNode<L>);
#[verifier::external_trait_specification] pub trait ExLanguage0: Sized + Copy + core::fmt::Debug + Eq + Ord + core::hash::Hash { type ExternalTraitSpecificationFor: rowan::Language; type Kind: Sized + Copy + core::fmt::Debug + Eq + Ord + core::hash::Hash; }
#[verifier::external_trait_specification] pub trait ExQueryGroup: Sized { type ExternalTraitSpecificationFor: salsa::plumbing::QueryGroup; }
#[verifier::external_trait_specification] pub trait ExDatabaseOps { type ExternalTraitSpecificationFor: salsa::plumbing::DatabaseOps; }
#[verifier::external_trait_specification] pub trait ExSalsaDatabase: salsa::plumbing::DatabaseOps { type ExternalTraitSpecificationFor: salsa::Database; }
#[verifier::external_trait_specification] pub trait ExHasQueryGroup<G: salsa::plumbing::QueryGroup>: salsa::Database { type ExternalTraitSpecificationFor: salsa::plumbing::HasQueryGroup<G>; }

// ---------------------------------------------------------------- ghost views
/// the include maps stored in the database: file -> set of files its include statements resolved to
pub uninterp spec fn incmap<D: ?Sized>(db: &D) -> Map<FileId, Set<FileId>>;
pub uninterp spec fn fset(s: &FileSet) -> Set<FileId>;
pub uninterp spec fn sroot_files(s: &SourceRoot) -> Set<FileId>;
pub uninterp spec fn sroot_root(s: &SourceRoot) -> FileId;
/// ASSUMED about the file system: every id it can ever hand out lies in a finite universe that does not change
/// (finitely many distinct readable paths; an OS file system with `./` path aliases does NOT satisfy this)
pub uninterp spec fn fs_universe<F: ?Sized>(fs: &F) -> Set<FileId>;
/// what the file system answers (uninterpreted): is a path readable, which id belongs to it; joining a directory and an include path
pub uninterp spec fn fs_readable<F: ?Sized>(fs: &F, p: FilePath) -> bool;
pub uninterp spec fn fs_id<F: ?Sized>(fs: &F, p: FilePath) -> FileId;
pub uninterp spec fn path_join(d: FilePath, s: Seq<char>) -> FilePath;
pub uninterp spec fn eco_text(e: &EcoString) -> Seq<char>;
/// the file an include path resolves to: the FIRST directory of the list in which it is readable (None: not found)
pub open spec fn resolve_from<F: ?Sized>(fs: &F, path: EcoString, dirs: Seq<FilePath>, i: int) -> Option<FileId> decreases dirs.len() - i
{
    if i < 0 || i >= dirs.len() { None }
    else if fs_readable(fs, path_join(dirs[i], eco_text(&path))) { Some(fs_id(fs, path_join(dirs[i], eco_text(&path)))) }
    else { resolve_from(fs, path, dirs, i + 1) }
}
pub open spec fn resolve_spec<F: ?Sized>(fs: &F, path: EcoString, dirs: Seq<FilePath>) -> Option<FileId> { resolve_from(fs, path, dirs, 0) }
/// two file-system states that read and number the paths alike resolve alike
pub open spec fn fs_same<F: ?Sized>(a: &F, b: &F) -> bool {
    (forall|q: FilePath| #[trigger] fs_readable(a, q) == fs_readable(b, q)) && (forall|q: FilePath| #[trigger] fs_id(a, q) == fs_id(b, q))
}
pub proof fn lemma_resolve_frame<F: ?Sized>(a: &F, b: &F, path: EcoString, dirs: Seq<FilePath>, i: int)
    requires fs_same(a, b) ensures resolve_from(a, path, dirs, i) == resolve_from(b, path, dirs, i)
    decreases dirs.len() - i
{ if 0 <= i < dirs.len() { lemma_resolve_frame(a, b, path, dirs, i + 1); } }
pub assume_specification [EcoString::as_str] (e: &EcoString) -> (r: &str) ensures r@ == eco_text(e);
/// FilePath::join (file_system.rs: PathBuf::join) is a function of the directory and the joined text
pub uninterp spec fn asref_text<P>(p: P) -> Seq<char>;
pub broadcast axiom fn ax_asref_str(s: &str) ensures #[trigger] asref_text::<&str>(s) == s@;
pub assume_specification<P: AsRef<std::path::Path>> [FilePath::join] (d: &FilePath, path: P) -> (r: FilePath) ensures r == path_join(*d, asref_text(path));
pub assume_specification [<FilePath as Clone>::clone] (p: &FilePath) -> (r: FilePath) ensures r == *p;
/// the path has a parent directory
pub uninterp spec fn has_parent(p: &FilePath) -> bool;
/// values of an include map
pub open spec fn map_values(m: &HashMap<IncludeId, FileId>) -> Set<FileId> { m@.values() }

#[verifier::external_trait_specification]
pub trait ExSourceDatabase: salsa::Database + salsa::plumbing::HasQueryGroup<ide::db::SourceDatabaseStorage> {
    type ExternalTraitSpecificationFor: ide::db::SourceDatabase;
    fn parse(&self, file_id: FileId) -> syntax::Parse;
    fn set_file_content(&mut self, file_id: FileId, text: std::sync::Arc<str>)
        ensures incmap(final(self)) == incmap(old(self));
    fn set_resolved_include_map(&mut self, file_id: FileId, map: HashMap<IncludeId, FileId>)
        ensures incmap(final(self)) == incmap(old(self)).insert(file_id, map_values(&map));
}
#[verifier::external_trait_specification]
pub trait ExFileSystem {
    type ExternalTraitSpecificationFor: ide::file_system::FileSystem;
    /// ASSUMED: handing out an id changes neither what is readable nor the ids of the paths
    fn assign_or_get_file_id(&mut self, path: FilePath) -> (r: FileId)
        ensures fs_universe(final(self)) == fs_universe(old(self)), fs_universe(final(self)).contains(r), r == fs_id(old(self), path), fs_same(final(self), old(self));
    /// ASSUMED: the path of a file has a parent directory (it is the path of a file, not `/` or the empty path)
    fn path_for_file(&self, file_id: &FileId) -> (r: &FilePath) ensures has_parent(r);
    fn read_content(&self, file_path: &FilePath) -> (r: Option<String>) ensures r is Some == fs_readable(self, *file_path);
}
pub assume_specification [FileSet::new] () -> (r: FileSet) ensures fset(&r) == Set::<FileId>::empty();
pub assume_specification [FileSet::insert] (s: &mut FileSet, file_id: FileId, path: FilePath) ensures fset(final(s)) == fset(old(s)).insert(file_id);
pub assume_specification [FileSet::contains] (s: &FileSet, file_id: &FileId) -> (r: bool) ensures r == fset(s).contains(*file_id);
pub assume_specification [SourceRoot::new] (file_set: FileSet, root: FileId) -> (r: SourceRoot) ensures sroot_files(&r) == fset(&file_set), sroot_root(&r) == root;
/// A-hash: IncludeId (a syntax-node pointer with derived Eq/Hash) obeys vstd's key model
pub broadcast axiom fn ax_includeid_key_model() ensures #[trigger] obeys_key_model::<IncludeId>();
}
}
