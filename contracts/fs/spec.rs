// C16 reference notions: reachability through the include maps
pub mod fsspec {
use vstd::prelude::*;
use crate::vprelude::*;
verus!{
/// S is closed under the stored include maps: every member has its map stored and all its includes are members
pub open spec fn closed(m: Map<FileId, Set<FileId>>, s: Set<FileId>) -> bool {
    forall|f: FileId, g: FileId| s.contains(f) ==> #[trigger] m.contains_key(f) && (m[f].contains(g) ==> #[trigger] s.contains(g))
}
/// a path root = p[0] -> ... -> p[n] = f along stored include edges
pub open spec fn is_path(m: Map<FileId, Set<FileId>>, p: Seq<FileId>) -> bool {
    p.len() > 0 && forall|i: int| 0 <= i < p.len() - 1 ==> m.contains_key(#[trigger] p[i]) && m[p[i]].contains(p[i + 1])
}
pub open spec fn reachable(m: Map<FileId, Set<FileId>>, root: FileId, f: FileId) -> bool {
    exists|p: Seq<FileId>| #[trigger] is_path(m, p) && p[0] == root && p.last() == f
}
/// values of a map after inserting under a fresh key
pub proof fn lemma_insert_values<K, V>(m: Map<K, V>, k: K, v: V)
    requires !m.contains_key(k)
    ensures forall|x: V| #[trigger] m.insert(k, v).values().contains(x) <==> (m.values().contains(x) || x == v),
{
    assert forall|x: V| #[trigger] m.insert(k, v).values().contains(x) <==> (m.values().contains(x) || x == v) by {
        if m.values().contains(x) { let k2 = choose|k2: K| m.contains_key(k2) && m[k2] == x; assert(m.insert(k, v).contains_key(k2) && m.insert(k, v)[k2] == x); }
        if x == v { assert(m.insert(k, v).contains_key(k) && m.insert(k, v)[k] == x); }
        if m.insert(k, v).values().contains(x) { let k2 = choose|k2: K| m.insert(k, v).contains_key(k2) && m.insert(k, v)[k2] == x; if k2 != k { assert(m.contains_key(k2) && m[k2] == x); } }
    }
}
/// membership before and after taking the head off a queue
pub proof fn lemma_pop_contains(pre: Seq<FileId>, head: FileId, post: Seq<FileId>)
    requires pre.len() > 0, pre[0] == head, post =~= pre.subrange(1, pre.len() as int)
    ensures forall|g: FileId| #[trigger] pre.contains(g) ==> g == head || post.contains(g),
        forall|g: FileId| #[trigger] post.contains(g) ==> pre.contains(g),
{
    assert forall|g: FileId| #[trigger] pre.contains(g) implies g == head || post.contains(g) by {
        let i = choose|i: int| 0 <= i < pre.len() && pre[i] == g;
        if i > 0 { assert(post[i - 1] == g); }
    }
    assert forall|g: FileId| #[trigger] post.contains(g) implies pre.contains(g) by {
        let i = choose|i: int| 0 <= i < post.len() && post[i] == g;
        assert(pre[i + 1] == g);
    }
}
/// membership after appending one element
pub proof fn lemma_push_contains(pre: Seq<FileId>, x: FileId)
    ensures forall|g: FileId| #[trigger] pre.push(x).contains(g) <==> (pre.contains(g) || g == x),
{
    assert forall|g: FileId| #[trigger] pre.push(x).contains(g) <==> (pre.contains(g) || g == x) by {
        if pre.contains(g) { let i = choose|i: int| 0 <= i < pre.len() && pre[i] == g; assert(pre.push(x)[i] == g); }
        if g == x { assert(pre.push(x)[pre.len() as int] == g); }
        if pre.push(x).contains(g) { let i = choose|i: int| 0 <= i < pre.push(x).len() && pre.push(x)[i] == g; if i < pre.len() { assert(pre[i] == g); } }
    }
}
/// reachable along a path whose inner nodes all lie in v (their include maps are final)
pub open spec fn is_path_via(m: Map<FileId, Set<FileId>>, v: Set<FileId>, p: Seq<FileId>) -> bool {
    p.len() > 0 && forall|i: int| 0 <= i < p.len() - 1 ==> v.contains(#[trigger] p[i]) && m.contains_key(p[i]) && m[p[i]].contains(p[i + 1])
}
pub open spec fn reach_via(m: Map<FileId, Set<FileId>>, v: Set<FileId>, root: FileId, f: FileId) -> bool {
    exists|p: Seq<FileId>| #[trigger] is_path_via(m, v, p) && p[0] == root && p.last() == f
}
pub proof fn lemma_reach_root(m: Map<FileId, Set<FileId>>, v: Set<FileId>, root: FileId)
    ensures reach_via(m, v, root, root)
{
    let p = seq![root];
    assert(is_path_via(m, v, p) && p[0] == root && p.last() == root);
}
/// extending a path by one edge out of a node of v
pub proof fn lemma_reach_step(m: Map<FileId, Set<FileId>>, v: Set<FileId>, root: FileId, f: FileId, g: FileId)
    requires reach_via(m, v, root, f), v.contains(f), m.contains_key(f), m[f].contains(g)
    ensures reach_via(m, v, root, g)
{
    let p = choose|p: Seq<FileId>| #[trigger] is_path_via(m, v, p) && p[0] == root && p.last() == f;
    let q = p.push(g);
    assert(is_path_via(m, v, q)) by {
        assert forall|i: int| 0 <= i < q.len() - 1 implies v.contains(#[trigger] q[i]) && m.contains_key(q[i]) && m[q[i]].contains(q[i + 1]) by {
            if i < p.len() - 1 { assert(q[i] == p[i]); assert(q[i + 1] == p[i + 1]); } else { assert(q[i] == p.last()); assert(q[i + 1] == g); }
        }
    }
    assert(q[0] == root && q.last() == g);
}
/// paths survive when the map of a node outside v is (re)defined and v grows
pub proof fn lemma_reach_mono(m: Map<FileId, Set<FileId>>, v: Set<FileId>, m2: Map<FileId, Set<FileId>>, v2: Set<FileId>, root: FileId, f: FileId)
    requires reach_via(m, v, root, f), v.subset_of(v2), forall|x: FileId| v.contains(x) && m.contains_key(x) ==> m2.contains_key(x) && m2[x] == m[x]
    ensures reach_via(m2, v2, root, f)
{
    let p = choose|p: Seq<FileId>| #[trigger] is_path_via(m, v, p) && p[0] == root && p.last() == f;
    assert(is_path_via(m2, v2, p));
}
pub proof fn lemma_via_is_reachable(m: Map<FileId, Set<FileId>>, v: Set<FileId>, root: FileId, f: FileId)
    requires reach_via(m, v, root, f)
    ensures reachable(m, root, f)
{
    let p = choose|p: Seq<FileId>| #[trigger] is_path_via(m, v, p) && p[0] == root && p.last() == f;
    assert(is_path(m, p));
}
/// a closed set that contains the root contains everything reachable from it
pub proof fn lemma_closed_contains_reachable(m: Map<FileId, Set<FileId>>, s: Set<FileId>, root: FileId, p: Seq<FileId>)
    requires closed(m, s), s.contains(root), is_path(m, p), p[0] == root
    ensures s.contains(p.last())
    decreases p.len()
{
    if p.len() > 1 {
        let q = p.drop_last();
        assert(is_path(m, q)) by { assert forall|i: int| 0 <= i < q.len() - 1 implies m.contains_key(#[trigger] q[i]) && m[q[i]].contains(q[i + 1]) by { assert(q[i] == p[i]); assert(q[i + 1] == p[i + 1]); } }
        lemma_closed_contains_reachable(m, s, root, q);
        let i = p.len() - 2;
        assert(q.last() == p[i]);
        assert(m.contains_key(p[i]) && m[p[i]].contains(p[i + 1]));
    }
}
}
}
