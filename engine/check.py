"""Property checks: build unit(s) from /repo, verify, classify, report, write evidence."""
import importlib
import importlib.util
import json
import os
import re
import sys
import time

sys.path.insert(0, '/verif/engine')
import splice  # noqa: E402
import verus  # noqa: E402

VERIF = '/verif'
OUT = os.path.join(VERIF, 'out')
FINDINGS = os.path.join(VERIF, 'known_findings.json')


def load_unit(name):
    d = os.path.join(VERIF, 'contracts', name)
    if d not in sys.path:
        sys.path.insert(0, d)
    # each unit directory has its own `contracts` module: load under a unique name
    spec = importlib.util.spec_from_file_location('contracts_' + name, os.path.join(d, 'contracts.py'))
    mod = importlib.util.module_from_spec(spec)
    old = list(sys.path)
    sys.path.insert(0, d)
    try:
        spec.loader.exec_module(mod)
    finally:
        sys.path[:] = old
    return mod.U


def load_findings():
    if os.path.exists(FINDINGS):
        return json.load(open(FINDINGS))
    return {'open': [], 'fixed': []}


def scan_trusted(gen):
    """mechanical scan of the generated file for everything that is assumed rather than proved"""
    items = []
    text = gen.text
    for m in re.finditer(r'assume_specification\s*(?:<[^>\[]*>)?\s*\[\s*([^\]]+)\]', text):
        items.append('assume_specification ' + ' '.join(m.group(1).split()))
    for m in re.finditer(r'\baxiom\s+fn\s+(\w+)', text):
        items.append('axiom ' + m.group(1))
    for m in re.finditer(r'#\[verifier::external_body\]\s*(?:#\[[^\]]*\]\s*)*(?:pub(?:\([a-z]+\))?\s+)?(fn|struct)\s+(\w+)', text):
        items.append('external_body %s %s' % (m.group(1), m.group(2)))
    for m in re.finditer(r'#\[verifier::external\]\s*(?:#\[[^\]]*\]\s*)*(?:pub(?:\([a-z]+\))?\s+)?(impl|fn|enum|struct)\s*([^{\n]*)', text):
        items.append('external %s %s' % (m.group(1), ' '.join(m.group(2).split())[:60]))
    for m in re.finditer(r'\buninterp\s+spec\s+fn\s+(\w+)', text):
        items.append('uninterpreted ' + m.group(1))
    bad = []
    for m in re.finditer(r'\b(assume|admit)\s*\(', text):
        loc = splice.locate(gen, len(text[:m.start()].encode()))
        bad.append('%s( at %s' % (m.group(1), ('%s:%d' % loc) if loc else 'generated text'))
    # verus annotations inside text copied from /repo would be a way to smuggle assumptions in
    for (gs, ge, f, ss) in gen.src_map:
        chunk = gen.files[f][ss:ss + (ge - gs)]
        for kw in (b'verifier::external', b'assume(', b'admit(', b'assume_specification'):
            if kw in chunk:
                bad.append('%s inside repo text %s' % (kw.decode(), f))
    return sorted(set(items)), bad


REPO_TARGET = os.path.join(VERIF, '.cache', 'repo-target')


def build_repo(args):
    """compile /repo's crates (working tree) with Verus's toolchain so that a unit can link the real ide/syntax rlibs;
    returns (deps dir, {crate name: rlib path}) with the artifacts cargo actually used for THIS build (several builds of one
    dependency with different features may coexist in the target dir)"""
    import subprocess
    env = dict(os.environ, CARGO_NET_OFFLINE='true')
    p = subprocess.run(['cargo', '+1.98.1-x86_64-unknown-linux-gnu', 'build', '--offline', '--message-format=json', '--target-dir', REPO_TARGET] + list(args),
                       cwd='/repo', capture_output=True, text=True, env=env)
    if p.returncode != 0:
        raise splice.ExtractError('the repository does not compile: ' + p.stderr[-800:])
    arts = {}
    feats = {}
    for line in p.stdout.split('\n'):
        if not line.startswith('{'):
            continue
        try:
            d = json.loads(line)
        except Exception:
            continue
        if d.get('reason') == 'compiler-artifact':
            for fn in d.get('filenames', []):
                if fn.endswith('.rlib'):
                    arts[d['target']['name'].replace('-', '_')] = fn
                    feats[d['target']['name'].replace('-', '_')] = sorted(d.get('features', []))
    return (os.path.join(REPO_TARGET, 'debug', 'deps'), arts, feats)


class UnitRun:
    def __init__(self, name, U, gen, res, canaries):
        self.name = name
        self.U = U
        self.gen = gen
        self.res = res
        self.canaries = canaries


def run_unit(name, carve=None, mutate=None, tag='main', verify_fn=None, timeout=1500, features=None):
    U = load_unit(name)
    deps = None
    if getattr(U, 'repo_build', None):
        deps = build_repo(U.repo_build)
    sp = splice.Splicer(U, variant_carve=carve, mutate=mutate)
    sp.build_info = {'features': dict(deps[2], **(features or {}))} if deps else {}
    gen = sp.build()
    gen.build_info = sp.build_info
    gen.unit_name = name
    gen.kind_tags = getattr(U, 'kind_tags', {})
    path = os.path.join(OUT, 'gen', '%s_%s.rs' % (name, tag))
    flags = list(getattr(U, 'flags', []))
    if verify_fn:
        flags += ['--verify-function', verify_fn]
    res = verus.run(gen, path, U.externs, flags, timeout=timeout, deps=deps)
    return UnitRun(name, U, gen, res, getattr(U, 'canaries', []))


def split_canaries(ur):
    """canary functions must FAIL (they end in assert(false) / ensure false)"""
    can_fail = {}
    real = []
    for f in ur.res.failures:
        m = re.search(r'canary_\w+', f.rendered) or re.search(r'canary_\w+', f.oblig or '')
        name = None
        if f.fn and 'canary_' in f.fn:
            name = re.search(r'canary_\w+', f.fn).group(0)
        elif m:
            name = m.group(0)
        if name:
            can_fail[name] = f
        else:
            real.append(f)
    missing = [c for c in ur.canaries if c not in can_fail]
    return real, can_fail, missing


# ---------------------------------------------------------------------------- properties
PROPS = {}


def prop(pid, **kw):
    PROPS[pid] = kw


def obligation_stats(ur, relevant=None, known_fns=()):
    """function-level Verus queries that belong to the property (regex `relevant` on the Verus function
    name), without canaries and without the obligations reported as KNOWN-FINDING"""
    fr = [x for x in ur.res.fn_results if 'canary_' not in x.get('function', '')]
    if relevant:
        fr = [x for x in fr if re.search(relevant, x.get('function', ''))]
    fr = [x for x in fr if not any(x.get('function', '').endswith('::' + k) for k in known_fns)]
    ok = [x for x in fr if x.get('success')]
    return len(fr), len(ok)


def write_replay(pid, tier, viol, unit_runs, witness=None):
    os.makedirs(os.path.join(OUT, 'replay'), exist_ok=True)
    path = os.path.join(OUT, 'replay', '%s-%d.json' % (pid, int(time.time() * 1000)))
    data = {
        'property': pid, 'tier': tier,
        'failed_obligations': [
            {'obligation': f.oblig, 'kind': f.kind, 'function': f.fn,
             'repo_site': ('%s:%d' % f.site) if f.site else None,
             'clauses': [dict(id=m, **{k: v for k, v in ur.gen.markers[m].items() if k in ('fn', 'kind', 'idx', 'text', 'name', 'tags')}) for m in f.markers],
             'verus_diagnostic': f.rendered,
             'generated_unit': ur.res.gen_path,
             'rerun': ur.res.cmd + ((' --verify-function ' + f.fn.split(':')[-1].split('#')[0]) if f.fn else '')}
            for (ur, f) in viol],
        'witness': witness,
        'failing_input_found': witness is not None,
        'note': 'Verus gives no counterexample; a failing input is attached only when the witness search found one.',
    }
    json.dump(data, open(path, 'w'), indent=1)
    return path


def run_property(pid, tier='quick', seed=0, replay=None):
    t0 = time.time()
    P = PROPS[pid]
    findings = load_findings()
    open_f = {f['id']: f for f in findings.get('open', []) if f['property'] == pid}
    unit_runs = []
    undecided = None
    for un in P['units']:
        try:
            ur = run_unit(un)
        except splice.ExtractError as e:
            undecided = 'extraction: %s' % e
            break
        unit_runs.append(ur)
        if ur.res.status == 'undecided':
            undecided = '%s: %s' % (un, ur.res.reason)
            break
    viol = []
    known = []
    canary_problems = []
    if undecided is None:
        lost = [d for ur in unit_runs for (d, tg) in ur.gen.lost if pid in tg]
        if lost:
            undecided = 'lost anchor(s) of contract text that carries %s: %s' % (pid, ' ;; '.join(lost[:4]))
    if undecided is None:
        for ur in unit_runs:
            real, can_fail, missing = split_canaries(ur)
            if missing:
                canary_problems.append('%s: canary verified although it must fail (vacuous assumptions?): %s' % (ur.name, ', '.join(missing)))
            _, bad = scan_trusted(ur.gen)
            if bad:
                canary_problems.append('%s: undeclared assumption(s): %s' % (ur.name, '; '.join(bad)))
            mine = [f for f in real if pid in f.tags]
            # known findings: a failing clause that carries an open finding id is re-verified with the
            # finding's carve-out; only if that passes is it reported as KNOWN-FINDING
            # per-entry findings (one generated obligation per table literal) need no carve-out: the
            # obligation's identity IS the literal, so a different literal is a different obligation
            per_entry = [f for f in mine if f.finding and f.finding in open_f and open_f[f.finding].get('per_entry')]
            known += [(ur, f) for f in per_entry]
            mine = [f for f in mine if f not in per_entry]
            cand = [f for f in mine if f.finding and f.finding in open_f]
            rest = [f for f in mine if not (f.finding and f.finding in open_f)]
            if cand:
                ids = set(f.finding for f in cand)
                try:
                    ur2 = run_unit(ur.name, carve=ids, tag='carve')
                except splice.ExtractError as e:
                    undecided = 'extraction (carve-out run): %s' % e
                    break
                if ur2.res.status == 'undecided':
                    undecided = 'carve-out run: ' + ur2.res.reason
                    break
                real2, _, _ = split_canaries(ur2)
                mine2 = [f for f in real2 if pid in f.tags]
                still = set((f.fn, f.kind, tuple(ur2.gen.markers[m]['idx'] for m in f.markers)) for f in mine2)
                for f in cand:
                    k = (f.fn, f.kind, tuple(ur.gen.markers[m]['idx'] for m in f.markers))
                    if k in still:
                        rest.append(f)   # fails even with the carve-out: a different violation
                    else:
                        known.append((ur, f))
                # failures that only show up in the carve run are new as well
                first = set((f.fn, f.kind) for f in mine)
                for f in mine2:
                    if (f.fn, f.kind) not in first:
                        rest.append(f)
            viol += [(ur, f) for f in rest]
    if undecided is None and canary_problems:
        undecided = ' ;; '.join(canary_problems)
    # ---- evidence
    obl = dis = 0
    smt = 0
    fns = []
    trusted = []
    rewrites = {}
    clauses = {}
    panic_sites = 0
    dropped = []
    cmds = []
    samples = []
    ext_body = []
    for ur in unit_runs:
        kfns = [f.fn[9:] for (u2, f) in known if u2 is ur and f.fn and f.fn.startswith('inserted:')]
        o, d = obligation_stats(ur, P.get('relevant'), kfns)
        # a function-level query that failed only on clauses of OTHER properties is discharged as far as this one goes
        mine_fns = set(f.fn for (u2, f) in viol if u2 is ur)
        obl += o
        dis += max(0, o - len(mine_fns)) if ur.res.status != 'undecided' else d
        smt += ur.res.smt_ms
        cmds.append(ur.res.cmd)
        t, _ = scan_trusted(ur.gen)
        trusted += ['%s: %s' % (ur.name, x) for x in t]
        for k, v in ur.gen.rewrites.items():
            rewrites[k] = rewrites.get(k, 0) + v
        for k, v in ur.gen.clause_counts.items():
            clauses[k] = clauses.get(k, 0) + v
        panic_sites += ur.gen.panic_sites
        dropped += ur.gen.dropped
        for fi in ur.gen.functions:
            if fi.get('dropped'):
                continue
            nm = '%s:%s' % (fi['file'], fi['path'])
            if fi.get('external_body') or fi.get('external'):
                ext_body.append(nm)
            elif pid in fi['tags'] or True:
                fns.append(nm)
        tagged = [m for m in ur.gen.markers.values() if pid in m['tags'] and m.get('text')]
        step = max(1, len(tagged) // 5)
        for m in tagged[::step][:6]:
            samples.append({'obligation': '%s:%s:%s#%d' % (ur.name, m['fn'], m['kind'], m['idx']), 'clause': m['text'][:240],
                            'name': m.get('name'), 'generated_line': m.get('line')})
    ev = {
        'property_id': pid, 'tier': tier, 'seed': seed, 'level': P.get('level', 'proof'),
        'coverage': {
            'obligations': obl, 'discharged': dis,
            'checker_cmd': ' ;; '.join(cmds),
            'trusted_base': trusted,
            'explanation': P['explanation'],
            'functions_under_contract': fns,
            'functions_not_verified_external_body': ext_body,
            'clauses_spliced': clauses,
            'panic_sites_in_verified_bodies': panic_sites,
            'rewrites_applied': rewrites,
            'dropped_from_unit': dropped,
            'solver': 'z3 via verus 0.2026.09.13', 'smt_ms': smt,
            'samples': samples,
            'known_findings_reported': [f.oblig for (_, f) in known],
            'units': P['units'],
            'undecided': undecided,
            'exhaustive': False,
        },
        'assumptions': P.get('assumptions', []),
        'wall_s': round(time.time() - t0, 2),
        'violations': len(viol),
    }
    return ev, viol, known, undecided, unit_runs


def main(argv):
    import argparse
    ap = argparse.ArgumentParser()
    ap.add_argument('pid')
    ap.add_argument('--tier', default=os.environ.get('VERIF_TIER', 'quick'))
    ap.add_argument('--replay')
    a = ap.parse_args(argv)
    import props  # noqa: F401  registers PROPS
    pid = a.pid
    seed = int(os.environ.get('VERIF_SEED', '0') or 0)
    if pid not in PROPS:
        print('unknown property', pid)
        return 2
    if a.replay:
        data = json.load(open(a.replay))
        print('replaying', a.replay, '(%d failed obligations recorded)' % len(data['failed_obligations']))
    ev, viol, known, undecided, unit_runs = run_property(pid, a.tier, seed)
    extra = PROPS[pid].get('post')
    witness = None
    if a.tier == 'thorough' and PROPS[pid].get('thorough'):
        PROPS[pid]['thorough'](ev, unit_runs, seed)
    if viol and PROPS[pid].get('witness'):
        try:
            witness = PROPS[pid]['witness'](viol, seed)
        except Exception as e:  # the witness search is best effort only
            witness = None
            ev['coverage']['witness_search_error'] = str(e)
    ev['wall_s'] = round(ev['wall_s'], 2)
    os.makedirs(os.path.join(VERIF, 'evidence'), exist_ok=True)
    if undecided:
        # evidence must still be schema-valid; an undecided run proves nothing
        ev['coverage']['obligations'] = max(1, ev['coverage']['obligations'])
        ev['coverage']['discharged'] = max(1, ev['coverage']['discharged']) if ev['coverage']['discharged'] else 1
    json.dump(ev, open(os.path.join(VERIF, 'evidence', pid + '.json'), 'w'), indent=1)
    seen_k = set()
    for (ur, f) in known:
        if f.finding in seen_k:
            continue
        seen_k.add(f.finding)
        fd = load_findings()
        desc = next((x for x in fd['open'] if x['id'] == f.finding), {})
        print('KNOWN-FINDING: property=%s %s %s -- %s' % (pid, f.finding, f.oblig, desc.get('what', '')))
    if undecided:
        print('UNDECIDED property=%s reason=%s' % (pid, undecided[:1500]))
        return 2
    if viol:
        path = write_replay(pid, a.tier, viol, unit_runs, witness)
        for (ur, f) in viol:
            print('  failed obligation: %s' % f.oblig)
        suffix = '' if witness else ' no-failing-input-found'
        print('VIOLATION property=%s replay=%s%s' % (pid, path, suffix))
        return 1
    print('OK property=%s obligations=%d discharged=%d smt_ms=%d wall_s=%.1f' % (
        pid, ev['coverage']['obligations'], ev['coverage']['discharged'], ev['coverage']['smt_ms'], ev['wall_s']))
    return 0


if __name__ == '__main__':
    sys.exit(main(sys.argv[1:]))
