"""Property checks: build unit(s) from /repo, verify, classify, report, write evidence."""
import importlib
import importlib.util
import json
import os
import re
import sys
import time

sys.path.insert(0, '/verif/engine')
import splice  # noqa: E402
import verus  # noqa: E402

VERIF = '/verif'
OUT = os.path.join(VERIF, 'out')
FINDINGS = os.path.join(VERIF, 'known_findings.json')


def load_unit(name):
    d = os.path.join(VERIF, 'contracts', name)
    if d not in sys.path:
        sys.path.insert(0, d)
    # each unit directory has its own `contracts` module: load under a unique name
    spec = importlib.util.spec_from_file_location('contracts_' + name, os.path.join(d, 'contracts.py'))
    mod = importlib.util.module_from_spec(spec)
    old = list(sys.path)
    sys.path.insert(0, d)
    try:
        spec.loader.exec_module(mod)
    finally:
        sys.path[:] = old
    return mod.U


def load_findings():
    if os.path.exists(FINDINGS):
        return json.load(open(FINDINGS))
    return {'open': [], 'fixed': []}


def scan_trusted(gen):
    """mechanical scan of the generated file for everything that is assumed rather than proved"""
    items = []
    text = gen.text
    for m in re.finditer(r'assume_specification\s*(?:<[^>\[]*>)?\s*\[\s*([^\]]+)\]', text):
        items.append('assume_specification ' + ' '.join(m.group(1).split()))
    for m in re.finditer(r'\baxiom\s+fn\s+(\w+)', text):
        items.append('axiom ' + m.group(1))
    for m in re.finditer(r'#\[verifier::external_body\]\s*(?:#\[[^\]]*\]\s*)*(?:pub(?:\([a-z]+\))?\s+)?(fn|struct)\s+(\w+)', text):
        items.append('external_body %s %s' % (m.group(1), m.group(2)))
    for m in re.finditer(r'#\[verifier::external\]\s*(?:#\[[^\]]*\]\s*)*(?:pub(?:\([a-z]+\))?\s+)?(impl|fn|enum|struct)\s*([^{\n]*)', text):
        items.append('external %s %s' % (m.group(1), ' '.join(m.group(2).split())[:60]))
    for m in re.finditer(r'\buninterp\s+spec\s+fn\s+(\w+)', text):
        items.append('uninterpreted ' + m.group(1))
    bad = []
    for m in re.finditer(r'\b(assume|admit)\s*\(', text):
        loc = splice.locate(gen, len(text[:m.start()].encode()))
        bad.append('%s( at %s' % (m.group(1), ('%s:%d' % loc) if loc else 'generated text'))
    # verus annotations inside text copied from /repo would be a way to smuggle assumptions in
    for (gs, ge, f, ss) in gen.src_map:
        chunk = gen.files[f][ss:ss + (ge - gs)]
        for kw in (b'verifier::external', b'assume(', b'admit(', b'assume_specification'):
            if kw in chunk:
                bad.append('%s inside repo text %s' % (kw.decode(), f))
    return sorted(set(items)), bad


REPO_TARGET = os.path.join(VERIF, '.cache', 'repo-target')


def build_repo(args):
    """compile /repo's crates (working tree) with Verus's toolchain so that a unit can link the real ide/syntax rlibs;
    returns (deps dir, {crate name: rlib path}) with the artifacts cargo actually used for THIS build (several builds of one
    dependency with different features may coexist in the target dir)"""
    import subprocess
    env = dict(os.environ, CARGO_NET_OFFLINE='true')
    p = subprocess.run(['cargo', '+1.98.1-x86_64-unknown-linux-gnu', 'build', '--offline', '--message-format=json', '--target-dir', REPO_TARGET] + list(args),
                       cwd='/repo', capture_output=True, text=True, env=env)
    if p.returncode != 0:
        raise splice.ExtractError('the repository does not compile: ' + p.stderr[-800:])
    arts = {}
    feats = {}
    cands = {}
    for line in p.stdout.split('\n'):
        if not line.startswith('{'):
            continue
        try:
            d = json.loads(line)
        except Exception:
            continue
        if d.get('reason') == 'compiler-artifact':
            for fn in d.get('filenames', []):
                if fn.endswith('.rlib'):
                    nm = d['target']['name'].replace('-', '_')
                    ver = (re.search(r'[@#:]([0-9]+\.[0-9]+\.[0-9]+[^ )]*)', d.get('package_id', '')) or [None, ''])[1]
                    cands.setdefault(nm, []).append((ver, fn, sorted(d.get('features', []))))
    # several versions of one crate can be in the graph (e.g. indexmap 1.x under salsa, 2.x under ide): link the one /repo's own
    # crates declare, so that the choice does not depend on the order cargo happens to report them in
    declared = {}
    try:
        for m in re.finditer(r'^([A-Za-z0-9_-]+)\s*=\s*(?:"([^"]+)"|\{[^}]*version\s*=\s*"([^"]+)")', open('/repo/Cargo.toml').read(), re.M):
            declared[m.group(1).replace('-', '_')] = (m.group(2) or m.group(3) or '').lstrip('^=~ ')
    except OSError:
        pass
    for nm, lst in cands.items():
        pick = lst[-1]
        want = declared.get(nm)
        if want and len(set(v for (v, _, _) in lst)) > 1:
            key = want.split('.')[0] if not want.startswith('0.') else '.'.join(want.split('.')[:2])
            match = [c for c in lst if c[0] == want or c[0].startswith(key + '.')]
            if match:
                pick = match[-1]
        arts[nm] = pick[1]
        feats[nm] = pick[2]
    return (os.path.join(REPO_TARGET, 'debug', 'deps'), arts, feats)


class UnitRun:
    def __init__(self, name, U, gen, res, canaries):
        self.name = name
        self.U = U
        self.gen = gen
        self.res = res
        self.canaries = canaries


def run_unit(name, carve=None, mutate=None, tag='main', verify_fn=None, timeout=1500, features=None, extra_flags=()):
    U = load_unit(name)
    deps = None
    if getattr(U, 'repo_build', None):
        deps = build_repo(U.repo_build)
    sp = splice.Splicer(U, variant_carve=carve, mutate=mutate)
    sp.build_info = {'features': dict(deps[2], **(features or {}))} if deps else {}
    gen = sp.build()
    gen.build_info = sp.build_info
    gen.unit_name = name
    gen.kind_tags = getattr(U, 'kind_tags', {})
    path = os.path.join(OUT, 'gen', '%s_%s.rs' % (name, tag))
    flags = list(getattr(U, 'flags', [])) + list(extra_flags)
    if verify_fn:
        flags += ['--verify-function', verify_fn]
    res = verus.run(gen, path, U.externs, flags, timeout=timeout, deps=deps)
    return UnitRun(name, U, gen, res, getattr(U, 'canaries', []))


def split_canaries(ur):
    """canary functions must FAIL (they end in assert(false) / ensure false)"""
    can_fail = {}
    real = []
    for f in ur.res.failures:
        m = re.search(r'canary_\w+', f.rendered) or re.search(r'canary_\w+', f.oblig or '')
        name = None
        if f.fn and 'canary_' in f.fn:
            name = re.search(r'canary_\w+', f.fn).group(0)
        elif m:
            name = m.group(0)
        if name:
            can_fail[name] = f
        else:
            real.append(f)
    missing = [c for c in ur.canaries if c not in can_fail]
    return real, can_fail, missing


# ---------------------------------------------------------------------------- properties
PROPS = {}


def prop(pid, **kw):
    PROPS[pid] = kw


def obligation_stats(ur, relevant=None, known_fns=()):
    """function-level Verus queries that belong to the property (regex `relevant` on the Verus function
    name), without canaries and without the obligations reported as KNOWN-FINDING"""
    fr = [x for x in ur.res.fn_results if 'canary_' not in x.get('function', '')]
    if relevant:
        fr = [x for x in fr if re.search(relevant, x.get('function', ''))]
    fr = [x for x in fr if not any(x.get('function', '').endswith('::' + k) for k in known_fns)]
    ok = [x for x in fr if x.get('success')]
    return len(fr), len(ok)


def write_replay(pid, tier, viol, unit_runs, witness=None):
    os.makedirs(os.path.join(OUT, 'replay'), exist_ok=True)
    path = os.path.join(OUT, 'replay', '%s-%d.json' % (pid, int(time.time() * 1000)))
    data = {
        'property': pid, 'tier': tier,
        'failed_obligations': [
            {'obligation': f.oblig, 'kind': f.kind, 'function': f.fn,
             'repo_site': ('%s:%d' % f.site) if f.site else None,
             'clauses': [dict(id=m, **{k: v for k, v in ur.gen.markers[m].items() if k in ('fn', 'kind', 'idx', 'text', 'name', 'tags')}) for m in f.markers],
             'verus_diagnostic': f.rendered,
             'generated_unit': ur.res.gen_path,
             'rerun': ur.res.cmd + ((' --verify-function ' + f.fn.split(':')[-1].split('#')[0]) if f.fn else '')}
            for (ur, f) in viol],
        'witness': witness,
        'failing_input_found': witness is not None,
        'note': 'Verus gives no counterexample; a failing input is attached only when the witness search found one.',
    }
    json.dump(data, open(path, 'w'), indent=1)
    return path



HARNESS_TARGET = os.path.join(VERIF, '.cache', 'harness-target')
WITNESS_TESTS = {
    'C01': ['c01_search'], 'C02': ['c01_search'], 'C03': ['c03_witness', 'c03_search'], 'C05': ['c05_witness', 'c05_uses'], 'C10': ['c10_witness', 'c10_search'],
    'C09': ['c09_witness', 'c09_session'], 'C12': ['c12_witness'], 'C13': ['c13_witness'], 'C17': ['c17_witness'], 'C18': ['c18_witness'], 'C19': ['c19_witness'], 'C14': ['c14_witness', 'c14_search'], 'C20': ['c20_vocab'], 'C15': ['c15_witness', 'c15_search'], 'C16': ['c16_witness', 'c16_alias'],
}


KNOWN_BOUNDED = {}   # pid -> [(open finding, WITNESS line)] seen in this run


def witness_search(pid, budget_s=600, tests=None):
    """after a failed proof (or an undecided run): run the recorded witness inputs and the small enumerative searches of this
    property against the REAL crates of /repo's working tree.  Returns a dict describing a failing input, or None.
    It can only ADD a concrete failing input to a violation report; it never turns a failed proof into a pass."""
    import subprocess
    tests = tests if tests is not None else WITNESS_TESTS.get(pid, [])
    if not tests:
        return None
    env = dict(os.environ, CARGO_NET_OFFLINE='true', CARGO_TARGET_DIR=HARNESS_TARGET, WITNESS_PROP=pid)   # shared searches report only this property's clauses
    for t in tests:
        try:
            p = subprocess.run(['cargo', 'test', '--offline', '--manifest-path', os.path.join(VERIF, 'harness', 'Cargo.toml'), '--test', t, '--', '--test-threads', '4', '--nocapture'],
                               capture_output=True, text=True, env=env, timeout=budget_s)
        except subprocess.TimeoutExpired:
            continue
        out = p.stdout + p.stderr
        if p.returncode != 0 and re.search(r'error: could not compile|^error\[E\d+\]', out, re.M) and not re.search(r'^running \d+ tests?', out, re.M):
            # the harness drives the public API of /repo's crates: a tree that changes that API cannot be exercised by it
            raise RuntimeError('the witness harness does not compile against this tree (%s): %s' % (t, '; '.join(re.findall(r'^error[^\n]*', out, re.M)[:3])))
        if p.returncode != 0 and re.search(r'overflowed its stack|signal: (6|11)|SIGABRT|SIGSEGV', out) and not re.search(r'WITNESS ', out):
            # the test process itself died (stack overflow in the code under test): the last input announced before the crash
            tr = re.findall(r'^TRYING ([^\n]*)', out, re.M)
            return {'harness_test': t, 'failed_tests': ['(test process aborted)'],
                    'failing_input': 'the analysis overflowed the stack / aborted the process' + ((' on ' + tr[-1]) if tr else ' during the search'),
                    'rerun': 'CARGO_TARGET_DIR=%s cargo test --offline --manifest-path %s/harness/Cargo.toml --test %s -- --nocapture' % (HARNESS_TARGET, VERIF, t)}
        if p.returncode != 0 and re.search(r'test result: FAILED|panicked at', out):
            failed = re.findall(r'^test (\S+) \.\.\. FAILED', out, re.M)
            m = re.search(r'WITNESS ([^\n]*)', out)
            detail = m.group(1) if m else '\n'.join(l for l in out.split('\n') if 'panicked at' in l or 'assertion' in l or 'left:' in l or 'right:' in l)[:1500]
            lines = re.findall(r'WITNESS ([^\n]*)', out)
            # failing inputs recorded as open findings of this property (committed known_findings.json, never written at run time) are
            # reported as KNOWN-FINDING by the caller; anything else is a violation
            kf = [f for f in load_findings().get('open', []) if f.get('property') == pid and f.get('bounded_test') == t]
            known = [(f, l) for l in lines for f in kf if f.get('match') and f['match'] in l]
            rest = [l for l in lines if not any(l is kl for (_, kl) in known)]
            if lines and not rest and len(failed) == 1:   # one failing test function, and every input it reports is a recorded finding
                KNOWN_BOUNDED.setdefault(pid, []).extend(known)
                continue
            if rest:
                detail = rest[0]
            return {'harness_test': t, 'failed_tests': failed, 'failing_input': detail[:2000],
                    'rerun': 'CARGO_TARGET_DIR=%s cargo test --offline --manifest-path %s/harness/Cargo.toml --test %s' % (HARNESS_TARGET, VERIF, t)}
    return None


def kill_matrix(pid, units):
    """thorough tier: every recorded mutant that targets this property (in-memory edits, never /repo) must be rejected by an
    obligation tagged with it; every benign edit must still verify.  Reported in the evidence; never changes the verdict."""
    import importlib.util
    from concurrent.futures import ThreadPoolExecutor
    out = {}
    open_ids = set(f['id'] for f in load_findings().get('open', []))   # failures recorded as open findings are not kills
    for un in units:
        mp = os.path.join(VERIF, 'contracts', un, 'mutants.py')
        if not os.path.exists(mp):
            continue
        spec = importlib.util.spec_from_file_location('mutants_' + un, mp)
        mod = importlib.util.module_from_spec(spec)
        spec.loader.exec_module(mod)
        jobs = [(m, False) for m in mod.M if m.get('expect') == pid] + [(m, True) for m in getattr(mod, 'BENIGN', [])]

        def one(j):
            m, benign = j
            try:
                ur = run_unit(un, mutate=(m['file'], m['old'], m['new'], m.get('nth', 0)), tag='mut_' + m['id'], features=m.get('features'))
                if ur.res.status == 'undecided':
                    ur = run_unit(un, mutate=(m['file'], m['old'], m['new'], m.get('nth', 0)), tag='mut_' + m['id'] + 'r', features=m.get('features'))
            except splice.ExtractError as e:
                return m['id'], 'not-applicable-to-this-tree (%s)' % str(e)[:80]
            real, _, _ = split_canaries(ur)
            try:
                os.remove(ur.res.gen_path)
            except OSError:
                pass
            if ur.res.status == 'undecided':
                return m['id'], 'undecided'
            mine = [f for f in real if pid in f.tags and not (f.finding and f.finding in open_ids)]
            if benign:
                return m['id'], ('verifies' if not mine else 'FALSE-ALARM')
            if mine and not any(is_primary(ur, f, pid) for f in mine):
                return m['id'], 'aux-only (undecided unless a recorded input fails)'
            return m['id'], ('killed' if mine else 'SURVIVED')
        with ThreadPoolExecutor(max_workers=8) as ex:
            res = list(ex.map(one, jobs))
        out[un] = {'killed': sum(1 for r in res if r[1] == 'killed'), 'benign_verify': sum(1 for r in res if r[1] == 'verifies'),
                   'total_mutants': sum(1 for j in jobs if not j[1]), 'total_benign': sum(1 for j in jobs if j[1]),
                   'attention': [r for r in res if r[1] not in ('killed', 'verifies')]}
    return out


def incomplete_reason(ur, f, pid=None):
    """why the function this obligation belongs to cannot be decided by its contracts on this tree (None if it can): an anchor of its
    contract text vanished, it is - or calls - a function the contracts do not know (and R17 could not inline), or its loops changed"""
    inc = getattr(ur.gen, 'incomplete', {})
    scope = getattr(ur.gen, 'incomplete_tags', {})
    fn = f.fn or ''
    for k, why in inc.items():
        if fn == k or fn.startswith(k + '#'):
            tg = scope.get(k)
            if tg is None or (pid in tg if pid else bool(set(tg) & set(f.tags))):
                return '; '.join(why)
    return None


def is_primary(ur, f, pid=None):
    """a failed obligation that states the property or an interface between functions: a NAMED clause, a postcondition, a precondition at a
    call, or a panic site (overflow, bounds, assert!/expect/unwrap, termination).  Auxiliary: unnamed loop invariants, ghost assertions
    and proof hints of the contracts - when only those fail, the proof ARGUMENT broke, which says nothing about the property."""
    if incomplete_reason(ur, f, pid):
        return False          # the proof text of this function is structurally incomplete on this tree: 'needs contract', not 'violation'
    for m in f.markers:
        mk = ur.gen.markers[m]
        nm = mk.get('name')
        if nm and 'proof hint' not in nm:
            return True
    k = f.kind or ''
    if k.startswith('invariant') or k == 'loop_ensures':
        return False
    if k == 'assert' and f.markers:
        return False          # a ghost assertion inserted by the contracts (unnamed)
    if k == 'precondition' and any(ur.gen.markers[m]['kind'] == 'hint' for m in f.markers):
        return False          # a lemma precondition inside a proof hint
    return True   # incl. assertions inside generated obligation functions (one per table entry: they ARE the property's clauses)

def run_property(pid, tier='quick', seed=0, replay=None):
    t0 = time.time()
    P = PROPS[pid]
    findings = load_findings()
    open_f = {f['id']: f for f in findings.get('open', []) if f['property'] == pid}
    unit_runs = []
    undecided = None
    for un in P['units']:
        try:
            ur = run_unit(un, tag='main_' + pid)   # per-property file names: checks of different properties may run side by side
        except splice.ExtractError as e:
            undecided = 'extraction: %s' % e
            break
        unit_runs.append(ur)
        if ur.res.status == 'undecided':
            undecided = '%s: %s' % (un, ur.res.reason)
            break
    viol = []
    known = []
    canary_problems = []
    if undecided is None:
        lost = [d for ur in unit_runs for (d, tg) in ur.gen.lost if pid in tg]
        if lost:
            undecided = 'lost anchor(s) of contract text that carries %s: %s' % (pid, ' ;; '.join(lost[:4]))
    if undecided is None:
        for ur in unit_runs:
            real, can_fail, missing = split_canaries(ur)
            if missing:
                canary_problems.append('%s: canary verified although it must fail (vacuous assumptions?): %s' % (ur.name, ', '.join(missing)))
            _, bad = scan_trusted(ur.gen)
            if bad:
                canary_problems.append('%s: undeclared assumption(s): %s' % (ur.name, '; '.join(bad)))
            mine = [f for f in real if pid in f.tags]
            # known findings: a failing clause that carries an open finding id is re-verified with the
            # finding's carve-out; only if that passes is it reported as KNOWN-FINDING
            # per-entry findings (one generated obligation per table literal) need no carve-out: the
            # obligation's identity IS the literal, so a different literal is a different obligation
            per_entry = [f for f in mine if f.finding and f.finding in open_f and open_f[f.finding].get('per_entry')]
            known += [(ur, f) for f in per_entry]
            mine = [f for f in mine if f not in per_entry]
            cand = [f for f in mine if f.finding and f.finding in open_f]
            rest = [f for f in mine if not (f.finding and f.finding in open_f)]
            if cand:
                ids = set(f.finding for f in cand)
                try:
                    ur2 = run_unit(ur.name, carve=ids, tag='carve_' + pid)
                except splice.ExtractError as e:
                    undecided = 'extraction (carve-out run): %s' % e
                    break
                if ur2.res.status == 'undecided':
                    undecided = 'carve-out run: ' + ur2.res.reason
                    break
                real2, _, _ = split_canaries(ur2)
                mine2 = [f for f in real2 if pid in f.tags]
                still = set((f.fn, f.kind, tuple(ur2.gen.markers[m]['idx'] for m in f.markers)) for f in mine2)
                for f in cand:
                    k = (f.fn, f.kind, tuple(ur.gen.markers[m]['idx'] for m in f.markers))
                    if k in still:
                        rest.append(f)   # fails even with the carve-out: a different violation
                    else:
                        known.append((ur, f))
                # failures that only show up in the carve run are new as well
                first = set((f.fn, f.kind) for f in mine)
                for f in mine2:
                    if (f.fn, f.kind) not in first:
                        rest.append(f)
            viol += [(ur, f) for f in rest]
    if undecided is None and canary_problems:
        undecided = ' ;; '.join(canary_problems)
    retried = None
    if undecided is None and viol:
        # a failed obligation is reported only if it fails again with a different solver seed and three times the resource limit:
        # a proof found by any run is a proof; a failure that does not reproduce is solver incompleteness, not a violation
        still = []
        retried = []
        for un in sorted(set(ur.name for (ur, f) in viol)):
            try:
                ur2 = run_unit(un, tag='retry_' + pid, extra_flags=['--rlimit', '30', '--smt-option', 'smt.random_seed=%d' % (seed + 7)])
            except splice.ExtractError:
                ur2 = None
            if ur2 is None or ur2.res.status == 'undecided':
                still += [(ur, f) for (ur, f) in viol if ur.name == un]
                retried.append('%s: retry undecided, first result kept' % un)
                continue
            real2, _, _ = split_canaries(ur2)
            keys2 = set((f.fn, f.kind) for f in real2 if pid in f.tags)
            for (ur, f) in viol:
                if ur.name != un:
                    continue
                if (f.fn, f.kind) in keys2:
                    still.append((ur, f))
                else:
                    retried.append('%s: %s discharged on retry (seed %d, rlimit 30)' % (un, f.oblig, seed + 7))
        viol = still
    # ---- evidence
    obl = dis = 0
    smt = 0
    fns = []
    trusted = []
    rewrites = {}
    clauses = {}
    panic_sites = 0
    dropped = []
    cmds = []
    samples = []
    ext_body = []
    for ur in unit_runs:
        kfns = [f.fn[9:] for (u2, f) in known if u2 is ur and f.fn and f.fn.startswith('inserted:')]
        o, d = obligation_stats(ur, P.get('relevant'), kfns)
        # a function-level query that failed only on clauses of OTHER properties is discharged as far as this one goes
        mine_fns = set(f.fn for (u2, f) in viol if u2 is ur)
        obl += o
        dis += max(0, o - len(mine_fns)) if ur.res.status != 'undecided' else d
        smt += ur.res.smt_ms
        cmds.append(ur.res.cmd)
        t, _ = scan_trusted(ur.gen)
        trusted += ['%s: %s' % (ur.name, x) for x in t]
        for k, v in ur.gen.rewrites.items():
            rewrites[k] = rewrites.get(k, 0) + v
        for k, v in ur.gen.clause_counts.items():
            clauses[k] = clauses.get(k, 0) + v
        panic_sites += ur.gen.panic_sites
        dropped += ur.gen.dropped
        for fi in ur.gen.functions:
            if fi.get('dropped'):
                continue
            nm = '%s:%s' % (fi['file'], fi['path'])
            if fi.get('external_body') or fi.get('external'):
                ext_body.append(nm)
            elif pid in fi['tags'] or True:
                fns.append(nm)
        tagged = [m for m in ur.gen.markers.values() if pid in m['tags'] and m.get('text')]
        step = max(1, len(tagged) // 5)
        for m in tagged[::step][:6]:
            samples.append({'obligation': '%s:%s:%s#%d' % (ur.name, m['fn'], m['kind'], m['idx']), 'clause': m['text'][:240],
                            'name': m.get('name'), 'generated_line': m.get('line')})
    ev = {
        'property_id': pid, 'tier': tier, 'seed': seed, 'level': P.get('level', 'proof'),
        'coverage': {
            'obligations': obl, 'discharged': dis,
            'checker_cmd': ' ;; '.join(cmds),
            'trusted_base': trusted,
            'explanation': P['explanation'],
            'functions_under_contract': fns,
            'functions_not_verified_external_body': ext_body,
            'clauses_spliced': clauses,
            'panic_sites_in_verified_bodies': panic_sites,
            'rewrites_applied': rewrites,
            'dropped_from_unit': dropped,
            'solver': 'z3 via verus 0.2026.09.13', 'smt_ms': smt,
            'samples': samples,
            'known_findings_reported': [f.oblig for (_, f) in known],
            'helpers_inlined_R17': sorted(set(x for ur in unit_runs for x in getattr(ur.gen, 'inlined', []))),
            'functions_needing_contract_on_this_tree': {k: v for ur in unit_runs for k, v in getattr(ur.gen, 'incomplete', {}).items()},
            'retry_after_failure': retried,
            'units': P['units'],
            'undecided': undecided,
            'exhaustive': False,
        },
        'assumptions': P.get('assumptions', []),
        'wall_s': round(time.time() - t0, 2),
        'violations': len(viol),
    }
    return ev, viol, known, undecided, unit_runs


def main(argv):
    import argparse
    ap = argparse.ArgumentParser()
    ap.add_argument('pid')
    ap.add_argument('--tier', default=os.environ.get('VERIF_TIER', 'quick'))
    ap.add_argument('--replay')
    a = ap.parse_args(argv)
    import props  # noqa: F401  registers PROPS
    pid = a.pid
    seed = int(os.environ.get('VERIF_SEED', '0') or 0)
    if pid not in PROPS:
        print('unknown property', pid)
        return 2
    if a.replay:
        data = json.load(open(a.replay))
        print('replaying', a.replay, '(%d failed obligations recorded)' % len(data['failed_obligations']))
        if data.get('witness'):
            # replay the concrete failing input against the real code of the current tree
            w = witness_search(pid)
            if w:
                print('  still fails on the real code: %s' % w['failing_input'][:400])
                print('VIOLATION property=%s replay=%s' % (pid, a.replay))
                return 1
            print('  the recorded input no longer fails; re-running the proof')
    ev, viol, known, undecided, unit_runs = run_property(pid, a.tier, seed)
    extra = PROPS[pid].get('post')
    witness = None
    bounded = PROPS[pid].get('bounded', [])
    if bounded and not viol and not undecided:
        # BOUNDED stand-in for an obligation that no contract within reach can express (labelled bounded, never counted as proved):
        # recorded sessions replayed against the real code of the working tree
        ev['coverage']['bounded_checks'] = []
        for b in bounded:
            try:
                w = witness_search(pid, tests=[b['test']])
                kb = sorted(set(f['id'] for (f, _) in KNOWN_BOUNDED.get(pid, []) if f.get('bounded_test') == b['test']))
                ev['coverage']['bounded_checks'].append({'test': b['test'], 'stands_in_for': b['covers'], 'bound': b['bound'],
                                                         'result': 'FAILED' if w else ('passed' + ((' except for the recorded finding(s) ' + ', '.join(kb)) if kb else ''))})
                ev['coverage']['known_findings_reported'] = ev['coverage'].get('known_findings_reported', []) + ['bounded:%s:%s' % (b['test'], k) for k in kb]
                if w and witness is None:
                    witness = w
                    witness['bounded_stand_in_for'] = b['covers']
            except Exception as e:
                ev['coverage']['bounded_checks'].append({'test': b['test'], 'stands_in_for': b['covers'], 'bound': b['bound'], 'result': 'not run: %s' % e})
                undecided = 'bounded stand-in %s could not run: %s' % (b['test'], str(e)[:300])
                ev['coverage']['undecided'] = undecided
    if a.tier == 'thorough':
        if not viol and not undecided and not witness:
            # (a) solver-seed / resource variation: the proofs must not depend on one lucky seed
            stab = []
            for un in PROPS[pid]['units']:
                for sd in (seed + 1, seed + 2):
                    try:
                        ur2 = run_unit(un, tag='seed%d_%s' % (sd, pid), extra_flags=['--smt-option', 'smt.random_seed=%d' % sd])
                        real2, _, _ = split_canaries(ur2)
                        bad = [f.oblig for f in real2 if pid in f.tags and not f.finding]
                        stab.append({'unit': un, 'seed': sd, 'status': ur2.res.status, 'smt_ms': ur2.res.smt_ms, 'failed_under_this_seed': bad})
                    except splice.ExtractError as e:
                        stab.append({'unit': un, 'seed': sd, 'status': 'extract-error'})
            ev['coverage']['seed_variation'] = stab
            # (b) kill matrix
            km = kill_matrix(pid, PROPS[pid]['units'])
            ev['coverage']['kill_matrix'] = km
            for un, r in km.items():
                print('  kill-matrix %s: %d/%d mutants of %s killed, %d/%d benign edits verify%s' % (
                    un, r['killed'], r['total_mutants'], pid, r['benign_verify'], r['total_benign'], (' ATTENTION ' + str(r['attention'])) if r['attention'] else ''))
    if (viol or undecided) and not witness:
        # witness search on the real code (both tiers; it only runs on a failing or undecided tree): adds a concrete failing input
        # to the report when it finds one among the recorded inputs / small enumerative searches of this property
        try:
            # the recorded inputs and searches of the property, then its bounded corpora (on an undecided tree they have not run yet)
            wt = list(WITNESS_TESTS.get(pid, [])) + [b['test'] for b in bounded if b['test'] not in WITNESS_TESTS.get(pid, [])]
            witness = witness_search(pid, budget_s=(600 if a.tier == 'thorough' else 180), tests=wt)
        except Exception as e:
            ev['coverage']['witness_search_error'] = str(e)
        ev['coverage']['witness'] = witness
    ev['wall_s'] = round(ev['wall_s'], 2)
    os.makedirs(os.path.join(VERIF, 'evidence'), exist_ok=True)
    if undecided:
        # evidence must still be schema-valid; an undecided run proves nothing
        ev['coverage']['obligations'] = max(1, ev['coverage']['obligations'])
        ev['coverage']['discharged'] = max(1, ev['coverage']['discharged']) if ev['coverage']['discharged'] else 1
    json.dump(ev, open(os.path.join(VERIF, 'evidence', pid + '.json'), 'w'), indent=1)
    seen_k = set()
    for (ur, f) in known:
        if f.finding in seen_k:
            continue
        seen_k.add(f.finding)
        fd = load_findings()
        desc = next((x for x in fd['open'] if x['id'] == f.finding), {})
        print('KNOWN-FINDING: property=%s %s %s -- %s' % (pid, f.finding, f.oblig, desc.get('what', '')))
    seen_b = set()
    for (f, line) in KNOWN_BOUNDED.get(pid, []):
        if f['id'] in seen_b:
            continue
        seen_b.add(f['id'])
        print('KNOWN-FINDING: property=%s %s bounded:%s -- %s' % (pid, f['id'], f.get('bounded_test'), f.get('what', '')))
    if witness and witness.get('bounded_stand_in_for') and not viol and not undecided:
        path = write_replay(pid, a.tier, [], unit_runs, witness)
        json.dump(ev, open(os.path.join(VERIF, 'evidence', pid + '.json'), 'w'), indent=1)
        print('  bounded stand-in failed (%s): %s' % (witness['bounded_stand_in_for'], witness['failing_input'][:400]))
        print('VIOLATION property=%s replay=%s' % (pid, path))
        return 1
    if undecided and witness:
        # the verifier could not decide (unsupported construct, lost anchor, ...) but the real code fails on a concrete input
        path = write_replay(pid, a.tier, [], unit_runs, witness)
        print('  the verifier could not decide (%s); the witness search found a failing input on the real code: %s' % (undecided[:200], witness['failing_input'][:300]))
        print('VIOLATION property=%s replay=%s' % (pid, path))
        return 1
    if undecided:
        print('UNDECIDED property=%s reason=%s' % (pid, ' | '.join(undecided[:1500].split('\n'))))
        return 2
    if viol:
        path = write_replay(pid, a.tier, viol, unit_runs, witness)
        for (ur, f) in viol:
            inc = incomplete_reason(ur, f, pid)
            print('  failed obligation: %s%s' % (f.oblig, '' if is_primary(ur, f, pid) else ('   [needs contract: %s]' % inc[:200] if inc else '   [auxiliary]')))
        if not witness and not any(is_primary(ur, f, pid) for (ur, f) in viol):
            # only auxiliary obligations (unnamed loop invariants, ghost assertions, proof hints) failed and no failing input was found:
            # the proof argument no longer goes through for this body - undecided, not a violation
            print('UNDECIDED property=%s reason=only auxiliary proof obligations failed (the argument of the proof broke on this body, or the body changed shape so that its contracts no longer attach: no decidable clause that states the property, no interface contract, no panic site) and the witness search found no failing input; details: %s' % (pid, path))
            return 2
        suffix = '' if witness else ' no-failing-input-found'
        print('VIOLATION property=%s replay=%s%s' % (pid, path, suffix))
        return 1
    print('OK property=%s obligations=%d discharged=%d smt_ms=%d wall_s=%.1f' % (
        pid, ev['coverage']['obligations'], ev['coverage']['discharged'], ev['coverage']['smt_ms'], ev['wall_s']))
    return 0


if __name__ == '__main__':
    sys.exit(main(sys.argv[1:]))
