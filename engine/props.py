"""Registry of the claimed properties (what units decide them, what the evidence says)."""
from check import prop

SYN_ASSUME = [
    'Verus 0.2026.09.13 + Z3 + rustc 1.98.1 are sound; the extractor is faithful (round-trip audit: copied and dropped bytes tile every source file)',
    'assumed contracts on unscanny::Scanner (new,cursor,peek,eat,eat_if,eat_while,eat_until,jump,from,get) read from unscanny 0.1.0 source; pattern semantics axioms for char, &str, fn(char)->bool, fn(&char)->bool',
    'assumed contracts on rowan::GreenNodeBuilder 0.16.1 (new,start_node,token,finish_node,checkpoint,start_node_at,finish): the specs are its code; the finished tree text is the concatenation of pushed token texts; token offsets are cumulative lengths',
    'UTF-8 model: 1 <= u8len(c) <= 4, |enc(s)| = boff(s,|s|), enc of a char sub-range is the byte sub-range (uninterpreted enc/u8len)',
    'Into<String>/Into<EcoString>/usize->TextSize conversions obey vstd IntoSpec/TryIntoSpec and keep text/value (axioms ax_into_*, ax_usize_to_text_size)',
    'derived PartialEq on the field-less enums TokenKind/SyntaxKind is structural',
    'input text shorter than 4 GiB (precondition of parse(), rowan TextSize limit)',
    'call-stack depth is not modelled (the property itself excludes nesting deeper than 256)',
    'unsafe code (rowan kind_from_raw transmute, unscanny get_unchecked) is outside the proof',
    'interpret_number (from_str_radix/parse) is external_body: assumed not to panic, result uninterpreted',
    'eco_format!("expected {kind:?}") is replaced by an opaque producer of a non-empty EcoString (R5)',
]

prop('C01', units=['syn'], level='proof', relevant=r'^unit::(?!completion::|lexspec::)',
     explanation=('Verus proves, for every text < 4 GiB, that syntax::parse builds a green tree whose text equals the input: '
                  'the tiling invariant inv_t (builder text == input prefix before the look-ahead) is carried through every '
                  'ParserBase method and all 78 grammar functions by their contracts, from Scanner cursor arithmetic up to '
                  'parse()\'s postcondition green_text(tree) == enc(text). Obligations = one Verus query per function of the syntax crate '
                  '(lexer, preprocessor, parser, grammar) plus the prelude lemmas.'),
     assumptions=SYN_ASSUME)
prop('C02', units=['syn'], level='proof', relevant=r'^unit::(?!completion::|lexspec::)',
     explanation=('Verus proves termination (decreases: fuel = bytes left + look-ahead, lexicographic with a static rank; closures included) '
                  'and panic freedom (assert!/expect/unreachable!/rowan builder preconditions/TextRange::new/arithmetic overflow) for every '
                  'function of the syntax crate, and that every recorded SyntaxError has a non-empty message and a range inside the text on '
                  'char boundaries. The linear work bound is implied by fuel only per loop iteration and is not separately proved.'),
     assumptions=SYN_ASSUME)

prop('C14', units=['syn'], level='proof', relevant=r'^unit::(lexer|lexspec|token_kind|prelude)::',
     explanation=('Verus proves that Lexer::next_token agrees with an independent reference lexer ref_lex (contracts/syn/lexspec.rs, written from the '
                  'TableGen Programmer\'s Reference / TGLexer: identifiers incl. digit-leading, decimal/hex/binary integers, strings with escapes, code '
                  'fragments, $names, all keywords and bang operators, punctuation, blanks, line comments, nested block comments, # directives) on every '
                  'position where the reference yields a valid token: same kind, same end, never Error. Each sub-scanner carries a functional '
                  'postcondition (maximal-munch runs via scan(), str_end, bc_end, find2, keyword/bang tables); the sequence form (a separated sequence of '
                  'valid tokens is split into exactly those tokens) is the proved lemma lex_sequence over that per-call contract.'),
     assumptions=SYN_ASSUME + [
         'interpret_number is external_body with the assumed contract ret.is_some() == num_ok(text): the 64-bit range check of integer literals is not verified',
         'char::is_alphabetic restricted to ASCII is the ASCII letters (axiom ax_alphabetic); char::is_whitespace per vstd',
         'pattern functions passed to the scanner return a value satisfying their own postcondition (operational reading of unscanny patterns)',
         'two &str with equal chars are equal (ax_str_inj)',
         'R12: the closure literal in number() is bound to a local in the verified text so that ghost code can name it',
         'left unclaimed by the reference (ref_lex = None): 0x/0b look-alikes such as 0xg or 12x3, `#word` directly followed by a non-blank, invalid escapes, unterminated strings/comments, non-ASCII whitespace',
     ])

prop('C20', units=['syn'], level='proof', relevant=r'^unit::(completion::|lexer::Lexer::(identifier|bangoperator|number|next_token)|grammar::statement::statement$|lexspec::)',
     explanation=('Finite and exhaustive over the real tables: the const arrays TOPLEVEL_KEYWORDS, PRIMITIVE_TYPES, BOOLEAN_VALUES, BANG_OPERATORS are hoisted '
                  'verbatim from completion.rs into the unit; one Verus obligation per entry states that the literal is an identifier word whose lexer '
                  'table kind (kw_kind / bang_kind, which the real Lexer::identifier / Lexer::bangoperator are proved to implement) is exactly a statement '
                  'keyword / type / boolean / bang operator; one obligation per lexable bang operator states that it occurs in BANG_OPERATORS; an assertion '
                  'spliced into the error arm of grammar::statement proves that arm unreachable for a statement keyword. Not decided: class-name completion '
                  '(symbol map, rowan) and that the copy loops offer exactly the table entries (ref patterns are unsupported by Verus; assumed).'),
     assumptions=SYN_ASSUME + ['complete_* copy loops are external_body: assumed to offer exactly the entries of their const table plus the literal snippet labels',
                               'const item types are rewritten from &str to &\'static str (what rustc elides) and the fn-local consts are hoisted to module level (R10)'])

prop('C15', units=['pps'], level='proof',
     explanation=('Verus proves a step simulation between the real PreProcessor<T>::next_token (for an arbitrary inner token stream T whose contract '
                  'exposes its token sequence as ghost state) and a reference evaluator written from the property statement (frames with taken/seen_else, '
                  'a token is delivered iff every open frame is enabled, #define only takes effect when delivered, disabled text is skipped with its own '
                  'nesting and produces nothing, unterminated conditional and directive without name are errors): whenever the real state is related to a '
                  'reference state, the returned kind is exactly the item the reference delivers and the states stay related; for every well-nested '
                  'arrangement, any nesting depth, any macro set. The depth-counting skip loop is tied to the reference by the invariant '
                  'run_off(i0,0,f) == run_off(i,depth-1,f). Malformed (not well-nested) inputs are outside the claim, as in the property.'),
     assumptions=['Verus/Z3/rustc sound; extraction faithful (round-trip audit)',
                  'the inner stream is deterministic: eat() delivers the kinds of a fixed token sequence, cursor() the start offset of the next token, text(a..b) the text of the token between two consecutive offsets (assumed trait contract; holds for the real Lexer by construction but is not proved for it)',
                  'HashSet<EcoString> obeys vstd\'s key model; a borrowed &str key is contained iff a member has that text; equal text means equal key',
                  '&str -> EcoString conversion keeps the text (IntoSpec axiom)',
                  'the TokenStream impl block of PreProcessor (pure delegations) is dropped from this unit; it is verified in unit SYN',
                  'no parse-level claim: that disabled text produces no declarations/diagnostics follows because its tokens are never delivered (they reach the parser as one PreProcessor trivia token, proved in SYN/C01)'])
