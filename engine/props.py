"""Registry of the claimed properties (what units decide them, what the evidence says)."""
from check import prop

SYN_ASSUME = [
    'Verus 0.2026.09.13 + Z3 + rustc 1.98.1 are sound; the extractor is faithful (round-trip audit: copied and dropped bytes tile every source file)',
    'assumed contracts on unscanny::Scanner (new,cursor,peek,eat,eat_if,eat_while,eat_until,jump,from,get) read from unscanny 0.1.0 source; pattern semantics axioms for char, &str, fn(char)->bool, fn(&char)->bool',
    'assumed contracts on rowan::GreenNodeBuilder 0.16.1 (new,start_node,token,finish_node,checkpoint,start_node_at,finish): the specs are its code; the finished tree text is the concatenation of pushed token texts; token offsets are cumulative lengths',
    'UTF-8 model: 1 <= u8len(c) <= 4, |enc(s)| = boff(s,|s|), enc of a char sub-range is the byte sub-range (uninterpreted enc/u8len)',
    'Into<String>/Into<EcoString>/usize->TextSize conversions obey vstd IntoSpec/TryIntoSpec and keep text/value (axioms ax_into_*, ax_usize_to_text_size)',
    'derived PartialEq on the field-less enums TokenKind/SyntaxKind is structural',
    'input text shorter than 4 GiB (precondition of parse(), rowan TextSize limit)',
    'call-stack depth is not modelled (the property itself excludes nesting deeper than 256)',
    'unsafe code (rowan kind_from_raw transmute, unscanny get_unchecked) is outside the proof',
    'interpret_number (from_str_radix/parse) is external_body: assumed not to panic, result uninterpreted',
    'eco_format!("expected {kind:?}") is replaced by an opaque producer of a non-empty EcoString (R5)',
]

prop('C01', units=['syn'], level='proof',
     explanation=('Verus proves, for every text < 4 GiB, that syntax::parse builds a green tree whose text equals the input: '
                  'the tiling invariant inv_t (builder text == input prefix before the look-ahead) is carried through every '
                  'ParserBase method and all 78 grammar functions by their contracts, from Scanner cursor arithmetic up to '
                  'parse()\'s postcondition green_text(tree) == enc(text). Obligations = one Verus query per function of the syntax crate '
                  '(lexer, preprocessor, parser, grammar) plus the prelude lemmas.'),
     assumptions=SYN_ASSUME)
prop('C02', units=['syn'], level='proof',
     explanation=('Verus proves termination (decreases: fuel = bytes left + look-ahead, lexicographic with a static rank; closures included) '
                  'and panic freedom (assert!/expect/unreachable!/rowan builder preconditions/TextRange::new/arithmetic overflow) for every '
                  'function of the syntax crate, and that every recorded SyntaxError has a non-empty message and a range inside the text on '
                  'char boundaries. The linear work bound is implied by fuel only per loop iteration and is not separately proved.'),
     assumptions=SYN_ASSUME)
