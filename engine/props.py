"""Registry of the claimed properties (what units decide them, what the evidence says)."""
from check import prop

SYN_ASSUME = [
    'Verus 0.2026.09.13 + Z3 + rustc 1.98.1 are sound; the extractor is faithful (round-trip audit: copied and dropped bytes tile every source file)',
    'assumed contracts on unscanny::Scanner (new,cursor,peek,eat,eat_if,eat_while,eat_until,jump,from,get) read from unscanny 0.1.0 source; pattern semantics axioms for char, &str, fn(char)->bool, fn(&char)->bool',
    'assumed contracts on rowan::GreenNodeBuilder 0.16.1 (new,start_node,token,finish_node,checkpoint,start_node_at,finish): the specs are its code; the finished tree text is the concatenation of pushed token texts; token offsets are cumulative lengths',
    'UTF-8 model: 1 <= u8len(c) <= 4, |enc(s)| = boff(s,|s|), enc of a char sub-range is the byte sub-range (uninterpreted enc/u8len)',
    'Into<String>/Into<EcoString>/usize->TextSize conversions obey vstd IntoSpec/TryIntoSpec and keep text/value (axioms ax_into_*, ax_usize_to_text_size)',
    'derived PartialEq on the field-less enums TokenKind/SyntaxKind is structural',
    'input text shorter than 4 GiB (precondition of parse(), rowan TextSize limit)',
    'call-stack depth is not modelled (the property itself excludes nesting deeper than 256)',
    'unsafe code (rowan kind_from_raw transmute, unscanny get_unchecked) is outside the proof',
    'interpret_number (from_str_radix/parse) is external_body: assumed not to panic, result uninterpreted',
    'eco_format!("expected {kind:?}") is replaced by an opaque producer of a non-empty EcoString (R5)',
]

prop('C01', units=['syn'], level='proof', relevant=r'^unit::(?!completion::|lexspec::)',
     explanation=('Verus proves, for every text < 4 GiB, that syntax::parse builds a green tree whose text equals the input: '
                  'the tiling invariant inv_t (builder text == input prefix before the look-ahead) is carried through every '
                  'ParserBase method and all 78 grammar functions by their contracts, from Scanner cursor arithmetic up to '
                  'parse()\'s postcondition green_text(tree) == enc(text). Obligations = one Verus query per function of the syntax crate '
                  '(lexer, preprocessor, parser, grammar) plus the prelude lemmas.'),
     assumptions=SYN_ASSUME)
prop('C02', units=['syn'], level='proof', relevant=r'^unit::(?!completion::|lexspec::)',
     explanation=('Verus proves termination (decreases: fuel = bytes left + look-ahead, lexicographic with a static rank; closures included) '
                  'and panic freedom (assert!/expect/unreachable!/rowan builder preconditions/TextRange::new/arithmetic overflow) for every '
                  'function of the syntax crate, and that every recorded SyntaxError has a non-empty message and a range inside the text on '
                  'char boundaries. The linear work bound is implied by fuel only per loop iteration and is not separately proved.'),
     assumptions=SYN_ASSUME)

prop('C14', units=['syn'], level='proof', relevant=r'^unit::(lexer|lexspec|token_kind|prelude)::',
     explanation=('Verus proves that Lexer::next_token agrees with an independent reference lexer ref_lex (contracts/syn/lexspec.rs, written from the '
                  'TableGen Programmer\'s Reference / TGLexer: identifiers incl. digit-leading, decimal/hex/binary integers, strings with escapes, code '
                  'fragments, $names, all keywords and bang operators, punctuation, blanks, line comments, nested block comments, # directives) on every '
                  'position where the reference yields a valid token: same kind, same end, never Error. Each sub-scanner carries a functional '
                  'postcondition (maximal-munch runs via scan(), str_end, bc_end, find2, keyword/bang tables); the sequence form (a separated sequence of '
                  'valid tokens is split into exactly those tokens) is the proved lemma lex_sequence over that per-call contract.'),
     assumptions=SYN_ASSUME + [
         'interpret_number is external_body with the assumed contract ret.is_some() == num_ok(text): the 64-bit range check of integer literals is not verified',
         'char::is_alphabetic restricted to ASCII is the ASCII letters (axiom ax_alphabetic); char::is_whitespace per vstd',
         'pattern functions passed to the scanner return a value satisfying their own postcondition (operational reading of unscanny patterns)',
         'two &str with equal chars are equal (ax_str_inj)',
         'R12: the closure literal in number() is bound to a local in the verified text so that ghost code can name it',
         'left unclaimed by the reference (ref_lex = None): 0x/0b look-alikes such as 0xg or 12x3, `#word` directly followed by a non-blank, invalid escapes, unterminated strings/comments, non-ASCII whitespace',
     ])

prop('C20', units=['syn'], level='proof', relevant=r'^unit::(completion::|lexer::Lexer::(identifier|bangoperator|number|next_token)|grammar::statement::statement$|lexspec::)',
     bounded=[dict(test='c20_classes', covers='the class-name half of C20 (CompletionContext::complete_classes: iterator chain over the symbol map and format!, outside the contracts)',
                   bound='a fixed corpus written from the property statement: 3 workspaces (0/1/3 template parameters incl. defaulted ones, a multiclass, defs and a defset that must not be offered, a class of an included file); the offered (label, snippet) set is compared with the expected one and every snippet, placeholders filled, is parsed and indexed as a parent-class reference')],
     explanation=('Finite and exhaustive over the real tables: the const arrays TOPLEVEL_KEYWORDS, PRIMITIVE_TYPES, BOOLEAN_VALUES, BANG_OPERATORS are hoisted '
                  'verbatim from completion.rs into the unit; one Verus obligation per entry states that the literal is an identifier word whose lexer '
                  'table kind (kw_kind / bang_kind, which the real Lexer::identifier / Lexer::bangoperator are proved to implement) is exactly a statement '
                  'keyword / type / boolean / bang operator; one obligation per lexable bang operator states that it occurs in BANG_OPERATORS; an assertion '
                  'spliced into the error arm of grammar::statement proves that arm unreachable for a statement keyword. Class-name completion (symbol map, rowan) is outside the contracts: a BOUNDED stand-in (fixed corpus, not counted as proved) covers it. Not decided: that the copy loops offer exactly the table entries (ref patterns are unsupported by Verus; assumed).'),
     assumptions=SYN_ASSUME + ['complete_* copy loops are external_body: assumed to offer exactly the entries of their const table plus the literal snippet labels',
                               'const item types are rewritten from &str to &\'static str (what rustc elides) and the fn-local consts are hoisted to module level (R10)'])

prop('C15', units=['pps'], level='proof',
     explanation=('Verus proves a step simulation between the real PreProcessor<T>::next_token (for an arbitrary inner token stream T whose contract '
                  'exposes its token sequence as ghost state) and a reference evaluator written from the property statement (frames with taken/seen_else, '
                  'a token is delivered iff every open frame is enabled, #define only takes effect when delivered, disabled text is skipped with its own '
                  'nesting and produces nothing, unterminated conditional and directive without name are errors): whenever the real state is related to a '
                  'reference state, the returned kind is exactly the item the reference delivers and the states stay related; for every well-nested '
                  'arrangement, any nesting depth, any macro set. The depth-counting skip loop is tied to the reference by the invariant '
                  'run_off(i0,0,f) == run_off(i,depth-1,f). Malformed (not well-nested) inputs are outside the claim, as in the property.'),
     assumptions=['Verus/Z3/rustc sound; extraction faithful (round-trip audit)',
                  'the inner stream is deterministic: eat() delivers the kinds of a fixed token sequence, cursor() the start offset of the next token, text(a..b) the text of the token between two consecutive offsets (assumed trait contract; holds for the real Lexer by construction but is not proved for it)',
                  'HashSet<EcoString> obeys vstd\'s key model; a borrowed &str key is contained iff a member has that text; equal text means equal key',
                  '&str -> EcoString conversion keeps the text (IntoSpec axiom)',
                  'the TokenStream impl block of PreProcessor (pure delegations) is dropped from this unit; it is verified in unit SYN',
                  'no parse-level claim: that disabled text produces no declarations/diagnostics follows because its tokens are never delivered (they reach the parser as one PreProcessor trivia token, proved in SYN/C01)'])

IDX_ASSUME = [
    'Verus/Z3/rustc sound; extraction faithful (round-trip audit); run with --no-trait-conflicts (salsa supertraits of dyn IndexDatabase cannot be encoded; coherence is checked by rustc on the real crate)',
    'the indexer text is verified as its own crate against the REAL ide and syntax rlibs rebuilt from /repo; the query group, struct Index, fn index and IndexCtx::finish stay in the linked crate',
    'about 130 dependency functions (AST accessors, symbol-map constructors/setters, Diagnostic::new, ...) have signature-only assumed contracts harvested mechanically: assumed not to panic and not to touch the scope/file stacks',
    'termination of the recursion over the syntax tree is not proved (no measure on the external rowan/AST types; #[verifier::exec_allows_no_decreases_clause])',
    'R13: Option::and_then(closure capturing &mut ctx) is inlined to its defining match in the verified text (1 site in BangOperator::index)',
    'external_body with ASSUMED frame contract (iterator adapters / closures capturing ctx): ArgValueList::index, resolve_class_ref_as_class/_multiclass, the common:: helpers of bang_operator.rs, Scopes::current_*_id / add_variable / find_variable_in_current_scope, IndexCtx::new / next_anonymous_def_name; R14 helpers outlined from check_template_args (4), Scopes::find_local (1), Value::index (1), SimpleValue::index (4), each listed under dropped_from_unit',
    'the symbol-map lookups (Record::find_field / find_template_arg, Multiclass::find_template_arg, SymbolMap::find_def / record / multiclass) are functions of their arguments (uninterpreted sp_*); EcoString obeys the HashMap key model and == compares the text; id_arena::Id<T> is accepted in recursive positions (it holds a PhantomData only)',
    'tree-shape assumptions on the parser output: Def::record_body, Defm::parent_class_list, Defset::statement_list, Foreach::body are always Some (the grammar functions build these nodes unconditionally)',
    'R4 for-loop desugaring, R5 tracing!/format! removal, R11 binder renaming in the verified text',
]
prop('C05', units=['idx'], level='proof', relevant=r'^unit::index::',
     bounded=[dict(test='c05_uses', covers='the parts of C05 outside the contracts: class references through the global tables, field suffixes and inherited fields (Type::find_field), dag and list elements, def-name pastes, and that find-references returns exactly the uses (symbol_map.rs and rowan code)',
                   bound='a fixed corpus written from the property statement: 4 programs in which every used name is in scope (classes with template arguments, fields and heirs, let overrides, field access; defvar / foreach / !foreach / !foldl variables, a foreach variable pasted onto a def name; dag operators and arguments after a bare $name, dags inside a list; multiclass / defm / defset / let, a defset used as a value); no diagnostic, go-to-definition on each of 45 uses compared with the declaring identifier, find-references on each of 29 declarations compared with the exact set of uses')],
     explanation=('PARTIAL. Verus proves on the real indexer text: (a) scope discipline - for every Indexable::index impl within reach and the helpers they call, over every exit including `?`, '
                  'the scope stack (as a sequence of frame kinds) and the file stack are exactly restored (class, def, defm, defset, foreach, multiclass and the three bang-operator scopes pop what '
                  'they pushed; an included file is popped again): the mechanism behind "a name used after the construct that declared it has ended does not resolve to it" and "in the right file"; '
                  '(b) lookup order - Scopes::find_local, Scope::find_variable and IndexCtx::resolve_id return exactly the reference lookup written from the property (innermost scope first; in a scope '
                  'its declared variables, then the foreach iterator, then for a record scope own and inherited fields, then template arguments, for a multiclass scope template arguments; global defs '
                  'last), and Scope::add_variable makes a declared name findable; (c) use site - in SimpleValue::index the reference recorded for an identifier is the symbol that lookup yields, at the '
                  'identifier token\'s own range in the file on top of the include stack. Not decided: class references (global class table), field suffixes (Type::find_field), that declarations are '
                  'entered into the scope they belong to (Scopes::add_variable), the position index behind go-to-definition / find-references (symbol-map internals).'),
     assumptions=IDX_ASSUME)
prop('C03', units=['idx'], level='proof', relevant=r'^unit::index::',
     bounded=[dict(test='c03_search', covers='the request handlers (diagnostics, document symbols, folding ranges, links, inlay hints, definition, references, hover, completion: rowan navigation and symbol-map iterators outside the contracts) and the symbol-map functions the indexer calls',
                   bound='6 valid programs of the supported core: every prefix (about 1 300 texts) and every single-token edit - deletion, duplication, replacement by one of 6 tokens - (about 3 000 texts), plus 5 nonsensical programs (surplus / unresolved / repeated template arguments, inheritance cycles, undefined classes, wrong operator arities, empty constructs); every request, position requests at every char offset; a panic or no answer within 20 s fails')],
     explanation=('PARTIAL (three mechanisms of the indexer). Verus proves on the real indexer text that the precondition of every panic site holds on every path: '
                  'Scopes::pop / last (expect "scope is empty"), IndexCtx::current_file_id / pop_file / error (expect "file_trace is empty"), the panic! of '
                  'TemplateArgDecl::index and ParentClassList::index (a Record/Multiclass/Defm frame is open), the expect of FieldDef/FieldLet (a Record frame is open); '
                  'and that no record is added to its own parent list (the only inheritance cycle the indexer could build, since a parent must already exist), which is what '
                  'keeps Record::find_field / is_subclass_of from recursing forever. Not decided: handlers\' rowan navigation, salsa, '
                  'termination of find_field under the acyclicity it relies on (argued, not mechanised), hangs elsewhere.'),
     assumptions=IDX_ASSUME + ['SymbolMap::record_mut returns the record with the requested id (ghost rec_id_of); id_arena::Id equality is structural'])
prop('C16', units=['idx', 'fs', 'dl'], level='proof', relevant=r'^unit::(index|file_system|fsspec|document_link)::',
     bounded=[dict(test='c16_alias', covers='one file = one path: include paths that spell the same file differently (`./a.td`, `sub/../a.td`) must lead to one workspace entry (FilePath::join / std::path and the OS file system are outside the contracts: unit FS assumes join to be some function of directory and text and the universe of file ids to be finite)',
                   bound='3 workspaces on the OS file system through the real lsp::vfs::Vfs: self-include spelled ./a.td, cycle a.td -> sub/b.td -> ../a.td, diamond main -> sub/x.td -> ../common.td and main -> common.td; number of workspace files and diagnostics compared with the expected ones, 60 s watchdog')],
     explanation=('Unit FS: Verus proves on the real text of collect_sources that the work-list loop terminates (measure: files of the universe not yet visited, then queue length; '
                  'the universe of file ids the file system can hand out is ASSUMED finite), that the returned SourceRoot contains the root, is closed under the include maps stored '
                  'in the database and contains only files reachable from the root through them (BFS invariants with a path witness), and that an include statement is recorded in its '
                  'file\'s include map iff it resolves, with the file it resolves to (the data behind document links and not-found diagnostics). '
                  'Unit IDX: Verus proves on the real text that IndexCtx::push_file enters a file iff it is not yet in indexed_files and '
                  'records it, that Include::index only indexes a file it has entered, and that no indexing function ever removes a file from indexed_files; hence the '
                  'declarations of a file reached along several include paths (or through a cycle) are indexed once. '
                  'Unit DL: the filter closure of ide::handlers::document_link::exec is moved into a function and proved: a link is produced for a node iff it is an include statement (with a path) '
                  'whose id - IncludeId(SyntaxNodePtr::new(include.syntax())), the constructor list_includes uses - is recorded in the resolved include map, the link points to the recorded file and covers the path literal. '
                  'Unit IDX also proves that an include statement with no entry in the map gets a diagnostic at the statement, in its file. Together with FS ("recorded iff it resolves, with the file it resolves to") '
                  'this covers the link / not-found clause; one link per include node in document order is the assumed semantics of descendants().filter_map().collect().'),
     assumptions=IDX_ASSUME + ['FileId obeys vstd\'s HashSet key model',
                               'FS: the file system hands out ids from a finite, unchanging universe (false for an OS file system with `./` path aliases: see DESIGN, finding on path aliases)',
                               'FS: the path of a file has a parent directory; PathBuf::from_str never fails',
                               'FS: resolve_include_file is verified: an include path resolves to the file of the FIRST directory of the list in which it is readable (resolve_spec over the uninterpreted answers fs_readable / fs_id of the file system); ASSUMED of FileSystem implementations: read_content is Some iff readable, assign_or_get_file_id returns the id of the path and changes neither readability nor ids; FilePath::join is a function of directory and text',
                               'FS: list_includes is external_body: distinct include statements have distinct ids',
                               'FS: FileSet/SourceRoot/HashMap<IncludeId,_>/salsa setters behave as their ghost views say (assumed contracts); IncludeId obeys the key model',
                               'FS: R4 desugaring of the inner for-loop; a `;` plus ghost block is appended after the unit tail expression of the outer loop body'])

prop('C10', units=['li', 'lp'], level='proof',
     explanation=('Unit LI: Verus proves on the real text of crates/ide/src/line_index.rs, against assumed contracts of ropey::Rope written from its documentation, that '
                  'pos_to_line returns the number of line endings (exactly LF, CR not followed by LF, CRLF) that end at or before the offset, pos_to_col the UTF-16 length of the '
                  'text between the start of that line and the offset, line_col_to_pos the byte offset of the char at that UTF-16 column of that line, the line end (terminator '
                  'excluded) for a column past it and the end of the text for a line past the last one; no ropey precondition, subtraction or TextSize/u32 conversion can fail for '
                  'offsets inside a text < 4 GiB. The set of line breaks ropey recognises is a cargo-feature choice: it is read from the cargo metadata of the ropey artifact of '
                  'THIS build of /repo and the proofs need cr_lines without unicode_lines. Unit LP: the real lsp::to_proto::{position,range} and lsp::from_proto::position are '
                  'verified as their own crate against the real ide/async-lsp rlibs, using for LineIndex exactly the contract text LI proves; their postconditions are '
                  'is_position_of / is_offset_of, the reference notions of contracts/li/spec.rs (multi-byte and astral chars: u8w/u16w). The round trip '
                  '(offset -> position -> same offset, for char-boundary offsets not between CR and LF) and "a column past the end means the line end" are the proved lemmas '
                  'lemma_round_trip and lemma_past_end over these two postconditions.'),
     assumptions=['Verus/Z3/rustc sound; extraction faithful (round-trip audit)',
                  'ropey 1.6.1 Rope behaves as documented (17 assumed contracts in contracts/li/prelude.rs): from_str keeps the text; len_*; byte_to_char = char the byte belongs to; '
                  'byte_to_line / char_to_line = line endings before the index; char_to_utf16_cu; utf16_cu_to_char = char the code unit belongs to; line_to_char / line_to_byte incl. one-past-the-end; char; '
                  'each panics only outside its documented index range; line breaks per cargo feature (LF, CRLF always; CR with cr_lines; VT, FF, NEL, LS, PS with unicode_lines)',
                  'text-size: usize::from(TextSize) widens the u32; TextSize::try_from(usize) succeeds for values <= u32::MAX',
                  'lsp-types Position::new / Range::new are plain constructors',
                  'a text is smaller than 4 GiB (precondition of LineIndex::new; wf of every index)',
                  'LP assumes for LineIndex the contracts LI proves (same clause text, generated from contracts/li/shared.py); the identity li_view(index) == text it was built from crosses the unit border by name only',
                  'from_proto::range is outside the unit (TextRange::new asserts start <= end; a reversed range sent by a client panics: not a C10 matter, noted in DESIGN)',
                  'offsets that are not on a char boundary or lie between CR and LF, and columns inside a surrogate pair, are outside the property; for them only absence of panics is proved',
                  'R11: the parameters named like their function (position, range) are alpha-renamed in the verified text'])

prop('C09', units=['ls'], level='proof',
     bounded=[dict(test='c09_session', covers='the to_proto conversions of structured results (document symbols with children and selection ranges, folding ranges, document links, inlay hints): the bodies of to_proto::* are external_body in unit LS, which proves which line index each conversion is given; position / range arithmetic is proved in unit LP',
                   bound='one recorded session on the real server: root.td (CRLF, non-ASCII and astral characters in comments and strings, defset, foreach, defm) including inc.td (LF); documentSymbol, foldingRange, documentLink and inlayHint for both documents; every range compared with the span the analysis computes for that document, converted by an independent reference (line, UTF-16 column); 20 symbols with children, 9 folding ranges, 1 link, 6 hints')],
     explanation=('Unit LS (index provenance): Verus proves, on the real bodies of the handler closures of crates/lsp/src/server.rs (definition, references, document_symbol, inlay_hint, '
                  'document_link, folding_range and the closure that publishes diagnostics), that every conversion of an analysis result into LSP coordinates (to_proto::location / '
                  'document_symbol / inlay_hint / document_link / folding_range / diagnostic) is called with the LineIndex OF THE FILE THE RESULT LIES IN: ghost li_file(index) is fixed by '
                  'Analysis::line_index(file) and by from_proto::file / file_pos / file_range (assumed: they return the index of the requested document); a FileRange or Diagnostic carries its own '
                  'file, other results lie in the file the analysis was asked about (assumed, res_file). The closures are moved mechanically into free functions (R15) because the trait impl '
                  'returns boxed futures of spawned tasks; iterator plumbing (.into_iter().map(closure).collect()) is outlined (R14) with the precondition "every element satisfies the mapped '
                  'closure\'s precondition", and the mapped closure itself is moved out and verified. Together with C10 (the index maps offsets of its own text exactly) this gives: a location in '
                  'an included file is expressed in that file\'s coordinates. Not decided: that the analysis computed the right span (C05/C06/C17), hover and completion (no locations), '
                  'the async delivery (C08/C11).'),
     assumptions=['Verus/Z3/rustc sound; extraction faithful (round-trip audit); --no-trait-conflicts',
                  'R15: the handler closures do not capture anything but what the capture table lists (rustc checks: a free function cannot capture); the impl blocks `impl LanguageServer for Server` and `impl Server` are external as a whole',
                  'from_proto::file / file_pos / file_range return the line index of the document named in the request (their bodies: vfs lookup + Analysis::line_index(file_id); external_body here)',
                  'Analysis::document_symbol / inlay_hint / document_link / folding_range answer for the file (range) they were asked about; Analysis::diagnostics files every diagnostic under diagnostic.location.file (ide::handlers::diagnostics::exec uses entry(diagnostic.location.file))',
                  'std HashMap::into_iter / IntoIter::next yield pairs of the map; Vec::into_iter().map(f).collect() applies f to every element (R14 helpers, assumed)',
                  'the RwLock around the Vfs is never poisoned; sending the publishDiagnostics notification is outside the unit',
                  'to_proto::* conversions are external_body in this unit; position/range/location arithmetic is proved in unit LP (C10)'])

prop('C12', units=['ls'], level='proof', relevant=r'^unit::vfs::',
     bounded=[dict(test='c12_witness', covers='Server::set_file_content records the text of every didOpen/didChange as the document\'s open buffer (call site behind an RwLock write guard, outside the contracts)',
                   bound='one recorded session on the real server: open inc.td, change inc.td, open root.td (includes inc.td), change root.td, open unsaved.td (no file on disk), change root.td to include it; go-to-definition after each root event')],
     explanation=('Unit LS, file vfs.rs (partial): Verus proves on the real text that Vfs::set_open_document records exactly the editor\'s text as the document\'s open buffer '
                  '(open_docs == old.insert(path, text): a later change replaces an earlier one) and that <Vfs as FileSystem>::read_content - the function through which the analysis reads every '
                  'included file - returns the open buffer when the document has one and what fs::read_to_string yields otherwise. Because ide::file_system::resolve_include_file stores in the '
                  'database exactly what FileSystem::read_content returns, re-analysing never replaces an open document\'s text by its on-disk version. NOT decided by a contract: that '
                  'Server::set_file_content calls set_open_document for every didOpen/didChange (the Vfs sits behind an RwLock write guard, whose DerefMut Verus does not relate across calls); '
                  'the thorough tier replays the recorded session (findings/C12_witness.rs) against the real server for that. Documents are never un-opened (didClose is ignored by the server).'),
     assumptions=['Verus/Z3/rustc sound; extraction faithful (round-trip audit)',
                  'std::fs::read_to_string is a function of the path (disk_read), HashMap<FilePath, String> obeys vstd\'s key model (FilePath: derived Eq/Hash over PathBuf)',
                  'ide::file_system::resolve_include_file stores what FileSystem::read_content returns (file_system.rs: `fs.read_content(&candidate)` then `db.set_file_content(file_id, ..)`; not re-verified here)',
                  'the call of Vfs::set_open_document in Server::set_file_content is NOT covered by a contract (see explanation); Server::set_file_content itself is verified for absence of panics only, under "the lock is not poisoned"'])

prop('C13', units=['dg'], level='proof',
     bounded=[dict(test='c13_faults', covers='the semantic half of C13 (type checker spread over check_template_args, FieldDef/FieldLet, can_be_casted_to, bang_operator.rs): a whole-program judgement outside function contracts',
                   bound='a fixed corpus written from the property statement: 2 well-formed programs (one with an include) must be diagnostic-free; 27 single-fault programs (undefined class / multiclass / identifier - also as a later list element, after a bare $name in a dag, pasted onto a def name - / include, missing and surplus template argument, type-incompatible argument / initialiser / override, wrong operator arity, syntax error) and 1 fault in an included file must be diagnosed at the seeded site, in the seeded file only')],
     explanation=('Unit DG (the merge step only): Verus proves on the real text of ide::handlers::diagnostics::exec that the per-file map of diagnostics contains, for EVERY file of the workspace '
                  '(root or included), every syntax error of that file\'s parse, filed under that file with the error\'s range; every diagnostic of the indexer, filed under the file it lies in; '
                  'an entry (possibly empty) for every workspace file; and that every stored diagnostic sits under its own file (the grouping unit LS assumes when it converts them). The closure '
                  'that builds a syntax diagnostic is moved out and verified (file = the file whose parse is walked, range = the error\'s range). NOT decided (the larger part of C13): that a '
                  'well-formed program produces no diagnostic and that each semantic fault (undefined names, template-argument and type mismatches, operator arity) is diagnosed at the faulty site - '
                  'that is the type checker spread over the indexer (can_be_casted_to, check_template_args conditions, bang_operator.rs), a whole-program judgement outside function contracts.'),
     assumptions=['Verus/Z3/rustc sound; extraction faithful (round-trip audit); --no-trait-conflicts',
                  'the database answers are functions of the revision: source_root().iter_files() = ws_files, parse(f).errors() = syntax_errors(f), index().diagnostics() = index_diags (uninterpreted; two calls of iter_files yield the same sequence)',
                  'R14 helpers (assumed): Vec::extend over slice.iter().map(closure) appends closure(e) for every e in order; extend over iter().cloned() appends the slice; HashMap entry(k).or_insert_with(Vec::new) + push appends under k; iter_files() is collected into a Vec to be walked with a specified iterator',
                  'FileRange::new / Diagnostic::new are plain constructors; FileId obeys the HashMap key model'])

prop('C17', units=['syn', 'dg', 'idx', 'ut'], level='proof',
     relevant=r'(^unit::parse$|parser::ParserBase::|parser::Parser::finish|diagnostics::|IndexCtx::error$|IndexCtx::push_file$|IndexCtx::pop_file$|Include::index|SourceFile::index|utils::identifier$|utils::range_excluding_trivia$)',
     explanation=('Partial, along the three mechanisms the property is anchored in. (1) Ranges of syntax diagnostics, end to end: unit SYN proves that every SyntaxError parse() returns has a '
                  'range inside the text on char boundaries with start <= end (ParserBase::error records current_range, proved to lie on token boundaries; every ParserBase method that can touch the error list carries the clause that the recorded errors stay well-formed); unit DG proves that the diagnostic '
                  'built from it carries exactly that range and the file whose parse produced it. (2) Pairing with the file on top of the include stack: unit IDX proves that IndexCtx::error '
                  'records the given range with file_trace.last(), keeping earlier diagnostics, and that utils::identifier returns the identifier token\'s own text and range paired with that file '
                  '(the source of every define_loc / reference_loc), and that the include stack obeys its discipline - push_file puts an entered file on top and leaves the stack alone otherwise, pop_file removes the top, and every Indexable::index impl (Include::index above all) returns with the stack it was given - so that the top of the stack is the file whose tree is being walked. (3) Trimming of trailing trivia: unit UT proves that utils::range_excluding_trivia returns [node start, end of the node\'s last '
                  'non-trivia token], start <= end, inside the node, over an assumed model of rowan\'s token sequence, when the node contains a non-trivia token (true at both call sites: statement '
                  'nodes start with their keyword, an include path is a string token; assumed). NOT decided: that ranges read off rowan nodes (text_range()) lie in the text - that is rowan\'s '
                  'offset arithmetic over the tree whose text C01 proves equal to the input; that the node handed to a conversion belongs to the tree of the file on top of the include stack '
                  '(argued from Include::index: push_file(f) precedes indexing parse(f)); ranges assembled in the handlers (document symbols, hints, links) by rowan navigation.'),
     assumptions=['as C02 (unit SYN), C13 (unit DG), C05/C03 (unit IDX) for the shared parts',
                  'UT: rowan token API model (tokens of a file in source order; a node covers a contiguous run; last_token / prev_token walk the file sequence; node range spans its run); SyntaxKind::is_trivia is a function of the kind',
                  'UT: the node passed to range_excluding_trivia contains a non-trivia token (tree-shape fact of the parser, assumed at the call sites in folding_range.rs and document_link.rs)',
                  'rowan computes node and token ranges from the lengths of the token texts it was given (not re-verified)'])

prop('C18', units=['fr', 'ut'], level='proof',
     bounded=[dict(test='c18_symbols', covers='the document-symbol half of C18 (symbol_to_document_symbol / per-file symbol lists: iterator chains over the symbol map, outside the contracts)',
                   bound='a fixed corpus written from the property statement: 6 workspaces (template arguments and fields as children, also of a multiclass; defs declared inside let, if / else and foreach blocks; an anonymous def is not listed; overridden field, defset with its defs as children and their own field children, redeclared name, a file and its include) whose outlines - kinds, names, text at the ranges, order, nesting - are compared with the expected ones')],
     explanation=('Partial: the folding-range half. Unit FR moves the filter closure of ide::handlers::folding_range::exec into a function and proves that it answers Some exactly for class, def, defset, '
                  'foreach, if, let and multiclass statement nodes (the list of the property) and that the range is [first token of the statement, end of its last non-trivia token] - the latter through '
                  'the contract of utils::range_excluding_trivia, which unit UT proves on the real code over an assumed model of rowan\'s token sequence. One range per such descendant, in document '
                  'order, is the assumed semantics of rowan descendants() + filter_map/map/collect (outlined, R14); "pairwise nested or disjoint" then follows from the tree structure (rowan, assumed). '
                  'NOT decided: the document-symbol half (outline of classes / defs / defsets / multiclasses with their children) - iterator chains over the symbol map held in locals of adapter types, '
                  'outside what the rewrites can outline mechanically.'),
     assumptions=['Verus/Z3/rustc sound; extraction faithful (round-trip audit)',
                  'rowan token API model of unit UT; a statement node starts with its keyword token (tree shape of the parser)',
                  'FR assumes for utils::range_excluding_trivia the clauses UT proves (same predicates has_token / is_trimmed_range)',
                  'descendants().filter_map(f).map(g).collect() yields g(r) for every descendant n with f(n) == Some(r), in document order (R14 helper)',
                  'nodes of a rowan tree are nested or disjoint'])

prop('C19', units=['ih', 'hv'], level='proof',
     bounded=[dict(test='c19_hints', covers='the hover signature, which declaration is found at the position, and the label and placement clauses of C19 (hover::exec / extract_symbol_signature / the rowan navigation at the head of extract_doc_comments, inlay_hint_class, inlay_hint_record_field: rowan navigation and format!, outside the contracts)',
                   bound='a fixed corpus written from the property statement: 5 workspaces; hover at 9 use sites (class with two contiguous // lines below a blank-line-separated comment, overridden field, template argument, undocumented class, def, defvar, defset used as a value, multiclass, inherited field) compared with the expected signature and doc text and with the go-to-definition target; hover on a class of an included file; the full hint list (7 hints: positional arguments of a parent-class reference spread over two lines and of a class value, two field overrides) compared by position, label and kind; a class named as a type inside an argument gets no hint of its own')],
     explanation=('Partial: the range clause of the hints and the doc-comment rule of hover. Unit HV: Verus proves on the real text of ide::handlers::hover::extract_doc_comments that the text it returns is exactly '
                  'the contiguous `//` comment lines directly above the first token of the declaration, top to bottom, joined by line feeds (reference: doc_lines, written from the statement: a line counts while the token above is a blank with exactly one line feed '
                  'preceded by a line comment starting with `//`), and that None is returned only when that text is empty; the walk is a loop invariant over the assumed token-sequence model of rowan (prev_token). The same unit proves for hover::exec that the tree handed to it is the parse of the file the declaration lies in, at the declaration\'s range (ghost functions tree_of(db, file) and sig_loc(symbol map, position); db.parse / Parse::syntax_node / db.index / Index::symbol_map assumed to be functions of the revision), so the doc text shown is doc_lines of that file. Unit IH: Verus proves on the real text of ide::handlers::inlay_hint::exec that every hint it returns has its position inside the requested range: '
                  'the filter closure of the final hints.retain(..) is moved into a function and proved to answer start <= position <= end, and Vec::retain is assumed to keep exactly the '
                  'elements for which it answers true. What the gathering loop produces (rowan navigation, format!) is not constrained. NOT proved: the hover signature, which declaration extract_symbol_signature and the navigation reach, that '
                  'each positional template argument is labelled with the parameter it binds, that a field override is labelled with the declared type, and the placement of the hints - these are covered only by a BOUNDED stand-in (fixed corpus, not counted as proved).'),
     assumptions=['Verus/Z3/rustc sound; extraction faithful (round-trip audit)',
                  'TextRange::contains_inclusive(o) is start <= o <= end (text-size); Vec::retain keeps exactly the elements for which the closure answers true (R14 helper)',
                  'the loop that gathers the hints is outlined (R14) with no contract: nothing about its result is used',
                  'unit HV: rowan token model (tokens of a file form one sequence, prev_token steps back by one, kind() is the recorded kind); R14 helpers with ASSUMED contracts: o_decl_first_token (navigation to the declaration\'s first token, result = decl_first, unconstrained), o_newline_count (line feeds of the token text), o_doc_line (Some(text without leading slashes and blanks) iff the text starts with //), o_join_reversed (reverse + join by line feeds); derived PartialEq on SyntaxKind is structural; extract_symbol_signature is external_body (its location result is named sig_loc, nothing else is assumed of it); the database answers (parse, index) are functions of the revision'])
