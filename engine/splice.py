"""Mechanical extraction of /repo source files into one Verus file.

The generated text is built as a list of *pieces*:

  ('src', file, start, end)          bytes copied verbatim from the repo file
  ('ins', text, meta)                text inserted by the engine (contracts, prelude, glue)
  ('del', file, start, end, rule)    bytes of the repo file that were dropped (rule = R1..R11)

For every repo file the 'src' and 'del' pieces, ordered by start, tile the file exactly:
that is the round-trip audit (`audit`).  Every inserted contract clause carries a marker
comment `/*@<id>*/` so that a Verus diagnostic can be traced back to the clause.
"""
import json
import os
import re
import subprocess

ANCHORS_BIN = '/verif/.cache/tools-target/release/anchors'


class ExtractError(Exception):
    """The machinery (not the code under verification) failed: -> UNDECIDED, exit 2."""


def run_anchors(paths):
    if not os.path.exists(ANCHORS_BIN):
        raise ExtractError('anchors tool not built (run /verif/bin/setup)')
    p = subprocess.run([ANCHORS_BIN] + paths, capture_output=True, text=True)
    if p.returncode != 0:
        raise ExtractError('source does not parse: ' + p.stderr.strip())
    return json.loads(p.stdout)


class Clause:
    """One contract clause. tags = property ids it carries; finding/carve: see known findings."""

    def __init__(self, text, tags=None, finding=None, carve=None, name=None):
        self.text = text.strip()
        self.tags = set(tags.split()) if isinstance(tags, str) else (set(tags) if tags else None)
        self.finding = finding
        self.carve = carve
        self.name = name


def C(text, tags=None, **kw):
    return Clause(text, tags, **kw)


def _cl(x):
    if isinstance(x, Clause):
        return x
    if isinstance(x, tuple):
        return Clause(x[0], x[1])
    return Clause(x)


class FnContract:
    def __init__(self, file, path, requires=(), ensures=(), decreases=None, loops=None,
                 closures=None, prologue=None, attrs=(), tags=None, ret='ret', drop=False,
                 rename=None, body_proofs=None, no_ret=False, via=None, epilogue=None, outline=None, lift=None):
        self.file = file
        self.path = path
        self.requires = [_cl(c) for c in requires]
        self.ensures = [_cl(c) for c in ensures]
        self.decreases = decreases
        # loops: {ordinal: dict(invariant=[...], decreases=str, ensures=[...], attrs=[...])}
        self.loops = loops or {}
        # closures: {ordinal: dict(params='p: &mut Parser', requires=[...], ensures=[...])}
        self.closures = closures or {}
        self.prologue = prologue
        self.tagged_prologue = []   # (ghost text, tags, name): pieces that belong to one property's layer, each on its own line with a marker
        self.attrs = list(attrs)
        self.tags = set(tags.split()) if isinstance(tags, str) else (set(tags) if tags else None)
        self.ret = ret
        self.drop = drop
        self.rename = rename or {}
        # body_proofs: list of (regex on the source text of the fn body, text inserted BEFORE the match)
        self.body_proofs = body_proofs or []
        self.no_ret = no_ret
        # R14 outline: list of dict(rx=regex on the body text, name=helper name, sig='(params) -> Ret' (may start with <generics>),
        #   call=replacement expression, ensures=[clause text], why=reason)
        self.outline = outline or []
        # R15 lift: list of dict(closure=ordinal, name=, sig='(params) -> (ret: T)', replace='expression left at the site',
        #   requires=[..], ensures=[..], outline=[R14 specs applied inside the lifted body], attrs=[..])
        self.lift = lift or []
        self.epilogue = epilogue   # ghost text inserted before the closing brace of a body that ends in a statement
        self.used = False


def _subst_names(obj, sub, skip=('tags', 'finding', 'name', 'file', 'path', 'attrs', 'ret', 'used', 'drop', 'no_ret', 'optional', 'closure', 'kind')):
    """copy of a contract object with `sub` applied to every piece of contract text (strings inside lists / tuples / dicts / Clause /
    FnContract), leaving tags, names and ids alone"""
    if isinstance(obj, str):
        return sub(obj)
    if isinstance(obj, list):
        return [_subst_names(x, sub, skip) for x in obj]
    if isinstance(obj, tuple):
        return tuple(_subst_names(x, sub, skip) for x in obj)
    if isinstance(obj, dict):
        return {k: (v if k in skip else _subst_names(v, sub, skip)) for k, v in obj.items()}
    if isinstance(obj, (Clause, FnContract)):
        import copy
        o2 = copy.copy(obj)
        for k, v in list(vars(obj).items()):
            if k not in skip:
                setattr(o2, k, _subst_names(v, sub, skip))
        return o2
    return obj


def renamed_locals(old_names, new_names):
    """positional comparison of the binder lists of a function (baseline vs working tree): {old: new} when the lists have the same length
    and differ only by a consistent renaming; else None"""
    if old_names is None or len(old_names) != len(new_names) or old_names == new_names:
        return None
    m = {}
    for o, n in zip(old_names, new_names):
        if m.get(o, n) != n:
            return None
        m[o] = n
    inv = {}
    for o, n in m.items():
        if inv.get(n, o) != o:
            return None
        inv[n] = o
    return {o: n for o, n in m.items() if o != n} or None


class UnitSpec:
    def __init__(self, name, crate_root, root_file, default_tags):
        self.name = name
        self.crate_root = crate_root
        self.root_file = root_file
        self.default_tags = set(default_tags.split())
        self.fns = {}          # (file, path) -> FnContract
        self.block_inserts = []  # (file, kind, name, text)  inserted after the open brace
        self.appendix = {}     # file -> text appended at the end of the module
        self.header = {}       # file -> text inserted at the start of the module
        self.drop_items = []   # (file, kind, name-regex, rule, why)
        self.item_attrs = []   # (file, kind, name-regex, attr text)
        self.exclude_mods = set()   # module names (mod x;) left out of the unit
        self.prelude_files = []
        self.top_files = []    # text placed outside verus!{} (e.g. nothing)
        self.theorems = []     # names of proof fns that are property theorems: (name, tags)
        self.macro_replacements = {}  # macro path -> replacement expr (R5)
        self.delete_stmt_macros = set()  # macro paths whose statement invocations are deleted (R5)
        self.fn_tag_rules = []  # (regex on "file:path", tags) default tags for uncontracted fns
        self.extra_files = []   # (path relative to crate_root, module name): extra modules at crate root
        self.generators = []    # callables(splicer) run once the anchors are loaded; may add appendix text
        self.hoist_nested_consts = False  # R10: fn-local const items are hoisted in front of their fn
        self.reveal_strlits = False  # auto-insert reveal_strlit("..") for string literals (R8)
        self.scope_listed = False  # True: functions without an entry get #[verifier::external]
        self.external_impls = set()   # impl names (anchors tool spelling) that are marked #[verifier::external] as a whole; closures of their methods can be lifted (R15)
        self.extra_uses = 'use vstd::prelude::*;\n#[allow(unused_imports)] use crate::prelude::*;\n'

    def fn(self, file, path, **kw):
        k = (file, path)
        if k in self.fns:
            raise ExtractError('duplicate contract entry %s %s' % k)
        self.fns[k] = FnContract(file, path, **kw)
        return self.fns[k]

    def insert_in(self, file, kind, name, text):
        self.block_inserts.append((file, kind, name, text))

    def append(self, file, text):
        self.appendix[file] = self.appendix.get(file, '') + '\n' + text + '\n'

    def prepend(self, file, text):
        self.header[file] = self.header.get(file, '') + text + '\n'

    def drop_item(self, file, kind, name_re, rule, why):
        self.drop_items.append((file, kind, name_re, rule, why))

    def item_attr(self, file, kind, name_re, attr):
        self.item_attrs.append((file, kind, name_re, attr))


class Generated:
    def __init__(self):
        self.pieces = []
        self.text = ''
        self.markers = {}     # marker id -> dict(kind, fn, file, idx, tags, line)
        self.line_marker = {}  # gen line -> [marker ids]
        self.src_map = []     # (gen_start, gen_end, file, src_start)
        self.fn_ranges = []   # (gen_start, gen_end, file, path)
        self.rewrites = {}    # rule -> count
        self.functions = []   # dict(file, path, contracted, external_body, tags, nclauses, line)
        self.clause_counts = {'requires': 0, 'ensures': 0, 'invariant': 0, 'decreases': 0}
        self.panic_sites = 0
        self.dropped = []
        self.files = {}       # file -> source bytes
        self.inserted = {}    # name of an inserted (generated) fn -> dict(tags, finding, desc)
        self.lost = []        # (description, tags): anchors of contract text that no longer exist in the source
        self.incomplete = {}  # fnkey -> [reasons]: functions whose proof text is structurally incomplete on this tree
        self.incomplete_tags = {}  # fnkey -> None (every property) | set of property ids the incompleteness concerns
        self.inlined = []     # R17: 'helper fnkey -> caller fnkey' for every inlined call of a helper the contracts do not know

    def count(self, rule, n=1):
        self.rewrites[rule] = self.rewrites.get(rule, 0) + n



def captured_names(table, text):
    """names of the capture table that occur free in `text`: mentioned, and not bound there by a `let` or as a closure parameter"""
    out = []
    for (n, t, a) in table:
        if not re.search(r'(?<![A-Za-z0-9_.])' + re.escape(n) + r'(?![A-Za-z0-9_])', text):
            continue
        if re.search(r'\blet\s+(mut\s+)?(\(?[^=;]*\b)?' + re.escape(n) + r'\b[^=;]*=', text):
            continue
        out.append((n, t, a))
    return out

class Splicer:
    def __init__(self, unit, variant_carve=None, mutate=None):
        """variant_carve: set of finding ids whose clauses are replaced by their carve-out.
        mutate: optional (file, old_text, new_text[, nth]) applied to the in-memory copy of
        a source file (kill-matrix self test); never touches /repo."""
        self.u = unit
        self.g = Generated()
        self.carve = variant_carve or set()
        self.mutate = mutate
        self.mid = 0
        self.src = {}
        self.anch = {}
        self.tmpdir = None
        self.lifts = {}
        # the functions (and their loop counts) the contracts of this unit were written against: 'file:path' -> {'loops': n}.
        # A function that is not listed is NEW on this tree (R17 / incompleteness rules); no baseline file = rules off.
        self.baseline = None
        bp = os.path.join('/verif/contracts', getattr(unit, 'name', '') or '', 'baseline.json')
        if getattr(unit, 'name', None) and os.path.exists(bp) and not getattr(unit, 'no_baseline', False):
            self.baseline = json.load(open(bp))
        self.newfns = {}      # file -> {(qual, name): (record, simple)}
        self.new_names = set()  # names of all functions of the unit that the contracts do not know

    # ------------------------------------------------------------ source loading
    def module_file(self, parent_file, modname):
        name = modname[2:] if modname.startswith('r#') else modname
        pdir = os.path.dirname(parent_file)
        pbase = os.path.basename(parent_file)[:-3]
        cands = []
        if pbase in ('lib', 'main', 'mod'):
            cands = [os.path.join(pdir, name + '.rs'), os.path.join(pdir, name, 'mod.rs')]
        else:
            cands = [os.path.join(pdir, pbase, name + '.rs'), os.path.join(pdir, pbase, name, 'mod.rs')]
        for c in cands:
            if os.path.exists(os.path.join(self.u.crate_root, c)):
                return os.path.normpath(c)
        return None

    def load(self, files):
        paths = []
        for f in files:
            full = os.path.join(self.u.crate_root, f)
            data = open(full, 'rb').read()
            if self.mutate and self.mutate[0] == f:
                old, new = self.mutate[1].encode(), self.mutate[2].encode()
                nth = self.mutate[3] if len(self.mutate) > 3 else 0
                idx = -1
                for _ in range(nth + 1):
                    idx = data.find(old, idx + 1)
                    if idx < 0:
                        raise ExtractError('mutant anchor not found in %s: %r' % (f, self.mutate[1]))
                data = data[:idx] + new + data[idx + len(old):]
            self.src[f] = data
            self.g.files[f] = data
        # anchors tool reads from disk; for mutated copies write a temp file
        tmp_paths = {}
        for f in files:
            full = os.path.join(self.u.crate_root, f)
            if self.mutate and self.mutate[0] == f:
                import tempfile
                self.tmpdir = self.tmpdir or tempfile.mkdtemp(prefix='verif-mut-', dir='/verif/.cache')
                tp = os.path.join(self.tmpdir, f.replace('/', '__'))
                open(tp, 'wb').write(self.src[f])
                tmp_paths[tp] = f
                paths.append(tp)
            else:
                tmp_paths[full] = f
                paths.append(full)
        res = run_anchors(paths)
        for p, recs in res.items():
            self.anch[tmp_paths[p]] = recs
        if self.tmpdir:
            import shutil
            shutil.rmtree(self.tmpdir, ignore_errors=True)
            self.tmpdir = None

    def discover(self):
        """Find all files of the unit starting at the root file (mod x; declarations)."""
        todo = ([self.u.root_file] if self.u.root_file else []) + [f for (f, _) in self.u.extra_files]
        seen = []
        while todo:
            f = todo.pop(0)
            if f in seen:
                continue
            seen.append(f)
            self.load([f])
            for r in self.anch[f]:
                if r['rec'] == 'item' and r['kind'] == 'mod' and not r.get('inline') and not r['cfg_test']:
                    if r['name'] in self.u.exclude_mods:
                        continue
                    mf = self.module_file(f, r['name'])
                    if mf is None:
                        raise ExtractError('module file for `mod %s;` in %s not found' % (r['name'], f))
                    todo.append(mf)
        return seen

    # ------------------------------------------------------------ helpers
    def marker(self, kind, fn, file, idx, tags, clause=None):
        self.mid += 1
        m = 'm%d' % self.mid
        self.g.markers[m] = dict(kind=kind, fn=fn, file=file, idx=idx, tags=sorted(tags),
                                 text=(clause.text if clause else None),
                                 finding=(clause.finding if clause else None),
                                 name=(clause.name if clause else None))
        return m

    def clause_text(self, c):
        if c.finding and c.finding in self.carve and c.carve is not None:
            return c.carve
        return c.text

    def fmt_clauses(self, kw, clauses, kind, fnkey, file, tags, indent):
        if not clauses:
            return ''
        out = indent + kw + '\n'
        for i, c in enumerate(clauses):
            t = c.tags if c.tags is not None else tags
            m = self.marker(kind, fnkey, file, i, t, c)
            txt = self.clause_text(c)
            if txt == '':
                continue
            out += indent + '    ' + ' '.join(txt.split('\n')) + ', /*@' + m + '*/\n'
            self.g.clause_counts[kind if kind in self.g.clause_counts else 'ensures'] += 1
        return out

    # ------------------------------------------------------------ per file
    def process_file(self, f):
        """returns list of pieces for file f (recursively inlining its `mod x;` children)"""
        data = self.src[f]
        recs = self.anch[f]
        edits = []  # (start, end, pieces_or_text, rule)  replace data[start:end]

        def ins(pos, text, meta=None):
            edits.append((pos, pos, [('ins', text, meta)], None))

        def dele(s, e, rule, repl=None):
            edits.append((s, e, [('ins', repl, {'rule': rule})] if repl else [], rule))
            self.g.count(rule)

        hoisted = []
        for r in recs:
            if r['rec'] != 'item':
                continue
            s, e = r['span']
            if r['cfg_test'] and r['mods'] == '' and r['depth'] == 0:
                # eat trailing newline for tidiness is NOT done: keep byte accounting simple
                dele(s, e, 'R1')
                continue
            if r['cfg_test']:
                continue
            if r['kind'] == 'macro' and r['macro_export']:
                hoisted.append(data[s:e].decode())
                dele(s, e, 'R10')
                continue
            if r['kind'] == 'mod' and not r.get('inline'):
                if r['name'] in self.u.exclude_mods:
                    dele(s, e, 'R10', '/* mod %s: not part of this unit */' % r['name'])
                    self.g.dropped.append('%s: mod %s (module outside the unit)' % (f, r['name']))
                    continue
                mf = self.module_file(f, r['name'])
                decl = data[s:e].decode()
                head = decl[:decl.rindex(';')]
                sub = self.process_file(mf)
                pieces = [('ins', head + ' {\n' + self.u.extra_uses + self.u.header.get(mf, ''), {'glue': 'mod open ' + mf})]
                pieces += sub
                pieces += [('ins', self.u.appendix.get(mf, '') + '\n}', {'glue': 'mod close ' + mf})]
                edits.append((s, e, [('del', f, s, e, 'R10')] + pieces, 'R10'))
                self.g.count('R10')
                continue
            for (df, kind, name_re, rule, why) in self.u.drop_items:
                if df == f and kind == r['kind'] and re.fullmatch(name_re, r['name'], re.S):
                    dele(s, e, rule)
                    self.g.dropped.append('%s: %s %s (%s)' % (f, kind, r['name'], why))
                    break
            else:
                for (af, kind, name_re, attr) in self.u.item_attrs:
                    if af == f and kind == r['kind'] and re.fullmatch(name_re, r['name']):
                        ins(s, attr + '\n')
                if r['kind'] == 'mod' and r.get('inline') and 'brace' in r:
                    ins(r['brace'][0] + 1, '\n' + self.u.extra_uses + getattr(self.u, 'inline_mod_uses', ''), {'glue': 'inline mod uses'})
                if r['kind'] in ('impl', 'trait', 'mod') and 'brace' in r:
                    for (bf, kind, name, text) in self.u.block_inserts:
                        if bf == f and kind == r['kind'] and name == r['name']:
                            ins(r['brace'][0] + 1, '\n' + text + '\n', {'glue': 'block insert %s %s' % (kind, name)})

        dropped_spans = [(e[0], e[1]) for e in edits if e[3] in ('R1', 'R9', 'R10') and e[1] > e[0]]

        def in_dropped(s):
            return any(a <= s < b for a, b in dropped_spans)

        if f not in self.newfns:
            self.find_new_fns(f)
        for r in recs:
            if r['rec'] != 'fn' or r['cfg_test']:
                continue
            if in_dropped(r['item'][0]):
                continue
            self.process_fn(f, r, data, ins, dele)

        self.hoisted = getattr(self, 'hoisted', []) + hoisted
        # assemble pieces
        edits.sort(key=lambda x: (x[0], x[1]))
        pieces = []
        pos = 0
        for (s, e, repl, rule) in edits:
            if s < pos:
                raise ExtractError('overlapping edits in %s at byte %d (rule %s)' % (f, s, rule))
            if s > pos:
                pieces.append(('src', f, pos, s))
            has_del = any(p[0] == 'del' for p in repl)
            if e > s and not has_del:
                pieces.append(('del', f, s, e, rule))
            pieces += repl
            pos = e
        if pos < len(data):
            pieces.append(('src', f, pos, len(data)))
        if getattr(self, 'lifts', {}).get(f):
            pieces = self.apply_lifts(f, pieces)
        return pieces

    def find_new_fns(self, f):
        """functions of file f that the contracts of this unit do not know (not in the baseline, no contract)"""
        self.newfns[f] = {}
        if self.baseline is None:
            return
        for r in self.anch[f]:
            if r['rec'] != 'fn' or r['cfg_test']:
                continue
            if '%s:%s' % (f, r['path']) in self.baseline or (f, r['path']) in self.u.fns:
                continue
            # SIMPLE (R17 can inline its calls): straight-line body without return / ? / loops / nested fns / generics, not a
            # trait-impl method, not self-recursive, no by-value self
            simple = bool(r['body']) and r.get('returns', 1) == 0 and r.get('tries', 1) == 0 and not r['loops'] and r['nested_fns'] == 0 \
                and not r.get('generic', True) and ' for ' not in r['qual'] \
                and not any(p.get('recv') == 'self' for p in r['params']) and not any(c['name'] == r['name'] for c in r.get('calls', [])) \
                and all('recv' in p or 'ty' in p for p in r['params'])
            k = (r['qual'], r['name'])
            if k in self.newfns[f]:
                simple = False
            self.newfns[f][k] = (r, simple)
            self.new_names.add(r['name'])

    def process_fn(self, f, r, data, ins, dele):
        u = self.u
        key = (f, r['path'])
        fc = u.fns.get(key)
        fnkey = '%s:%s' % (f, r['path'])
        tags = set(u.default_tags)
        for (rx, t) in u.fn_tag_rules:
            if re.fullmatch(rx, fnkey):
                tags = set(t.split())
        if fc is not None:
            fc.used = True
            if fc.tags is not None:
                tags = fc.tags
            be = (self.baseline or {}).get(fnkey) or {}
            ren = renamed_locals(be.get('names'), [p.get('name') for p in r['params']] + [b['name'] for b in r['binders']])
            if ren:
                # R18: the function's parameters / locals were renamed (same binders, position by position): the contract text, which names
                # them, is renamed with them.  Not a change of the verified code - the contract follows the code.
                rx = re.compile(r'(?<![\w.])(%s)(?![\w(!])' % '|'.join(re.escape(o) for o in sorted(ren, key=len, reverse=True)))
                used = fc.used
                fc = _subst_names(fc, lambda t: rx.sub(lambda mm: ren[mm.group(1)], t))
                fc.used = used
                u.fns[key] = fc
                self.g.count('R18')
                self.g.renamed = getattr(self.g, 'renamed', []) + ['%s: %s' % (fnkey, ', '.join('%s -> %s' % kv for kv in sorted(ren.items())))]
        explicit = fc is not None and fc.tags is not None
        body_txt = data[r['body'][0]:r['body'][1]].decode() if r['body'] else ''
        self.g.panic_sites += len(re.findall(r'\b(assert!|assert_eq!|panic!|unreachable!|\.expect\(|\.unwrap\(\))', body_txt))
        info = dict(file=f, path=r['path'], contracted=fc is not None, external_body=False, external=False,
                    tags=sorted(tags), explicit_tags=explicit, line=data[:r['item'][0]].count(b'\n') + 1)
        self.g.functions.append(info)
        if fc is None and f in getattr(u, 'tables_only_files', ()):
            # a file of which the unit needs only the const tables: functions the contracts do not name are left out
            dele(r['item'][0], r['item'][1], 'R9')
            self.g.dropped.append('%s (function dropped: only the tables of this file belong to the unit)' % fnkey)
            info['dropped'] = True
            return
        nf = self.newfns.get(f, {}).get((r['qual'], r['name']))
        if nf is not None and nf[0] is r:
            if nf[1]:
                # R17: a simple helper the contracts do not know has no contract; every call of it inside a verified body is replaced
                # by its body, so the code it contributes IS verified, in context
                info['inlined_helper'] = True
                nm = r['name'].encode()
                occ = sum(len(re.findall(rb'\b' + re.escape(nm) + rb'\b', d)) for d in self.src.values())
                ncalls = sum(1 for recs2 in self.anch.values() for r2 in recs2 if r2['rec'] == 'fn' and not r2['cfg_test']
                             for c in r2.get('calls', []) if c['name'] == r['name'])
                if occ == ncalls + 1:
                    # every mention of the helper is a call recorded by the anchors tool: it is not verified on its own
                    ins(r['item'][0], '#[verifier::external]\n', {'rule': 'R17'})
                    info['external'] = True
                    self.fn_range_marks(f, r, ins, fnkey)
                    return
                # the helper is also mentioned elsewhere (e.g. passed as a function value): it stays in the unit under the empty contract,
                # and a failed obligation inside it, out of context, only says that it has no contract
                self.incomplete(fnkey, 'helper unknown to the contracts: verified where it is inlined into its callers (R17), not on its own')
            else:
                self.incomplete(fnkey, 'function unknown to the contracts (not in the baseline of this unit)')
        elif self.baseline is not None and fnkey in self.baseline and self.baseline[fnkey].get('loops') != len(r['loops']):
            self.incomplete(fnkey, 'the number of loops changed (%s -> %d): loop contracts are attached by position' % (self.baseline[fnkey].get('loops'), len(r['loops'])))
        in_ext_impl = any(r['path'].startswith(x + '::') for x in u.external_impls)
        if in_ext_impl:
            info['external'] = True
            if fc is not None:
                self.process_lifts(f, r, data, ins, dele, fc, fnkey, tags)
            return
        if fc is not None and fc.lift:
            self.process_lifts(f, r, data, ins, dele, fc, fnkey, tags)
        if fc is None:
            if u.scope_listed:
                ins(r['item'][0], '#[verifier::external]\n', {'rule': 'R9'})
                self.g.count('R9')
                info['external'] = True
            else:
                # uncontracted function in an all-scope file: verified with the empty contract
                self.rewrite_body(f, r, data, ins, dele, None)
            self.fn_range_marks(f, r, ins, fnkey)
            return
        if fc.drop:
            dele(r['item'][0], r['item'][1], 'R9')
            self.g.dropped.append('%s (function dropped: %s)' % (fnkey, fc.drop))
            info['dropped'] = True
            return
        if u.hoist_nested_consts:
            for cst in r.get('consts', []):
                txt = data[cst['span'][0]:cst['span'][1]].decode()
                ty = data[cst['ty'][0]:cst['ty'][1]].decode()
                ty2 = re.sub(r"&\s*str", "&'static str", ty)
                txt2 = 'pub ' + txt.replace(ty, ty2, 1)
                dele(cst['span'][0], cst['span'][1], 'R10', '/* const %s hoisted */' % cst['name'])
                ins(self.toplevel_start(f, r['item'][0]), txt2 + '\n', {'rule': 'R10'})
        for a in fc.attrs:
            ins(r['item'][0], '#[verifier::%s]\n' % a, {'rule': 'R9'})
            if a in ('external_body', 'external'):
                self.g.count('R9')
                info[a] = True
        # R11: a wildcard parameter `_: T` gets a name (Verus wants plain identifier patterns)
        for pi, prm in enumerate(r['params']):
            if prm.get('name') == '_' and 'pat' in prm and data[prm['pat'][0]:prm['pat'][1]] == b'_':
                dele(prm['pat'][0], prm['pat'][1], 'R11', '_p%d' % pi)
        # R6: visibility
        # R7: name the return value
        if r['out_ty'] and not fc.no_ret:
            ins(r['out_ty'][0], '(%s: ' % fc.ret, {'rule': 'R7'})
            ins(r['out_ty'][1], ')', {'rule': 'R7'})
            self.g.count('R7')
        indent = '        ' if r['qual'] else '    '
        spec = ''
        spec += self.fmt_clauses('requires', fc.requires, 'requires', fnkey, f, tags, indent)
        spec += self.fmt_clauses('ensures', fc.ensures, 'ensures', fnkey, f, tags, indent)
        if fc.decreases:
            m = self.marker('decreases', fnkey, f, 0, tags)
            spec += indent + 'decreases ' + fc.decreases + ', /*@' + m + '*/\n'
            self.g.clause_counts['decreases'] += 1
        info['nclauses'] = len(fc.requires) + len(fc.ensures) + (1 if fc.decreases else 0)
        if r['body']:
            if spec:
                ins(r['body'][0], '\n' + spec + indent[4:], {'contract': fnkey})
            pro = fc.prologue or ''
            if u.reveal_strlits and r.get('strlits'):
                lits = []
                for l in r['strlits']:
                    t = data[l['span'][0]:l['span'][1]].decode()
                    if t.startswith('"') and t not in lits:
                        lits.append(t)
                if lits:
                    pro = 'proof { ' + ' '.join('reveal_strlit(%s);' % t for t in lits) + ' } ' + pro
            for (ptext, ptags, pname) in getattr(fc, 'tagged_prologue', []):
                pm = self.marker('hint', fnkey, f, 0, set(ptags.split()), Clause(ptext, ptags, name=pname))
                pro += '\n' + indent + ptext + ' /*@' + pm + '*/'
            if pro and 'external_body' not in fc.attrs and 'external' not in fc.attrs:
                ins(r['body'][0] + 1, '\n' + indent + pro + '\n', {'rule': 'R8'})
                self.g.count('R8')
        else:
            if spec:
                ins(r['semi'][0], '\n' + spec.rstrip().rstrip(',') + '\n' + indent[4:], {'contract': fnkey})
        if r['body'] and fc.epilogue and 'external_body' not in fc.attrs:
            ins(r['body'][1] - 1, ' ' + fc.epilogue + ' ', {'rule': 'R8'})
            self.g.count('R8')
        if r['body'] and 'external_body' not in fc.attrs and 'external' not in fc.attrs:
            self.rewrite_body(f, r, data, ins, dele, fc)
        self.fn_range_marks(f, r, ins, fnkey)

    def lose(self, desc, tags, fn=None, scope='all'):
        """scope='all': the lost anchor carried a CONTRACT for a part of the function (loop, closure, lifted or outlined code): nothing
        in the function can be decided without it.  scope='tags': it carried ghost text of one property's argument (a proof hint, an
        inserted assertion): only that property's obligations in the function are affected."""
        self.g.lost.append((desc, sorted(tags)))
        if fn:
            self.incomplete(fn, 'lost anchor: ' + desc, tags=(sorted(tags) if scope == 'tags' else None))

    def incomplete(self, fnkey, why, tags=None):
        """the proof text of this function is structurally incomplete on this tree (a contract anchor vanished, it calls or is a
        function the contracts do not know, its loops changed): a failed obligation inside it means 'needs contract', not 'violation'"""
        self.g.incomplete.setdefault(fnkey, [])
        if why not in self.g.incomplete[fnkey]:
            self.g.incomplete[fnkey].append(why)
        # which properties the incompleteness concerns: None = all
        cur = self.g.incomplete_tags.get(fnkey, set())
        self.g.incomplete_tags[fnkey] = None if (tags is None or cur is None) else (set(cur) | set(tags))

    def toplevel_start(self, f, off):
        """start of the outermost item of file f that contains byte offset off"""
        best = off
        for it in self.anch[f]:
            if it['rec'] == 'item' and it['span'][0] <= off < it['span'][1] and it['span'][0] < best:
                best = it['span'][0]
        return best

    def process_lifts(self, f, r, data, ins, dele, fc, fnkey, tags):
        """R15: the body of a closure literal is MOVED into a new free function (parameters = the closure's parameters plus,
        explicitly, what it captured); the site keeps `replace` (the function's name, or a closure that calls it).  The moved
        bytes stay 'src' pieces, so diagnostics map back to the repository lines and the round-trip audit still tiles the file."""
        u = self.u
        for L in fc.lift:
            k = L['closure']
            if k >= len(r['closures']):
                if not L.get('optional'):
                    self.lose('%s has no closure #%d to lift' % (fnkey, k), tags, fn=fnkey)
                continue
            cl = r['closures'][k]
            lid = '%s#lift%d' % (fnkey, k)
            if L.get('captures'):
                # parameters for what the closure captures: those names of the table that occur in its body (mechanical)
                btxt0 = data[cl['body'][0]:cl['body'][1]].decode()
                used = captured_names(L['captures'], btxt0)
                L = dict(L)
                L['sig'] = L['sig'].replace('@CAPTURES@', ''.join('%s: %s, ' % (n, t) for (n, t, a) in used))
                L['replace'] = L['replace'].replace('@CAPTURES@', ''.join('%s, ' % a for (n, t, a) in used))
            ins(cl['span'][0], '', {'lift_open': lid})
            ins(cl['body'][0], '', {'lift_body_open': lid})
            # edits inside the moved body: the ordinary body rewriting (R4 loops, R5 macros, R8 hints), restricted to the closure body
            inside = lambda sp: cl['body'][0] <= sp[0] < cl['body'][1]
            r2 = dict(r)
            r2['body'] = cl['body']
            r2['loops'] = [lp for lp in r['loops'] if inside(lp['span'])]
            r2['closures'] = []
            r2['arms'] = [a for a in r['arms'] if inside(a['pat'])]
            r2['macros'] = [m for m in r['macros'] if inside(m['span'])]
            r2['and_thens'] = [a for a in r.get('and_thens', []) if inside(a['call'])]
            r2['strlits'] = [l for l in r.get('strlits', []) if inside(l['span'])]
            r2['path'] = r['path'] + '#lift%d' % k
            fc2 = FnContract(f, r2['path'], loops=L.get('loops'), body_proofs=[tuple(x) for x in L.get('body_proofs', [])], tags=tags, outline=L.get('header_outline'))
            self.rewrite_body(f, r2, data, ins, dele, fc2)
            btxt = data[cl['body'][0]:cl['body'][1]].decode()
            for oi, o in enumerate(L.get('outline', [])):
                ms = list(re.finditer(o['rx'], btxt, re.S))
                if len(ms) != 1:
                    self.lose('outlined expression %r in %s (%d matches)' % (o['rx'], lid, len(ms)), tags, fn=fnkey)
                    continue
                mm = ms[0]
                s0 = cl['body'][0] + len(btxt[:mm.start()].encode())
                e0 = cl['body'][0] + len(btxt[:mm.end()].encode())
                if o.get('captures'):
                    used = captured_names(o['captures'], mm.group(0))
                    o = dict(o)
                    o['sig'] = o['sig'].replace('@CAPTURES@', ''.join('%s: %s, ' % (n, t) for (n, t, a) in used))
                    o['call'] = o['call'].replace('@CAPTURES@', ''.join('%s, ' % a for (n, t, a) in used))
                    names = set(n for (n, t, a) in used)
                    o['requires'] = [c for c in o.get('requires', []) if not getattr(c, 'needs', None) or set(c.needs) <= names]
                # R14 as a move of pieces (so that a closure lifted out of the outlined expression is already replaced inside it)
                oid = '%s#outline%d' % (lid, oi)
                ins(s0, '', {'lift_open': oid})
                ins(s0, '', {'lift_body_open': oid})
                self.lifts.setdefault(f, []).append((oid, dict(o, kind='outline'), {'span': (s0, e0), 'body_is_block': False}, lid, tags))
                ins(e0, '', {'lift_body_close': oid})
                ins(e0, '', {'lift_close': oid})
            ins(cl['body'][1], '', {'lift_body_close': lid})
            ins(cl['span'][1], '', {'lift_close': lid})
            self.lifts.setdefault(f, []).append((lid, L, cl, fnkey, tags))
            self.g.functions.append(dict(file=f, path=r['path'] + '#lift%d' % k, contracted=True, external_body=False, external=False,
                                         tags=sorted(tags), explicit_tags=False, line=data[:cl['span'][0]].count(b'\n') + 1))

    def apply_lifts(self, f, pieces):
        indent = '        '
        tail = []
        for (lid, L, cl, fnkey, tags) in sorted(self.lifts.get(f, []), key=lambda x: -x[2]['span'][0]):
            def find(key):
                for i, p in enumerate(pieces):
                    if p[0] == 'ins' and p[2] and p[2].get(key) == lid:
                        return i
                raise ExtractError('R15: lost mark %s of %s' % (key, lid))
            io, ibo, ibc, ic = find('lift_open'), find('lift_body_open'), find('lift_body_close'), find('lift_close')
            if L.get('kind') == 'outline':
                body = pieces[ibo + 1:ibc]
                ens = (' ensures ' + ', '.join(L['ensures'])) if L.get('ensures') else ''
                req = self.fmt_clauses('requires', [_cl(c) for c in L.get('requires', [])], 'requires', lid, f, tags, indent) if L.get('requires') else ''
                head = '\n#[verifier::external_body] /* R14: outlined from %s (%s) */\nfn %s%s\n%s%s\n{ %s' % (fnkey, L.get('why', 'not encodable by Verus'), L['name'], L['sig'], req, ens, L.get('bind', ''))
                tail += [('ins', head, {'rule': 'R14'})] + body + [('ins', ' }\n', {'rule': 'R14'})]
                pieces = pieces[:io] + [('ins', L['call'], {'rule': 'R14'})] + pieces[ic + 1:]
                self.g.count('R14')
                self.g.dropped.append('%s: an expression of %s outlined into external_body helper %s (R14)' % (f, fnkey, L['name']))
                continue
            header = [('del', p[1], p[2], p[3], 'R15') if p[0] == 'src' else p for p in pieces[io + 1:ibo]]
            body = pieces[ibo + 1:ibc]
            spec = self.fmt_clauses('requires', [_cl(c) for c in L.get('requires', [])], 'requires', lid, f, tags, indent)
            spec += self.fmt_clauses('ensures', [_cl(c) for c in L.get('ensures', [])], 'ensures', lid, f, tags, indent)
            attrs = ''.join('#[verifier::%s] ' % a for a in L.get('attrs', []))
            head = '\n/* R15: body of closure #%d of %s, moved here */\n%sfn %s%s\n%s' % (L['closure'], fnkey, attrs, L['name'], L['sig'], spec)
            if not cl['body_is_block']:
                body = [('ins', '{ ', {'rule': 'R15'})] + body + [('ins', ' }', {'rule': 'R15'})]
            tail += [('ins', '', {'fn_start': lid}), ('ins', head, {'contract': lid})] + body + [('ins', '\n', {'fn_end': lid})]
            pieces = pieces[:io] + header + [('ins', L['replace'], {'rule': 'R15'})] + pieces[ic + 1:]
            self.g.count('R15')
            self.g.dropped.append('%s: closure #%d of %s: body moved into the verified function %s (R15); the site keeps `%s`' % (f, L['closure'], fnkey, L['name'], L['replace']))
        return pieces + tail

    def fn_range_marks(self, f, r, ins, fnkey):
        # zero-width marks used to compute the generated range of a function
        ins(r['item'][0], '', {'fn_start': fnkey})
        ins(r['item'][1], '', {'fn_end': fnkey})

    def emit_outline(self, f, fnkey, o, src_text):
        ens = (' ensures ' + ', '.join(o['ensures'])) if o.get('ensures') else ''
        body = src_text
        for (a, b) in o.get('subst', []):
            body = body.replace(a, b)   # e.g. `self` -> the helper's parameter name
        if o.get('wrap'):
            body = o['wrap'][0] + body + o['wrap'][1]   # e.g. the IntoIterator::into_iter(..) call that `for` makes implicitly
        helper = '\n#[verifier::external_body] /* R14: outlined from %s (%s) */\nfn %s%s%s\n{ %s%s }\n' % (fnkey, o.get('why', 'not encodable by Verus'), o['name'], o['sig'], ens, o.get('bind', ''), body)
        self.u.appendix[f] = self.u.appendix.get(f, '') + helper
        self.g.count('R14')
        self.g.dropped.append('%s: expression `%s` of %s outlined into external_body helper %s (R14)' % (f, src_text[:80], fnkey, o['name']))

    def rewrite_body(self, f, r, data, ins, dele, fc):
        u = self.u
        fnkey = '%s:%s' % (f, r['path'])
        tags = set(u.default_tags)
        if fc is not None and fc.tags is not None:
            tags = fc.tags
        indent = '            '
        # R17: calls of helpers the contracts do not know
        for c in r.get('calls', []):
            if c['form'] == 'method':
                # `x.h(..)` on a receiver other than self: not inlinable; if some function the contracts do not know has that name,
                # this body cannot be decided by the contracts
                if c['name'] in self.new_names:
                    self.incomplete(fnkey, 'calls a method named %s; a function of that name is unknown to the contracts' % c['name'])
                continue
            tgt = self.newfns.get(f, {}).get((r['qual'] if c['form'] != 'path' else '', c['name']))
            if not tgt:
                if c['name'] in self.new_names and not any((r['qual'] if c['form'] != 'path' else '', c['name']) in t for t in [self.newfns.get(f, {})]):
                    self.incomplete(fnkey, 'calls %s; a function of that name (in another file of the unit) is unknown to the contracts' % c['name'])
                continue
            hr, simple = tgt
            hkey = '%s:%s' % (f, hr['path'])
            recv = next((p for p in hr['params'] if 'recv' in p), None)
            params = [p for p in hr['params'] if 'recv' not in p]
            caller_recv = next((p.get('recv') for p in r['params'] if 'recv' in p), None)
            ok = simple and ((c['form'] == 'self_method') == (recv is not None)) and len(params) == len(c['args'])
            if ok and recv:
                ok = caller_recv in ('&mut self', '&self') and not (recv['recv'] == '&mut self' and caller_recv == '&self')
            s0, e0 = c['span']
            trailing = bool(c['args']) and b',' in data[c['args'][-1][1]:e0]
            if not ok or (len(params) == 1 and trailing):
                self.incomplete(fnkey, 'calls %s, which the contracts do not know%s' % (hkey, '' if not simple else ' (call form not inlinable)'))
                continue
            hbody = data[hr['body'][0] + 1:hr['body'][1] - 1].decode()
            if not params:
                dele(s0, e0, 'R17', '{ /* R17: body of %s */ %s }' % (hr['name'], hbody))
            else:
                pats = [data[p['pat'][0]:p['pat'][1]].decode() for p in params]
                tys = [data[p['ty'][0]:p['ty'][1]].decode() for p in params]
                asc = not any(re.search(r'\bimpl\b', t) for t in tys)
                if len(params) == 1:
                    head = '{ let %s%s = (' % (pats[0], (': ' + tys[0]) if asc else '')
                else:
                    head = '{ let (%s)%s = (' % (', '.join(pats), (': (%s)' % ', '.join(tys)) if asc else '')
                dele(s0, c['args'][0][0], 'R17', head)
                dele(c['args'][-1][1], e0, 'R17', '); /* R17: body of %s */ %s }' % (hr['name'], hbody))
            self.g.inlined.append('%s inlined into %s' % (hkey, fnkey))
        # loops
        for i, lp in enumerate(r['loops']):
            spec = (fc.loops.get(i) if fc else None)
            if spec is not None and lp['kind'] == 'loop' and lp.get('head_break'):
                # R16: `loop { if C { break; } REST }` is read as `while !(C) { REST }` (the same program; a loop contract written for
                # either form then applies to both)
                hb = lp['head_break']
                if 'let_pat' in hb:
                    # `loop { let PAT = EXPR else { break }; REST }` is read as `while let PAT = EXPR { REST }`
                    cond_txt = 'while let %s = %s' % (data[hb['let_pat'][0]:hb['let_pat'][1]].decode(), data[hb['let_expr'][0]:hb['let_expr'][1]].decode())
                else:
                    cond_txt = 'while !(%s)' % data[hb['cond'][0]:hb['cond'][1]].decode()
                dele(lp['kw'][0], lp['kw'][1], 'R16', cond_txt)
                dele(hb['stmt'][0], hb['stmt'][1], 'R16', '/* R16: guard moved into the loop condition */')
            if u.reveal_strlits:
                lits = []
                for l in r.get('strlits', []):
                    if lp['body'][0] <= l['span'][0] < lp['body'][1]:
                        t = data[l['span'][0]:l['span'][1]].decode()
                        if t.startswith('"') and t not in lits:
                            lits.append(t)
                if lits:
                    ins(lp['body'][0] + 1, ' proof { ' + ' '.join('reveal_strlit(%s);' % t for t in lits) + ' }', {'rule': 'R8'})
                    self.g.count('R8')
            if spec is None:
                if lp['kind'] == 'for' and getattr(u, 'desugar_for', False):
                    spec = {}
                else:
                    continue
            t = ''
            t += self.fmt_clauses('invariant_except_break', [_cl(c) for c in spec.get('invariant_except_break', [])], 'invariant', fnkey + '#loop%d' % i, f, tags, indent)
            t += self.fmt_clauses('invariant', [_cl(c) for c in spec.get('invariant', [])], 'invariant', fnkey + '#loop%d' % i, f, tags, indent)
            t += self.fmt_clauses('ensures', [_cl(c) for c in spec.get('ensures', [])], 'loop_ensures', fnkey + '#loop%d' % i, f, tags, indent)
            if spec.get('decreases'):
                m = self.marker('loop_decreases', fnkey + '#loop%d' % i, f, 0, tags)
                t += indent + 'decreases ' + spec['decreases'] + ', /*@' + m + '*/\n'
                self.g.clause_counts['decreases'] += 1
            for a in spec.get('attrs', []):
                ins(lp['span'][0], '#[verifier::%s] ' % a)
            if lp['kind'] == 'for' and getattr(u, 'desugar_for', False):
                # R4: `for PAT in EXPR BODY` -> `{ let mut it = IntoIterator::into_iter(EXPR); loop INV { let Some(PAT) = it.next() else { break; }; BODY' } }`
                pat = data[lp['pat'][0]:lp['pat'][1]].decode()
                expr = data[lp['expr'][0]:lp['expr'][1]].decode()
                for o in (getattr(fc, 'outline', []) if fc else []):
                    mo = re.fullmatch(o['rx'], expr.strip())
                    if mo:
                        # R14 inside the header of an R4-desugared loop: the whole iterated expression is outlined
                        self.emit_outline(f, fnkey, o, expr.strip())
                        expr = o['call']
                        o['_done'] = True
                itn = '__it%d' % i
                nodec = '' if spec.get('decreases') else '#[verifier::exec_allows_no_decreases_clause] '
                dele(lp['kw'][0], lp['body'][0], 'R4',
                     '{ let mut %s = IntoIterator::into_iter(%s); %s %sloop\n%s%s' % (itn, expr, spec.get('after_iter_init', ''), nodec, t, indent[4:]))
                ins(lp['body'][0] + 1, ' let Some(%s) = %s.next() else { break; };' % (pat, itn), {'rule': 'R4'})
                ins(lp['body'][1], ' }', {'rule': 'R4'})
            else:
                ins(lp['body'][0], '\n' + t + indent[4:], {'contract': fnkey + '#loop%d' % i})
            if spec.get('before_loop'):
                # ghost text placed right before the loop statement (declares the ghost variables its invariants use)
                ins(lp['span'][0], spec['before_loop'] + '\n' + indent, {'rule': 'R8'})
                self.g.count('R8')
            if spec.get('body_prologue'):
                ins(lp['body'][0] + 1, '\n' + indent + spec['body_prologue'] + '\n', {'rule': 'R8'})
                self.g.count('R8')
            if spec.get('after_loop'):
                # ghost assertions placed right after the loop (they see the invariant and the negated loop condition)
                txt_after = ''
                for (atext, atags, aname) in spec['after_loop']:
                    m = self.marker('assert', fnkey + '#loop%d' % i, f, 0, set(atags.split()), Clause(atext, atags, name=aname))
                    txt_after += ' proof { assert(%s); /*@%s*/ }' % (atext, m)
                ins(lp['span'][1], txt_after, {'rule': 'R8'})
                self.g.count('R8')
            if spec.get('after_loop_proof'):
                ins(lp['span'][1], ' ' + spec['after_loop_proof'], {'rule': 'R8'})
                self.g.count('R8')
            if spec.get('body_epilogue'):
                # ghost text before the closing brace of the loop body (a unit tail expression gets a `;` from the text itself)
                ins(lp['body'][1] - 1, ' ' + spec['body_epilogue'] + ' ', {'rule': 'R8'})
                self.g.count('R8')
            if spec.get('ghost_iter') and lp['kind'] == 'for' and not getattr(u, 'desugar_for', False):
                # Verus for-loop ghost iterator name: `for PAT in NAME: EXPR`
                ins(lp['expr'][0], spec['ghost_iter'] + ': ', {'rule': 'R8'})
                self.g.count('R8')
        if fc:
            for i in fc.loops:
                if i >= len(r['loops']) and not (fc.loops[i] or {}).get('optional'):
                    # (an `optional` loop contract only helps the proof: without the loop the function's own postcondition decides)
                    self.lose('%s has no loop #%d' % (fnkey, i), tags, fn=fnkey)
            for i in fc.closures:
                if i >= len(r['closures']):
                    self.lose('%s has no closure #%d' % (fnkey, i), tags, fn=fnkey)
        # closures
        for i, cl in enumerate(r['closures']):
            spec = (fc.closures.get(i) if fc else None)
            if spec is None:
                continue
            if spec.get('bind'):
                # R12: a closure literal passed as a call argument is bound to a local in a block that wraps
                # the call, so that ghost code can name it (closure construction has no side effects)
                if not cl.get('call'):
                    self.lose('closure #%d of %s is not a direct call argument' % (i, fnkey), tags, fn=fnkey)
                    continue
                name = spec['bind']
                params = spec.get('params') or data[cl['or1'][1]:cl['or2'][0]].decode()
                ret_ann = (' -> (%s)' % spec['ret']) if spec.get('ret') else ''
                t = self.fmt_clauses('requires', [_cl(c) for c in spec.get('requires', [])], 'requires', fnkey + '#closure%d' % i, f, tags, indent)
                t += self.fmt_clauses('ensures', [_cl(c) for c in spec.get('ensures', [])], 'ensures', fnkey + '#closure%d' % i, f, tags, indent)
                body = data[cl['body'][0]:cl['body'][1]].decode()
                if not cl['body_is_block']:
                    body = '{ ' + body + ' }'
                ctext = '|%s|%s\n%s%s%s' % (params, ret_ann, t, indent[4:], body)
                dele(cl['span'][0], cl['span'][1], 'R12', name)
                ins(cl['call'][0], '{ let %s = %s; let __r_%s = ' % (name, ctext, name), {'rule': 'R12'})
                ins(cl['call'][1], '; %s __r_%s }' % (spec.get('after_call', ''), name), {'rule': 'R12'})
                continue
            if 'params' in spec:
                s = cl['or1'][1]
                e = cl['or2'][0]
                dele(s, e, 'R8c', spec['params'])
            t = ''
            t += self.fmt_clauses('requires', [_cl(c) for c in spec.get('requires', [])], 'requires', fnkey + '#closure%d' % i, f, tags, indent)
            t += self.fmt_clauses('ensures', [_cl(c) for c in spec.get('ensures', [])], 'ensures', fnkey + '#closure%d' % i, f, tags, indent)
            if t:
                ret_ann = spec.get('ret')
                if ret_ann and not cl['has_output']:
                    ins(cl['or2'][1], ' -> (%s)' % ret_ann, {'rule': 'R8c'})
                if not cl['body_is_block']:
                    # an expression body gets braces so that the contract can precede it (R8c)
                    ins(cl['body'][0], '\n' + t + indent[4:] + '{ ', {'contract': fnkey + '#closure%d' % i})
                    ins(cl['body'][1], ' }', {'rule': 'R8c'})
                    self.g.count('R8c')
                else:
                    ins(cl['body'][0], '\n' + t + indent[4:], {'contract': fnkey + '#closure%d' % i})
        # R3: or-pattern + guard
        for arm in r['arms']:
            pat = data[arm['pat'][0]:arm['pat'][1]].decode()
            if re.search(r'\b[a-z_][a-z0-9_]*\b(?!\s*[!(\[:])', re.sub(r"T!\[[^\]]*\]|'.'", '', pat)) and not re.fullmatch(r'[\sA-Za-z0-9_:!\[\]#\'|(){}<>.,+\-=?;]*', pat):
                raise ExtractError('R3: or-pattern with bindings in %s' % fnkey)
            guard = data[arm['guard'][0]:arm['guard'][1]].decode()
            body = data[arm['body'][0]:arm['body'][1]].decode()
            cases = [data[c[0]:c[1]].decode() for c in arm['cases']]
            end = arm['comma'][1] if arm['comma'] else arm['body'][1]
            new = ''.join('%s %s => %s,\n                ' % (c, guard, body) for c in cases).rstrip()
            dele(arm['pat'][0], end, 'R3', new)
        # R13: `OPT.and_then(|x| BODY)` -> `(match OPT { Some(x) => BODY, None => None })` (the definition of Option::and_then;
        # needed because Verus does not accept closures that capture a `&mut`)
        if getattr(u, 'inline_and_then', False):
            ats = sorted(r.get('and_thens', []), key=lambda a: a['call'][0])
            last_end = -1
            for a in ats:
                if a['call'][0] < last_end:
                    continue   # nested inside an already rewritten call
                last_end = a['call'][1]
                recv = data[a['recv'][0]:a['recv'][1]].decode()
                prm = data[a['param'][0]:a['param'][1]].decode()
                body = data[a['body'][0]:a['body'][1]].decode()
                dele(a['call'][0], a['call'][1], 'R13', '(match %s { Some(%s) => %s, None => None })' % (recv, prm, body))
                # closures inside the rewritten span are gone from the verified text
                r['closures'] = [c for c in r['closures'] if not (a['call'][0] <= c['span'][0] < a['call'][1])]
        # R5: macros
        for m in r['macros']:
            if m['stmt'] and m['path'] in u.delete_stmt_macros:
                dele(m['span'][0], m['span'][1], 'R5', '/* %s!(..) deleted */' % m['path'])
            elif m['path'] in u.macro_replacements:
                dele(m['span'][0], m['span'][1], 'R5', u.macro_replacements[m['path']])
        # R8: proof hints at named sites
        if fc:
            b0, b1 = r['body']
            txt = data[b0:b1].decode()
            for bp in fc.body_proofs:
                rx, text = bp[0], bp[1]
                after = 'after' in bp[2:]
                ms = list(re.finditer(rx, txt))
                if not ms and 'optional' not in bp[2:]:
                    self.lose('proof-hint site %r in %s' % (rx, fnkey), tags, fn=fnkey, scope='tags')
                htags = [x[5:] for x in bp[2:] if isinstance(x, str) and x.startswith('tags=')]
                for mm in ms:
                    at = mm.end() if after else mm.start()
                    t2 = text
                    if htags:
                        # a hint that belongs to one property's layer: own line + marker, so that a failure inside it carries those tags
                        hm = self.marker('hint', fnkey, f, 0, set(htags[0].split()), Clause(text, htags[0], name='proof hint'))
                        t2 = '\n' + text + ' /*@' + hm + '*/\n'
                    ins(b0 + len(txt[:at].encode()), (' ' + t2) if after else (t2 + ' '), {'rule': 'R8'})
                    self.g.count('R8')
            # R14: an expression Verus cannot encode (iterator adapters, ...) is OUTLINED: the matched source text becomes the
            # body of a new #[verifier::external_body] helper (contract assumed, listed), the site becomes a call of it
            for oi, o in enumerate(getattr(fc, 'outline', [])):
                if o.get('_done'):
                    continue
                ms = list(re.finditer(o['rx'], txt, re.S))
                if len(ms) != 1:
                    if not (len(ms) == 0 and o.get('optional')):
                        self.lose('outlined expression %r in %s (%d matches)' % (o['rx'], fnkey, len(ms)), tags, fn=fnkey)
                    continue
                mm = ms[0]
                s0 = b0 + len(txt[:mm.start()].encode())
                e0 = b0 + len(txt[:mm.end()].encode())
                if o.get('captures'):
                    used = captured_names(o['captures'], mm.group(0))
                    o = dict(o)
                    o['sig'] = o['sig'].replace('@CAPTURES@', ''.join('%s: %s, ' % (n, t) for (n, t, a) in used))
                    o['call'] = o['call'].replace('@CAPTURES@', ''.join('%s, ' % a for (n, t, a) in used))
                if o.get('move'):
                    # R14 as a move of pieces (the outlined text may contain a closure that R15 lifts out of it)
                    oid = '%s#outline%d' % (fnkey, oi)
                    ins(s0, '', {'lift_open': oid})
                    ins(s0, '', {'lift_body_open': oid})
                    ins(e0, '', {'lift_body_close': oid})
                    ins(e0, '', {'lift_close': oid})
                    self.lifts.setdefault(f, []).append((oid, dict(o, kind='outline'), {'span': (s0, e0), 'body_is_block': False}, fnkey, tags))
                    continue
                dele(s0, e0, 'R14', o['call'])
                self.g.rewrites['R14'] = self.g.rewrites.get('R14', 0) - 1
                self.emit_outline(f, fnkey, o, mm.group(0))
            # R12 (arguments): a call whose arguments ghost code must name is rewritten to bind them to locals first, in evaluation order:
            #   f(a1, a2)  ->  { let x1 = a1; let x2 = a2; proof { .. x1 .. x2 .. } f(x1, x2) }
            for (rx, template, wtags, wname) in getattr(fc, 'rebind', []):
                ms = list(re.finditer(rx, txt))
                if len(ms) != 1:
                    self.lose('call %r in %s (%s; %d matches)' % (rx, fnkey, wname, len(ms)), set(wtags.split()), fn=fnkey, scope='tags')
                    continue
                mm = ms[0]
                m = self.marker('assert', fnkey, f, 0, set(wtags.split()), Clause(template, wtags, name=wname))
                t2 = template.replace('/*@*/', '/*@' + m + '*/')
                for gi, gv in enumerate(mm.groups(), 1):
                    t2 = t2.replace('{g%d}' % gi, gv or '')
                dele(b0 + len(txt[:mm.start()].encode()), b0 + len(txt[:mm.end()].encode()), 'R12', t2)
            for (rx, text, wtags, wname) in getattr(fc, 'wrap_exprs', []):
                ms = list(re.finditer(rx, txt))
                if not ms:
                    self.lose('expression %r in %s (%s)' % (rx, fnkey, wname), set(wtags.split()), fn=fnkey, scope='tags')
                for mm in ms:
                    m = self.marker('assert', fnkey, f, 0, set(wtags.split()), Clause(text, wtags, name=wname))
                    wtext = text
                    for gi, gv in enumerate(mm.groups(), 1):
                        wtext = wtext.replace('{g%d}' % gi, gv or '')   # the ghost text may name sub-expressions of the wrapped expression
                    ins(b0 + len(txt[:mm.start()].encode()), '{ ' + wtext + ' /*@' + m + '*/ ', {'rule': 'R8'})
                    ins(b0 + len(txt[:mm.end()].encode()), ' }', {'rule': 'R8'})
                    self.g.count('R8')
            # R11: alpha renaming of binders
            for old, new in fc.rename.items():
                n = 0
                # binders may also be parameters: cover the parameter list and the body
                p0 = r['ident'][1]
                regions = [(p0, data[p0:b0].decode()), (b0, txt)]
                for (base, rtxt) in regions:
                    for mm in re.finditer(r'(?<![A-Za-z0-9_#.])' + re.escape(old) + r'(?![A-Za-z0-9_!])', rtxt):
                        # skip path segments, calls of a function of the same name
                        pre = rtxt[:mm.start()].rstrip()
                        post = rtxt[mm.end():].lstrip()
                        if pre.endswith('::') or post.startswith('::') or post.startswith('('):
                            continue
                        s = base + len(rtxt[:mm.start()].encode())
                        dele(s, s + len(old.encode()), 'R11', new)
                        n += 1
                if n == 0:
                    self.lose('binder %s in %s' % (old, fnkey), tags, fn=fnkey, scope='tags')

    # ------------------------------------------------------------ assemble
    def build(self):
        u = self.u
        g = self.g
        self.hoisted = []
        self.discover()
        for gen_fn in u.generators:
            gen_fn(self)
        # (after the generators: a function that received an automatic contract - the uniform grammar contract of unit SYN - is known)
        for f0 in list(self.anch):
            self.find_new_fns(f0)
        root_pieces = self.process_file(u.root_file) if u.root_file else [('ins', getattr(u, 'root_text', ''), {'glue': 'synthetic root'})]
        for (xf, modname) in u.extra_files:
            sub = self.process_file(xf)
            root_pieces.append(('ins', '\npub mod %s {\n' % modname + u.extra_uses + u.header.get(xf, ''), {'glue': 'extra mod open ' + xf}))
            root_pieces += sub
            root_pieces.append(('ins', u.appendix.get(xf, '') + '\n}\n', {'glue': 'extra mod close ' + xf}))
        for k, v in u.fns.items():
            if not v.used:
                tg = set(v.tags) if v.tags is not None else set(u.default_tags)
                for c in v.requires + v.ensures:
                    if c.tags:
                        tg |= c.tags
                self.lose('contracted function %s:%s not found in the source' % k, tg)
        pieces = []
        pieces.append(('ins', ''.join('#![feature(%s)]\n' % ft for ft in getattr(u, 'features', [])) + '#![allow(unused_imports, unused_variables, dead_code, unused_mut, unused_braces, unused_parens, non_snake_case)]\n', {'glue': 'head'}))
        for h in self.hoisted:
            pieces.append(('ins', h + '\n', {'glue': 'hoisted macro (R10)'}))
        pieces.append(('ins', 'use vstd::prelude::*;\n', {'glue': 'head'}))
        for pf in u.prelude_files:
            pieces.append(('ins', open(pf).read() + '\n', {'glue': 'prelude ' + pf}))
        for dyn in getattr(u, 'dynamic_preludes', []):
            # prelude text computed from the build of /repo (e.g. the features a dependency was compiled with)
            pieces.append(('ins', dyn(getattr(self, 'build_info', {})) + '\n', {'glue': 'dynamic prelude'}))
        pieces.append(('ins', 'verus!{\n' + u.extra_uses + (u.header.get(u.root_file, '') if u.root_file else ''), {'glue': 'verus open'}))
        pieces += root_pieces
        pieces.append(('ins', (u.appendix.get(u.root_file, '') if u.root_file else '') + '\n} // verus!\nfn main(){}\n', {'glue': 'verus close'}))
        g.pieces = pieces
        out = []
        pos = 0
        fn_open = {}
        for p in pieces:
            if p[0] == 'src':
                b = self.src[p[1]][p[2]:p[3]]
                g.src_map.append((pos, pos + len(b), p[1], p[2]))
                out.append(b)
                pos += len(b)
            elif p[0] == 'ins':
                meta = p[2] or {}
                if 'fn_start' in meta:
                    fn_open[meta['fn_start']] = pos
                if 'fn_end' in meta:
                    k = meta['fn_end']
                    g.fn_ranges.append((fn_open.get(k, pos), pos, k))
                b = (p[1] or '').encode()
                out.append(b)
                pos += len(b)
        g.text = b''.join(out).decode()
        # marker lines
        for ln, line in enumerate(g.text.split('\n'), 1):
            for m in re.findall(r'/\*@(m\d+)\*/', line):
                g.markers[m]['line'] = ln
                g.line_marker.setdefault(ln, []).append(m)
        self.audit()
        return g

    def audit(self):
        """round trip: per repo file, the copied and the dropped byte ranges tile the file."""
        per = {}
        for p in self.g.pieces:
            if p[0] in ('src', 'del'):
                per.setdefault(p[1], []).append((p[2], p[3]))
        for f, data in self.src.items():
            segs = sorted(per.get(f, []))
            pos = 0
            for (s, e) in segs:
                if s != pos:
                    raise ExtractError('round-trip audit failed for %s at byte %d (expected %d)' % (f, s, pos))
                pos = e
            if pos != len(data):
                raise ExtractError('round-trip audit failed for %s: %d of %d bytes accounted' % (f, pos, len(data)))
        # and the copied bytes really are in the generated text, in order
        gb = self.g.text.encode()
        for (gs, ge, f, ss) in self.g.src_map:
            if gb[gs:ge] != self.src[f][ss:ss + (ge - gs)]:
                raise ExtractError('round-trip audit failed: generated bytes differ from %s@%d' % (f, ss))


def locate(g, byte_off):
    """generated byte offset -> (file, src_line) or None if in inserted text"""
    for (gs, ge, f, ss) in g.src_map:
        if gs <= byte_off < ge:
            so = ss + (byte_off - gs)
            return f, g.files[f][:so].count(b'\n') + 1
    return None


def fn_at(g, byte_off):
    best = None
    for (s, e, k) in g.fn_ranges:
        if s <= byte_off <= e:
            if best is None or (e - s) < (best[1] - best[0]):
                best = (s, e, k)
    return best[2] if best else None
