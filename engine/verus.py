"""Run Verus on a generated unit file and turn its diagnostics into named obligations."""
import glob
import json
import os
import re
import subprocess
import time

from splice import locate, fn_at

DEPS = '/verif/.cache/deps-target/debug/deps'

# Messages that are *verification* failures (a proof obligation was not discharged).
VERIF_MSG = [
    (r'postcondition not satisfied', 'postcondition'),
    (r'precondition not satisfied', 'precondition'),
    (r'invariant not satisfied before loop', 'invariant-entry'),
    (r'invariant not satisfied at end of loop body', 'invariant-preserved'),
    (r'loop invariant not .*', 'invariant'),
    (r'decreases not satisfied.*', 'decreases'),
    (r'could not prove termination', 'termination'),
    (r'possible arithmetic underflow/overflow', 'overflow'),
    (r'possible division by zero', 'divzero'),
    (r'assertion failed', 'assert'),
    (r'assert_by_contradiction.*', 'assert'),
    (r'panic.*', 'panic'),
    (r'unreachable.*', 'panic'),
    (r'recommendation not met.*', 'recommends'),
    (r'index out of bounds.*', 'bounds'),
    (r'possible bit shift underflow/overflow', 'overflow'),
    (r'cannot show invariant holds.*', 'invariant'),
    (r'failed precondition', 'precondition'),
    (r'unable to prove.*', 'assert'),
    (r'the loop.*ensures.*', 'loop-ensures'),
    (r'loop ensures not satisfied', 'loop-ensures'),
    (r'constructed value may fail to meet its declared type invariant', 'type-invariant'),
]
RESOURCE_MSG = [r'Resource limit \(rlimit\) exceeded.*', r'.*rlimit.*', r'.*timed? ?out.*', r'.*solver.*canceled.*']
NOISE = [r'aborting due to.*', r'.*warning.*emitted', r'verification results::.*', r'could not compile.*']


class Failure:
    def __init__(self):
        self.msg = ''
        self.kind = ''
        self.fn = None          # 'file:path' of the function whose obligation failed
        self.site = None        # (file, line) of the primary body site in /repo
        self.markers = []       # clause markers mentioned by the diagnostic
        self.tags = set()
        self.rendered = ''
        self.oblig = ''
        self.finding = None
        self.desc = None


class VerusResult:
    def __init__(self):
        self.status = 'ok'      # ok | failed | undecided
        self.reason = ''
        self.failures = []
        self.verified = 0
        self.errors = 0
        self.smt_ms = 0
        self.total_ms = 0
        self.wall_s = 0.0
        self.fn_results = []    # dicts function,time-micros,success
        self.cmd = ''
        self.stderr = ''
        self.gen_path = ''
        self.other_diags = []


def extern_flags(names, deps=None):
    arts = {}
    if isinstance(deps, tuple):
        deps, arts = deps[0], deps[1]
    deps = deps or DEPS
    fl = []
    for n in names:
        if n in arts:
            fl += ['--extern', '%s=%s' % (n, arts[n])]
            continue
        c = glob.glob(os.path.join(deps, 'lib%s-*.rlib' % n))
        if not c:
            raise RuntimeError('dependency rlib %s not built (run /verif/bin/setup)' % n)
        fl += ['--extern', '%s=%s' % (n, sorted(c)[0])]
    fl += ['-L', 'dependency=' + deps]
    return fl


def run(gen, gen_path, externs, extra_flags=(), timeout=1500, verify_fn=None, expand=False, rlimit=None, deps=None):
    res = VerusResult()
    res.gen_path = gen_path
    os.makedirs(os.path.dirname(gen_path), exist_ok=True)
    open(gen_path, 'w').write(gen.text)
    cmd = ['verus', gen_path, '--crate-name', 'unit'] + extern_flags(externs, deps) + [
        '--output-json', '--time-expanded', '--error-format=json', '--multiple-errors', '12']
    if rlimit:
        cmd += ['--rlimit', str(rlimit)]
    if expand:
        cmd += ['--expand-errors']
    cmd += list(extra_flags)
    res.cmd = ' '.join(cmd)
    t0 = time.time()
    try:
        p = subprocess.run(cmd, capture_output=True, text=True, timeout=timeout, cwd=os.path.dirname(gen_path))
    except subprocess.TimeoutExpired:
        res.status = 'undecided'
        res.reason = 'verus timed out after %ds' % timeout
        res.wall_s = time.time() - t0
        return res
    res.wall_s = time.time() - t0
    res.stderr = p.stderr
    js = None
    try:
        js = json.loads(p.stdout)
    except Exception:
        # crash: stdout is not JSON
        res.status = 'undecided'
        res.reason = 'verus produced no JSON (crash?) rc=%s: %s' % (p.returncode, (p.stderr or p.stdout)[-600:].replace('\n', ' | '))
    diags = []
    for line in p.stderr.split('\n'):
        line = line.strip()
        if line.startswith('{'):
            try:
                d = json.loads(line)
                diags.append(d)
            except Exception:
                pass
        elif line and js is None:
            pass
    if js is not None:
        vr = js.get('verification-results', {})
        res.verified = vr.get('verified', 0)
        res.errors = vr.get('errors', 0)
        tm = js.get('times-ms', {})
        res.total_ms = tm.get('total', 0)
        try:
            res.smt_ms = tm['smt']['total']
        except Exception:
            res.smt_ms = 0
        try:
            for mod in tm['smt']['smt-run-module-times']:
                for fb in mod.get('function-breakdown', []):
                    res.fn_results.append(fb)
        except Exception:
            pass
        if vr.get('encountered-vir-error'):
            res.status = 'undecided'
            res.reason = 'verus reported a VIR (unsupported construct / mode) error'
    # classify diagnostics
    hard_errors = []
    for d in diags:
        if d.get('level') not in ('error',):
            continue
        msg = d.get('message', '')
        if any(re.fullmatch(n, msg) for n in NOISE):
            continue
        kind = None
        for rx, k in VERIF_MSG:
            if re.fullmatch(rx, msg):
                kind = k
                break
        if kind is None:
            if any(re.fullmatch(n, msg, re.I) for n in RESOURCE_MSG):
                hard_errors.append('resource: ' + msg)
            else:
                hard_errors.append((d.get('code') or {}).get('code', '') + ' ' + msg + ' @ ' + _where(gen, d))
            res.other_diags.append(d.get('rendered', msg))
            continue
        f = Failure()
        f.msg = msg
        f.kind = kind
        f.rendered = d.get('rendered', '')
        prim = None
        for s in d.get('spans', []):
            for ln in range(s['line_start'], s['line_end'] + 1):
                for m in gen.line_marker.get(ln, []):
                    if m not in f.markers:
                        f.markers.append(m)
            loc = locate(gen, s['byte_start'])
            if loc and (prim is None or s.get('is_primary')):
                if kind == 'postcondition' and s.get('is_primary') and prim is not None:
                    pass
                else:
                    prim = (loc, s['byte_start'])
            # for postconditions the *exit* span is the body site
            if kind == 'postcondition' and loc and not s.get('is_primary'):
                prim = (loc, s['byte_start'])
        # function attribution
        fnk = None
        if prim:
            f.site = prim[0]
            fnk = fn_at(gen, prim[1])
        if fnk is None:
            for s in d.get('spans', []):
                fnk = fn_at(gen, s['byte_start'])
                if fnk:
                    break
        if fnk is None and f.markers:
            fnk = gen.markers[f.markers[0]]['fn']
        if fnk is None:
            # failure inside inserted text (lemma, theorem, canary): name the enclosing fn
            for sp_ in d.get('spans', []):
                nm = enclosing_fn_name(gen, sp_['byte_start'])
                if nm:
                    fnk = 'inserted:' + nm
                    if sp_.get('is_primary'):
                        break
        f.fn = fnk
        # tags: from clause markers if any, else the function's default tags
        tg = set()
        for m in f.markers:
            mk = gen.markers[m]
            # a violated precondition of a callee: marker belongs to callee; still the caller failed
            tg |= set(mk['tags'])
            if mk.get('finding'):
                f.finding = mk['finding']
        if not tg:
            for fi in gen.functions:
                if fnk and ('%s:%s' % (fi['file'], fi['path'])) == fnk.split('#')[0]:
                    tg = set(fi['tags'])
        if fnk and fnk.startswith('inserted:') and fnk[9:] in gen.inserted:
            info = gen.inserted[fnk[9:]]
            tg = set(info['tags'].split())
            f.finding = info.get('finding')
            f.desc = info.get('desc')
        kt = getattr(gen, 'kind_tags', {}) if not (fnk and fnk.startswith('inserted:') and fnk[9:] in gen.inserted) else {}
        for fi in gen.functions:
            if fnk and ('%s:%s' % (fi['file'], fi['path'])) == fnk.split('#')[0] and fi.get('explicit_tags'):
                kt = {}   # a function with explicit tags keeps them for unmarked failures
        if kind in kt and not f.markers:
            tg = set(kt[kind].split())
        f.tags = tg
        cl = ''
        if f.markers:
            mk = gen.markers[f.markers[0]]
            cl = '%s:%s#%d' % (mk['fn'], mk['kind'], mk['idx'])
            if mk.get('name'):
                cl += '(%s)' % mk['name']
        site = ('@%s:%d' % f.site) if f.site else ''
        f.oblig = '%s:%s:%s%s%s' % (gen_unit_name(gen), fnk or '?', kind, (':' + cl) if cl else '', site)
        if getattr(f, 'desc', None):
            f.oblig += ' [' + f.desc + ']'
        res.failures.append(f)
    if res.status != 'undecided':
        if hard_errors:
            res.status = 'undecided'
            res.reason = 'non-verification error(s): ' + ' ;; '.join(hard_errors[:4])
        elif res.failures or res.errors:
            res.status = 'failed'
            if not res.failures:
                res.status = 'undecided'
                res.reason = 'verus reports %d errors but no classifiable diagnostic' % res.errors
        elif js is not None and not js.get('verification-results', {}).get('success') and (
                js['verification-results'].get('encountered-error') or js['verification-results'].get('is-verifying-entire-crate', True)):
            res.status = 'undecided'
            res.reason = 'verus did not succeed and gave no diagnostic: ' + p.stderr[-400:]
    return res


def enclosing_fn_name(gen, byte_off):
    b = gen.text.encode()[:byte_off].decode(errors='ignore')
    ms = list(re.finditer(r'\bfn\s+(\w+)', b))
    return ms[-1].group(1) if ms else None


def _where(gen, d):
    for s in d.get('spans', []):
        loc = locate(gen, s['byte_start'])
        if loc:
            return '%s:%d' % loc
        return 'generated:%d' % s['line_start']
    return '?'


def gen_unit_name(gen):
    return getattr(gen, 'unit_name', 'unit')
