//! C03 search (BOUNDED stand-in for the request handlers, which are rowan navigation outside the contracts; also run after a failed or
//! undecided proof): every prefix and every single-token edit (deletion, duplication, replacement by one of 6 tokens) of a small corpus of
//! valid programs - the states a user types through - and a few nonsensical programs are analysed and queried at every char offset; no
//! query may panic or hang.
use ide::file_system::{FilePosition, FileRange};
use verifharness::{analysis, with_timeout};

const CORPUS: &[&str] = &[
    "class Base<int w, string n = \"x\"> { int width = w; string name = n; bits<4> b = {0, 1, 0, 1}; }\ndef d0 : Base<8>;\ndef d1 : Base<8, \"y\"> { let width = 16; }\n",
    "defvar foo = 1;\ndefvar xs = [foo, 2, 3];\ndefvar ys = !foreach(x, xs, !add(x, 1));\ndefvar zs = !filter(x, xs, !lt(x, 3));\ndefvar s = !foldl(0, xs, acc, x, !add(acc, x));\n",
    "class Inst<list<int> ops, dag d = (ins)> { list<int> o = ops; dag g = d; }\ndef add : Inst<[1, 2], (ins foo:$a, 3:$b)>;\ndefvar c = !cond(!eq(1, 2): \"a\", true: \"b\");\n",
    "multiclass M<int x> { def _a { int v = x; } def _b : Inner<x>; }\nclass Inner<int i>;\ndefm m : M<1>;\ndefset list<Inner> S = { def e : Inner<2>; }\n",
    "foreach i = [1, 2] in { def f#i { int v = i; } }\nforeach j = 0...3 in def g#j;\nif !eq(1, 1) then { def t; } else { def e; }\nlet a = 1, b = \"s\" in { def k { int a = 0; string b = \"\"; } }\n",
    "class A { int x = 1; }\nclass B : A { int y = x; }\ndef u : B { let x = 2; }\ndefvar v = u.x;\ndefvar w = B<>.y;\nassert !eq(v, 2), \"msg\";\ndump \"text\";\n",
];
fn exercise(text: String) -> Result<(), String> {
    let t2 = text.clone();
    let r = with_timeout(20, move || {
        std::panic::catch_unwind(|| {
            let (a, ids) = analysis(&[("/main.td", &t2)]);
            let _ = a.diagnostics();
            let _ = a.document_symbol(ids[0]);
            let _ = a.folding_range(ids[0]);
            let _ = a.document_link(ids[0]);
            let len = t2.len() as u32;
            if len > 0 { let _ = a.inlay_hint(FileRange::new(ids[0], syntax::parser::TextRange::new(0.into(), len.into()))); }
            for off in (0..=t2.len()).filter(|o| t2.is_char_boundary(*o)) {
                let p = FilePosition::new(ids[0], (off as u32).into());
                let _ = a.goto_definition(p);
                let _ = a.references(p);
                let _ = a.hover(p);
                let _ = a.completion(p, None);
            }
        }).is_ok()
    });
    match r {
        Some(true) => Ok(()),
        Some(false) => Err(format!("the analysis panicked on {:?}", text)),
        None => Err(format!("the analysis did not answer within 20 s on {:?}", text)),
    }
}
/// programs that are wrong in ways single-token edits do not reach
const NONSENSE: &[&str] = &[
    "class Foo<int a>;\ndef d : Foo<1, 2>;\ndef e : Foo<zz, 1>;\ndef f : Foo<a = 1, a = 2, 3>;\n",
    "class A : A;\nclass B : C;\nclass C : B { int y = zz; }\ndef x : A { let f = 1; }\n",
    "class A;\nclass B : A;\nclass A : B { int y = zz; }\ndef x : A { let f = 1; }\ndef z : B { let y = 2; }\n",
    "def d : Undefined<1> { let q = 2; }\ndefm m : NoSuch<1>;\ndefset list<Nope> S = { def e : Nope; }\ndefvar v = d.nofield;\n",
    "defvar a = !add(1);\ndefvar b = !foreach(x);\ndefvar c = !foldl(0, [1], acc);\ndefvar d = !cond();\ndefvar e = [1, \"s\", [2]];\ndefvar f = (ops $a, r);\n",
    "foreach i = in { def x#i; }\nforeach = [1] in def y;\nlet in { }\nif then else\nmulticlass M<> { defm : M; }\n",
];
fn token_spans(t: &str) -> Vec<(usize, usize)> {
    use syntax::token_stream::TokenStream;
    let mut l = syntax::lexer::Lexer::new(t);
    let mut v = vec![];
    let mut start = 0;
    loop {
        let k = l.eat();
        let end = l.cursor();
        if k == syntax::token_kind::TokenKind::Eof { break; }
        if !k.is_trivia() { v.push((start, end)); }
        start = end;
    }
    v
}
#[test]
fn every_single_token_edit_of_the_corpus_is_answered() {
    std::panic::set_hook(Box::new(|_| {}));
    for prog in CORPUS {
        for (s, e) in token_spans(prog) {
            let mut variants = vec![format!("{}{}", &prog[..s], &prog[e..]), format!("{}{} {}", &prog[..e], &prog[s..e], &prog[e..])];
            for r in ["<", ">", ";", ",", "1", "x"] { variants.push(format!("{}{}{}", &prog[..s], r, &prog[e..])); }
            for v in variants { if let Err(e) = exercise(v) { let _ = std::panic::take_hook(); panic!("WITNESS {e}"); } }
        }
    }
}
#[test]
fn nonsensical_programs_are_answered() {
    std::panic::set_hook(Box::new(|_| {}));
    for prog in NONSENSE { eprintln!("TRYING {prog:?}"); if let Err(e) = exercise(prog.to_string()) { let _ = std::panic::take_hook(); panic!("WITNESS {e}"); } }
}
#[test]
fn every_prefix_of_the_corpus_is_answered() {
    std::panic::set_hook(Box::new(|_| {}));
    for prog in CORPUS {
        // prefixes at token-ish granularity (every char boundary of the last 40 chars of each line would be too slow: step 1 over the whole text is ~500 analyses)
        for end in (0..=prog.len()).filter(|e| prog.is_char_boundary(*e)) {
            if let Err(e) = exercise(prog[..end].to_string()) { let _ = std::panic::take_hook(); panic!("WITNESS {e}"); }
        }
    }
}
