//! C20 witness (used after a failed or undecided proof): the completion vocabulary against the REAL lexer.  Every keyword, type and bang
//! operator offered lexes as a keyword / type / bang-operator token, and every name of a dictionary of TableGen bang operators (current,
//! recent and deprecated spellings) that the lexer accepts after `!` is offered.  The eight table entries recorded as open findings
//! (known_findings.json) are left out: they are reported by the per-entry proof obligations.
use ide::file_system::FilePosition;
use ide::handlers::completion::CompletionItemKind;
use syntax::lexer::Lexer;
use syntax::token_kind::TokenKind;
use syntax::token_stream::TokenStream;
use verifharness::analysis;

const KNOWN_OFFERED_NOT_LEXABLE: &[&str] = &["concat", "log2"];
const KNOWN_LEXABLE_NOT_OFFERED: &[&str] = &["con", "cond", "initialized", "listflatten", "logtwo", "repr"];
const DICTIONARY: &[&str] = &["add", "and", "cast", "con", "cond", "dag", "div", "empty", "eq", "exists", "filter", "find", "foldl", "foreach", "ge", "getdagarg", "getdagname", "getdagop", "gt",
    "head", "if", "initialized", "instances", "interleave", "isa", "le", "listconcat", "listflatten", "listremove", "listsplat", "logtwo", "lt", "match", "mul", "ne", "not", "or", "range", "repr",
    "setdagarg", "setdagname", "setdagop", "shl", "size", "sort", "sra", "srl", "strconcat", "sub", "subst", "substr", "tail", "tolower", "toupper", "xor",
    // deprecated or foreign spellings
    "getop", "setop", "concat", "log2", "null", "car", "cdr", "nameconcat", "mod", "neg", "abs", "min", "max", "len", "join", "split", "contains", "map", "reduce", "zip"];

fn first_token(t: &str) -> (TokenKind, usize) { let mut l = Lexer::new(t); let k = l.eat(); (k, l.cursor()) }
fn offered(text: &str, off: usize, trigger: Option<&str>) -> Vec<(String, CompletionItemKind)> {
    let (a, ids) = analysis(&[("/main.td", text)]);
    a.completion(FilePosition::new(ids[0], (off as u32).into()), trigger.map(|s| s.to_string())).unwrap_or_default().into_iter().map(|i| (i.label, i.kind)).collect()
}
#[test]
fn offered_bang_operators_and_the_lexer_agree() {
    // what the trigger character `!` adds to the completions of the position
    let plain: Vec<String> = offered("defvar x = !", 12, None).into_iter().map(|(l, _)| l).collect();
    let ops: Vec<String> = offered("defvar x = !", 12, Some("!")).into_iter().filter(|(l, k)| *k == CompletionItemKind::Keyword && !plain.contains(l)).map(|(l, _)| l).collect();
    assert!(ops.len() > 30, "WITNESS completion after `!` offers only {} items", ops.len());
    for op in &ops {
        if KNOWN_OFFERED_NOT_LEXABLE.contains(&op.as_str()) { continue; }
        let t = format!("!{op}");
        let (k, end) = first_token(&t);
        assert!(k.is_bang_operator() || k.is_cond_operator(), "WITNESS completion after `!` offers {op:?}, but the lexer reads {t:?} as {k:?}");
        assert_eq!(end, t.len(), "WITNESS completion after `!` offers {op:?}, but the lexer reads only {end} bytes of {t:?} as the operator");
    }
    for name in DICTIONARY {
        if KNOWN_LEXABLE_NOT_OFFERED.contains(name) { continue; }
        let t = format!("!{name}");
        let (k, end) = first_token(&t);
        if (k.is_bang_operator() || k.is_cond_operator()) && end == t.len() {
            assert!(ops.iter().any(|o| o == name), "WITNESS the lexer accepts {t:?} as {k:?}, but completion after `!` does not offer {name:?}");
        }
    }
}
#[test]
fn offered_keywords_and_types_lex_as_keywords() {
    for (text, off) in [("c", 1), ("class Foo<i", 11), ("class Foo<int a = t", 19)] {
        for (label, kind) in offered(text, off, None) {
            if kind == CompletionItemKind::Class { continue; }
            let (k, end) = first_token(&label);
            assert!(end == label.len() && k != TokenKind::Id && k != TokenKind::Error, "WITNESS completion in {text:?} offers {label:?}, but the lexer reads it as {k:?} ({end} bytes)");
        }
    }
}
