//! Witness search for C01 / C02 (used only after a failed proof): all concatenations of up to 4 fragments.
use std::sync::mpsc;
use std::time::Duration;

const FRAGS: &[&str] = &[
    "class", "def", "defm", "let", "foreach", "multiclass", "defset", "defvar", "if", "then", "else", "assert", "dump", "include", "in",
    "A", "x", "0", "4foo", "0x1F", "0b10", "-1", "+", "-", "\"s\"", "\"a\\\\\"", "\"unterminated", "[{ c }]", "[{", "!add", "!cond", "!foo", "$v", "?",
    "{", "}", "[", "]", "(", ")", "<", ">", ":", ";", ",", ".", "..", "...", "=", "#", "##",
    " ", "\n", "\r\n", "\t", "// c\n", "/* c */", "/* /* */ */", "/* open", "\u{feff}", "é", "𝒳", "\u{0}",
    "#define X\n", "#ifdef X\n", "#ifndef X\n", "#else\n", "#endif\n", "#ifdef", "#bogus",
    "bit", "bits<", "int", "string", "list<", "dag", "code", "true", "false", "field",
];
fn check(text: &str) -> Result<(), String> {
    let p = syntax::parse(text);
    let back = p.syntax_node().text().to_string();
    if back != text { return Err(format!("C01 tree text differs: input {:?} tree {:?}", text, back)); }
    for e in p.errors() {
        let r = e.range;
        let (s, t) = (usize::from(r.start()), usize::from(r.end()));
        if e.message.is_empty() { return Err(format!("C02 empty error message: input {:?}", text)); }
        if s > t || t > text.len() || !text.is_char_boundary(s) || !text.is_char_boundary(t) { return Err(format!("C02 error range {:?} outside the text / not on char boundaries: input {:?}", r, text)); }
    }
    Ok(())
}
/// the search serves C01 and C02; with WITNESS_PROP set (by the check of one property) only failures of that property's own clauses count
fn concerns(e: &str) -> bool {
    match std::env::var("WITNESS_PROP") {
        Ok(p) if p == "C01" || p == "C02" => e.split(' ').take_while(|w| w.len() == 3 && w.starts_with('C')).any(|w| w == p),
        _ => true,
    }
}
#[test]
fn all_short_concatenations() {
    // the search runs in a worker thread; the main thread watches its progress so that a non-terminating parse is
    // reported with the input it hangs on
    use std::sync::{Arc, Mutex};
    let current: Arc<Mutex<(u64, String)>> = Arc::new(Mutex::new((0, String::new())));
    let (tx, rx) = mpsc::channel::<Result<(), String>>();
    let cur2 = current.clone();
    std::thread::spawn(move || {
        let mut frontier = vec![String::new()];
        let mut n = 0u64;
        for _depth in 0..3 {
            let mut next = vec![];
            for t in &frontier { for a in FRAGS { next.push(format!("{t}{a}")); } }
            for t in &next {
                n += 1;
                if n % 64 == 1 || t.contains('#') { *cur2.lock().unwrap() = (n, t.clone()); }
                let r = std::panic::catch_unwind(|| check(t)).unwrap_or_else(|_| Err(format!("C01 C02 panic (no tree is produced): input {:?}", t)));
                if let Err(e) = r { if concerns(&e) { let _ = tx.send(Err(e)); return; } }
            }
            frontier = next;
        }
        for t in ["class A { int x = 1; }\n#ifdef X\nclass B;", "def x : A<1, [2]> { let y = !add(1, 2); }", "foreach i = [1,2] in { def d#i; }", "class }} def", "let a = b in { def c; } }"] {
            *cur2.lock().unwrap() = (n, t.to_string());
            let r = std::panic::catch_unwind(|| check(t)).unwrap_or_else(|_| Err(format!("C01 C02 panic (no tree is produced): input {:?}", t)));
            if let Err(e) = r { if concerns(&e) { let _ = tx.send(Err(e)); return; } }
        }
        let _ = tx.send(Ok(()));
    });
    let mut last = (u64::MAX, String::new());
    loop {
        match rx.recv_timeout(Duration::from_secs(10)) {
            Ok(Ok(())) => return,
            Ok(Err(e)) => panic!("WITNESS {e}"),
            Err(mpsc::RecvTimeoutError::Timeout) => {
                let now = current.lock().unwrap().clone();
                if now == last { panic!("WITNESS C01 C02 no termination within 10 s (no tree is produced): input {:?}", now.1); }
                last = now;
            }
            Err(mpsc::RecvTimeoutError::Disconnected) => panic!("search thread died"),
        }
    }
}
