use ide::file_system::FilePosition;
use verifharness::analysis;

/// `multiclass M { def D : C; }` (no template arguments): the body must be indexed, i.e. the reference to C resolves
#[test]
fn multiclass_without_template_args_is_indexed() {
    let text = "class C;\nmulticlass M { def D : C; }\n";
    let (a, ids) = analysis(&[("/main.td", text)]);
    let off = text.rfind('C').unwrap() as u32;
    let def = a.goto_definition(FilePosition::new(ids[0], off.into()));
    assert!(def.is_some(), "use of C inside the multiclass body does not resolve: body was not indexed");
}
/// the Multiclass scope must not leak: a defm after it must not be treated as part of the multiclass
#[test]
fn multiclass_scope_does_not_leak() {
    let text = "multiclass M { def D; }\nclass Z;\ndef X { int f = undefined_name; }\n";
    let (a, ids) = analysis(&[("/main.td", text)]);
    let d = a.diagnostics();
    let n = d.get(&ids[0]).map(|v| v.len()).unwrap_or(0);
    assert!(n >= 1, "expected a `symbol not found` diagnostic");
}

// ---- lookup order (from the property statement): the innermost declaration wins; in a scope variables, then fields, then template
// ---- arguments; global defs last; a name used after its construct has ended does not resolve to it
/// go-to-definition on the LAST occurrence of `use_text`; returns the start offset of the target
fn def_of(text: &str, use_text: &str) -> Option<usize> {
    let (a, ids) = analysis(&[("/main.td", text)]);
    let off = text.rfind(use_text).unwrap() as u32;
    a.goto_definition(FilePosition::new(ids[0], off.into())).map(|r| usize::from(r.range.start()))
}
fn nth(text: &str, pat: &str, n: usize) -> usize { text.match_indices(pat).nth(n).unwrap().0 }
#[test]
fn template_argument_beats_outer_defvar() {
    let t = "defvar width = 8;\nclass Reg<int width> { int w = width; }\n";
    assert_eq!(def_of(t, "width"), Some(nth(t, "width", 1)), "WITNESS {t:?}: the use of `width` must resolve to the template argument");
}
#[test]
fn field_beats_outer_defvar() {
    let t = "defvar size = 8;\ndef R { int size = 4; int twice = !add(size, 1); }\n";
    assert_eq!(def_of(t, "size"), Some(nth(t, "size", 1)), "WITNESS {t:?}: the use of `size` must resolve to the field");
}
#[test]
fn template_argument_beats_global_def() {
    let t = "def x;\nclass Foo<int x> { int y = x; }\n";
    assert_eq!(def_of(t, "x;"), Some(nth(t, "x", 1)), "WITNESS {t:?}: the use of `x` must resolve to the template argument");
}
#[test]
fn field_beats_template_argument() {
    let t = "class Foo<int v> { int v = 1; int w = v; }\n";
    assert_eq!(def_of(t, "v;"), Some(nth(t, "v", 1)), "WITNESS {t:?}: the use of `v` must resolve to the field");
}
#[test]
fn inner_foreach_variable_beats_outer_one() {
    let t = "foreach i = [1] in { foreach i = [2] in { def d { int f = i; } } }\n";
    assert_eq!(def_of(t, "i;"), Some(nth(t, "i =", 1)), "WITNESS {t:?}: the use of `i` must resolve to the inner iterator");
}
#[test]
fn block_defvar_beats_field_of_an_enclosing_record_only_inside_the_block() {
    let t = "foreach n = [1] in { defvar bits_ = 8; def A { int bits_ = 4; int b = bits_; } }\n";
    assert_eq!(def_of(t, "bits_;"), Some(nth(t, "bits_", 1)), "WITNESS {t:?}: the use of `bits_` must resolve to the field of A");
}
#[test]
fn name_used_after_its_construct_does_not_resolve() {
    let t = "foreach k = [1] in { def a { int f = k; } }\ndef b { int g = k; }\n";
    assert_eq!(def_of(t, "k;"), None, "WITNESS {t:?}: `k` is used after the foreach has ended");
}
/// "in the right file": a class declared in a.td AFTER a.td's own include of b.td is found in a.td (main -> a -> b)
#[test]
fn declaration_after_a_nested_include_is_found_in_its_own_file() {
    let files = [("/m.td", "include \"a.td\"\ndef d : A;\n"), ("/a.td", "include \"b.td\"\n// padding padding padding\nclass A;\n"), ("/b.td", "class B;\n")];
    let (a, ids) = analysis(&files);
    let off = files[0].1.rfind('A').unwrap() as u32;
    let def = a.goto_definition(FilePosition::new(ids[0], off.into()));
    let want = files[1].1.find("class A").unwrap() + 6;
    assert!(matches!(def, Some(r) if r.file == ids[1] && usize::from(r.range.start()) == want),
        "WITNESS {files:?}: the use of `A` in m.td must resolve to a.td offset {want}, got {def:?}");
}
