//! C15 witness search: all well-nested arrangements of #define / #ifdef / #ifndef / #else / #endif and a marker declaration, up to 6
//! lines, over two macro names: the marker declarations that reach the parser (Id tokens of the tree) must be exactly those a reference
//! evaluation of the conditionals selects, complete arrangements produce no diagnostic, arrangements left unterminated and directives
//! without a macro name produce one.  Used after a failed or undecided C15 proof to attach a concrete failing input.
use syntax::syntax_kind::SyntaxKind;

#[derive(Clone, Copy, PartialEq, Debug)]
enum It { Def(u8), Ifdef(u8), Ifndef(u8), Else, Endif, Mark }

fn render(seq: &[It]) -> String {
    let mut s = String::new();
    for (i, it) in seq.iter().enumerate() {
        let n = |m: &u8| if *m == 0 { "AA" } else { "BB" };
        match it {
            It::Def(m) => s.push_str(&format!("#define {}\n", n(m))),
            It::Ifdef(m) => s.push_str(&format!("#ifdef {}\n", n(m))),
            It::Ifndef(m) => s.push_str(&format!("#ifndef {}\n", n(m))),
            It::Else => s.push_str("#else\n"),
            It::Endif => s.push_str("#endif\n"),
            It::Mark => s.push_str(&format!("class M{i};\n")),
        }
    }
    s
}
/// reference evaluation written from the property statement: (markers delivered, number of conditionals left open)
fn reference(seq: &[It]) -> (Vec<String>, usize) {
    let mut defined = [false; 2];
    // frame: (parent enabled, some branch already taken, currently enabled)
    let mut st: Vec<(bool, bool, bool)> = vec![];
    let mut out = vec![];
    for (i, it) in seq.iter().enumerate() {
        let en = st.last().map(|f| f.2).unwrap_or(true);
        match it {
            It::Def(m) => if en { defined[*m as usize] = true; },
            It::Ifdef(m) => { let c = en && defined[*m as usize]; st.push((en, c, c)); }
            It::Ifndef(m) => { let c = en && !defined[*m as usize]; st.push((en, c, c)); }
            It::Else => { let f = st.last_mut().unwrap(); let c = f.0 && !f.1; f.1 = f.1 || c; f.2 = c; }
            It::Endif => { st.pop(); }
            It::Mark => if en { out.push(format!("M{i}")); },
        }
    }
    (out, st.len())
}
fn delivered(text: &str) -> (Vec<String>, Vec<String>, bool) {
    let p = syntax::parse(text);
    let lossless = p.syntax_node().text().to_string() == text;
    let ids = p.syntax_node().descendants_with_tokens().filter_map(|e| e.into_token())
        .filter(|t| t.kind() == SyntaxKind::Id && t.text().starts_with('M')).map(|t| t.text().to_string()).collect();
    (ids, p.errors().iter().map(|e| e.message.clone()).collect(), lossless)
}
fn check(seq: &[It]) -> Result<(), String> {
    let text = render(seq);
    let (want, open) = reference(seq);
    let t2 = text.clone();
    let (got, errs, lossless) = std::panic::catch_unwind(move || delivered(&t2)).map_err(|_| format!("parse panics on {text:?}"))?;
    if !lossless { return Err(format!("input {text:?}: the tree does not reproduce the text")); }
    if got != want { return Err(format!("input {text:?}: the reference evaluation delivers the declarations {want:?}, the parser received {got:?}")); }
    if open == 0 && !errs.is_empty() { return Err(format!("input {text:?}: complete, well-nested arrangement, but diagnostics {errs:?}")); }
    if open > 0 && errs.is_empty() { return Err(format!("input {text:?}: {open} conditional(s) left unterminated at end of file, but no diagnostic")); }
    Ok(())
}
fn dfs(seq: &mut Vec<It>, frames: &mut Vec<bool>, max: usize, n: &mut u64) -> Result<(), String> {
    *n += 1;
    check(seq)?;
    if seq.len() == max { return Ok(()); }
    let mut alpha = vec![It::Def(0), It::Def(1), It::Ifdef(0), It::Ifdef(1), It::Ifndef(0), It::Ifndef(1), It::Mark];
    if let Some(seen_else) = frames.last() { alpha.push(It::Endif); if !*seen_else { alpha.push(It::Else); } }
    for it in alpha {
        let saved = frames.clone();
        match it { It::Ifdef(_) | It::Ifndef(_) => frames.push(false), It::Else => { *frames.last_mut().unwrap() = true; } It::Endif => { frames.pop(); } _ => {} }
        seq.push(it);
        let r = dfs(seq, frames, max, n);
        seq.pop();
        *frames = saved;
        r?;
    }
    Ok(())
}
#[test]
fn all_well_nested_arrangements_up_to_six_lines() {
    let mut n = 0;
    if let Err(e) = dfs(&mut vec![], &mut vec![], 6, &mut n) { panic!("WITNESS {e}"); }
    assert!(n > 50_000, "search space unexpectedly small: {n}");
}
#[test]
fn a_directive_without_its_macro_name_is_an_error() {
    for t in ["#define\nclass M0;\n", "#ifdef\nclass M0;\n#endif\n", "#ifndef\n", "#define 12\n", "#ifdef ;\n#endif\n"] {
        let (_, errs, lossless) = delivered(t);
        assert!(lossless && !errs.is_empty(), "WITNESS input {t:?}: a directive without its macro name must be reported; diagnostics {errs:?}");
    }
}
