use verifharness::{analysis, with_timeout};

/// a file that includes itself: selecting the root must terminate
#[test]
fn self_include_terminates() {
    let r = with_timeout(10, || { let (a, _ids) = analysis(&[("/m.td", "include \"m.td\"\nclass A;\n")]); let _ = a.diagnostics(); true });
    assert_eq!(r, Some(true), "set_root_file / indexing did not return (include cycle)");
}
/// mutual include cycle
#[test]
fn include_cycle_terminates() {
    let r = with_timeout(10, || { let (a, _ids) = analysis(&[("/a.td", "include \"b.td\"\nclass A;\n"), ("/b.td", "include \"a.td\"\nclass B;\n")]); let _ = a.diagnostics(); true });
    assert_eq!(r, Some(true));
}
/// diamond: d.td is included along two paths; its declarations (and its diagnostics) must appear once
#[test]
fn diamond_is_indexed_once() {
    let files = [("/root.td", "include \"l.td\"\ninclude \"r.td\"\n"), ("/l.td", "include \"d.td\"\n"), ("/r.td", "include \"d.td\"\n"),
                 ("/d.td", "def X { int f = undefined_name; }\n")];
    let (a, ids) = analysis(&files);
    let d = a.diagnostics();
    let n = d.get(&ids[3]).map(|v| v.len()).unwrap_or(0);
    assert_eq!(n, 1, "diagnostics of d.td: {:?}", d.get(&ids[3]));
}
/// the same include text in two directories names two different files: each include statement links to the file of ITS directory,
/// and both files belong to the workspace
#[test]
fn same_spelling_in_two_directories_resolves_per_directory() {
    let files = [("/root.td", "include \"x/one.td\"\ninclude \"y/two.td\"\ndef d : CX;\ndef e : CY;\n"), ("/x/one.td", "include \"common.td\"\n"), ("/y/two.td", "include \"common.td\"\n"),
                 ("/x/common.td", "class CX;\n"), ("/y/common.td", "class CY;\n")];
    let (a, ids) = analysis(&files);
    let d = a.diagnostics();
    assert!(d.values().all(|v| v.is_empty()), "WITNESS {files:?}: every include resolves and CX, CY are declared, but diagnostics {d:?}");
    assert_eq!(d.len(), 5, "WITNESS {files:?}: the workspace consists of exactly the 5 reachable files, got {}", d.len());
    let link = |i: usize| a.document_link(ids[i]).unwrap_or_default().into_iter().map(|l| l.target).collect::<Vec<_>>();
    assert_eq!(link(1), vec![ids[3]], "WITNESS {files:?}: the include of x/one.td links to x/common.td");
    assert_eq!(link(2), vec![ids[4]], "WITNESS {files:?}: the include of y/two.td links to y/common.td");
}
