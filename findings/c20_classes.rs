//! BOUNDED stand-in for the class-name half of C20 (complete_classes: iterator chain over the symbol map + format!, outside the contracts):
//! a fixed corpus written from the property statement.  Class-name completions in a parent-class position are exactly the classes of
//! the workspace, each with one snippet placeholder per template parameter; every offered snippet, with its placeholders filled by
//! values, lexes and parses as a parent-class reference to that class.
use ide::file_system::FilePosition;
use ide::handlers::completion::CompletionItemKind;
use verifharness::analysis;

fn classes_at(files: &[(&str, &str)], which: usize, marker: &str) -> Vec<(String, String)> {
    let (a, ids) = analysis(files);
    let off = files[which].1.find(marker).expect("marker") + marker.len();
    let items = a.completion(FilePosition::new(ids[which], (off as u32).into()), None).expect("completion");
    let mut got: Vec<(String, String)> = items.into_iter().filter(|i| i.kind == CompletionItemKind::Class)
        .map(|i| (i.label, i.insert_text_snippet.unwrap_or_default())).collect();
    got.sort();
    got
}
fn want(v: &[(&str, &str)]) -> Vec<(String, String)> {
    let mut w: Vec<(String, String)> = v.iter().map(|(a, b)| (a.to_string(), b.to_string())).collect();
    w.sort();
    w
}
#[test]
fn parent_class_position_offers_exactly_the_classes_with_one_placeholder_per_parameter() {
    let t = "class A;\nclass B<int x>;\nclass C<int x, string y = \"s\", bit z = 0>;\nmulticlass M<int q> { def NAME; }\ndef d0 : A;\ndefset list<A> S = { def s0 : A; }\ndef use : A;\n";
    let got = classes_at(&[("/main.td", t)], 0, "def use : A");
    assert_eq!(got, want(&[("A", "A$0"), ("B", "B<${1}>$0"), ("C", "C<${1}, ${2}, ${3}>$0")]), "WITNESS class completions in {t:?}");
}
#[test]
fn classes_of_included_files_are_offered_and_defs_are_not() {
    let files = [("/main.td", "include \"sub.td\"\nclass Top<int a, int b>;\ndef d : Top;\n"), ("/sub.td", "class Sub<string s>;\ndef other;\n")];
    let got = classes_at(&files, 0, "def d : Top");
    assert_eq!(got, want(&[("Sub", "Sub<${1}>$0"), ("Top", "Top<${1}, ${2}>$0")]), "WITNESS class completions in {files:?}");
}
#[test]
fn every_offered_snippet_parses_as_a_reference_to_that_class() {
    let t = "class A;\nclass B<int x>;\nclass C<int x, int y, int z>;\ndef use : A;\n";
    for (label, snippet) in classes_at(&[("/main.td", t)], 0, "def use : A") {
        let mut filled = snippet.replace("$0", "");
        for i in 1..=9 { filled = filled.replace(&format!("${{{i}}}"), &i.to_string()); }
        assert!(!filled.contains('$'), "WITNESS snippet {snippet:?} has an unexpected placeholder");
        let src = format!("{t}def probe : {filled};\n");
        let parse = syntax::parse(&src);
        assert!(parse.errors().is_empty(), "WITNESS snippet {snippet:?} of class {label} does not parse: {:?}", parse.errors());
        let (a, ids) = analysis(&[("/main.td", &src)]);
        let diags = a.diagnostics();
        let _ = ids;
        assert!(diags.values().flatten().all(|d| !d.message.contains("template") && !d.message.contains("argument")) ,
            "WITNESS snippet {snippet:?} of class {label}: wrong number of template arguments: {:?}", diags);
    }
}
