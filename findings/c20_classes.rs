//! BOUNDED stand-in for the class-name half of C20 (complete_classes: iterator chain over the symbol map + format!, outside the contracts):
//! a fixed corpus written from the property statement.  Class-name completions in a parent-class position are exactly the classes of
//! the workspace, each with one snippet placeholder per template parameter; every offered snippet, with its placeholders filled by
//! values, lexes and parses as a parent-class reference to that class.
use ide::file_system::FilePosition;
use ide::handlers::completion::CompletionItemKind;
use verifharness::analysis;

/// the tab stops of an LSP snippet other than the final `$0`: `$1`, `${1}`, `${1:default}`
fn placeholders(snippet: &str) -> Vec<u32> {
    let b = snippet.as_bytes();
    let mut out = vec![];
    let mut i = 0;
    while i < b.len() {
        if b[i] == b'$' {
            let mut j = i + 1;
            if j < b.len() && b[j] == b'{' { j += 1; }
            let st = j;
            while j < b.len() && b[j].is_ascii_digit() { j += 1; }
            if j > st { let n: u32 = snippet[st..j].parse().unwrap(); if n != 0 && !out.contains(&n) { out.push(n); } }
            i = j.max(i + 1);
        } else { i += 1; }
    }
    out
}
/// fill every tab stop with a value and drop `$0`
fn fill(snippet: &str) -> String {
    let mut out = String::new();
    let mut rest = snippet;
    while let Some(p) = rest.find('$') {
        out.push_str(&rest[..p]);
        let after = &rest[p + 1..];
        let (braced, body) = match after.strip_prefix('{') { Some(a) => (true, a), None => (false, after) };
        let nd = body.bytes().take_while(|c| c.is_ascii_digit()).count();
        let n: u32 = body[..nd].parse().unwrap_or(0);
        let mut tail = &body[nd..];
        if braced { tail = &tail[tail.find('}').map(|i| i + 1).unwrap_or(0)..]; }
        if n != 0 { out.push_str(&n.to_string()); }
        rest = tail;
    }
    out.push_str(rest);
    out
}
fn classes_at(files: &[(&str, &str)], which: usize, marker: &str) -> Vec<(String, String)> {
    let (a, ids) = analysis(files);
    let off = files[which].1.find(marker).expect("marker") + marker.len();
    let items = a.completion(FilePosition::new(ids[which], (off as u32).into()), None).expect("completion");
    let mut got: Vec<(String, String)> = items.into_iter().filter(|i| i.kind == CompletionItemKind::Class)
        .map(|i| (i.label, i.insert_text_snippet.unwrap_or_default())).collect();
    got.sort();
    got
}
/// (class name, number of placeholders); the snippet's own punctuation is not compared
fn shape(got: &[(String, String)]) -> Vec<(String, usize)> {
    got.iter().map(|(l, s)| { assert!(s.starts_with(l.as_str()), "WITNESS snippet {s:?} does not start with the class name {l}"); (l.clone(), placeholders(s).len()) }).collect()
}
fn want(v: &[(&str, usize)]) -> Vec<(String, usize)> {
    let mut w: Vec<(String, usize)> = v.iter().map(|(a, b)| (a.to_string(), *b)).collect();
    w.sort();
    w
}
#[test]
fn parent_class_position_offers_exactly_the_classes_with_one_placeholder_per_parameter() {
    let t = "class A;\nclass B<int x>;\nclass C<int x, string y = \"s\", bit z = 0>;\nmulticlass M<int q> { def NAME; }\ndef d0 : A;\ndefset list<A> S = { def s0 : A; }\ndef use : A;\n";
    let got = classes_at(&[("/main.td", t)], 0, "def use : A");
    assert_eq!(shape(&got), want(&[("A", 0), ("B", 1), ("C", 3)]), "WITNESS class completions in {t:?}");
}
#[test]
fn classes_of_included_files_are_offered_and_defs_are_not() {
    let files = [("/main.td", "include \"sub.td\"\nclass Top<int a, int b>;\ndef d : Top;\n"), ("/sub.td", "class Sub<string s>;\ndef other;\n")];
    let got = classes_at(&files, 0, "def d : Top");
    assert_eq!(shape(&got), want(&[("Sub", 1), ("Top", 2)]), "WITNESS class completions in {files:?}");
}
#[test]
fn every_offered_snippet_parses_as_a_reference_to_that_class() {
    let t = "class A;\nclass B<int x>;\nclass C<int x, int y, int z>;\ndef use : A;\n";
    for (label, snippet) in classes_at(&[("/main.td", t)], 0, "def use : A") {
        let filled = fill(&snippet);
        assert!(!filled.contains('$'), "WITNESS snippet {snippet:?} has an unexpected placeholder");
        let src = format!("{t}def probe : {filled};\n");
        let parse = syntax::parse(&src);
        assert!(parse.errors().is_empty(), "WITNESS snippet {snippet:?} of class {label} does not parse: {:?}", parse.errors());
        let (a, ids) = analysis(&[("/main.td", &src)]);
        let diags = a.diagnostics();
        let _ = ids;
        assert!(diags.values().flatten().all(|d| !d.message.contains("template") && !d.message.contains("argument")) ,
            "WITNESS snippet {snippet:?} of class {label}: wrong number of template arguments: {:?}", diags);
    }
}
