//! C14 witness search: every pair of valid TableGen token instances (each class of the Programmer's Reference sampled with its boundary
//! cases), joined by every separator kind, and every single instance at end of input, is lexed by the REAL lexer and compared with the
//! token sequence known by construction (kinds and boundaries; no lexical error).  Used after a failed or undecided C14 proof to attach
//! a concrete failing input; it is not what decides C14.
use syntax::lexer::Lexer;
use syntax::token_kind::TokenKind as K;
use syntax::token_stream::TokenStream;
use syntax::T;

fn instances() -> Vec<(String, K)> {
    let mut v: Vec<(String, K)> = vec![];
    for s in ["a", "_x1", "Foo_Bar9", "4foo", "1_", "99Reg", "classy", "ifdef", "x"] { v.push((s.into(), K::Id)); }
    for s in ["0", "7", "42", "+5", "-13", "007", "9223372036854775807", "-9223372036854775808", "0x0", "0xFF", "0xdeadBEEF", "0x7fffffffffffffff"] { v.push((s.into(), K::IntVal)); }
    for s in ["0b0", "0b1011", "0b0000"] { v.push((s.into(), K::BinaryIntVal)); }
    for s in ["\"\"", "\"abc\"", "\"a\\\"b\"", "\"a\\\\\"", "\"\\\\\\\"\"", "\"tab\\t\\n\"", "\"// not a comment\"", "\"/* x\"", "\"[{\""] { v.push((s.into(), K::StrVal)); }
    for s in ["[{}]", "[{ code }]", "[{ a ] } b }]", "[{\n multi \"x\n}]", "[{ // c }]"] { v.push((s.into(), K::CodeFragment)); }
    for s in ["$x", "$_a1", "$Foo"] { v.push((s.into(), K::VarName)); }
    let kw: [(&str, K); 25] = [("assert", T![assert]), ("bit", T![bit]), ("bits", T![bits]), ("class", T![class]), ("code", T![code]), ("dag", T![dag]), ("def", T![def]), ("defm", T![defm]),
        ("defset", T![defset]), ("defvar", T![defvar]), ("dump", T![dump]), ("else", T![else]), ("field", T![field]), ("foreach", T![foreach]), ("if", T![if]), ("in", T![in]),
        ("include", T![include]), ("int", T![int]), ("let", T![let]), ("list", T![list]), ("multiclass", T![multiclass]), ("string", T![string]), ("then", T![then]), ("true", T![true]), ("false", T![false])];
    for (s, k) in kw { v.push((s.into(), k)); }
    let bang: [(&str, K); 52] = [("add", T![!add]), ("and", T![!and]), ("cast", T![!cast]), ("con", T![!con]), ("cond", T![!cond]), ("dag", T![!dag]), ("div", T![!div]), ("empty", T![!empty]), ("eq", T![!eq]),
        ("exists", T![!exists]), ("filter", T![!filter]), ("find", T![!find]), ("foldl", T![!foldl]), ("foreach", T![!foreach]), ("ge", T![!ge]), ("getdagarg", T![!getdagarg]),
        ("getdagname", T![!getdagname]), ("getdagop", T![!getdagop]), ("gt", T![!gt]), ("head", T![!head]), ("if", T![!if]), ("initialized", T![!initialized]), ("interleave", T![!interleave]),
        ("isa", T![!isa]), ("le", T![!le]), ("listconcat", T![!listconcat]), ("listflatten", T![!listflatten]), ("listremove", T![!listremove]), ("listsplat", T![!listsplat]),
        ("logtwo", T![!log2]), ("lt", T![!lt]), ("mul", T![!mul]), ("ne", T![!ne]), ("not", T![!not]), ("or", T![!or]), ("range", T![!range]), ("repr", T![!repr]), ("setdagarg", T![!setdagarg]),
        ("setdagname", T![!setdagname]), ("setdagop", T![!setdagop]), ("shl", T![!shl]), ("size", T![!size]), ("sra", T![!sra]), ("srl", T![!srl]), ("strconcat", T![!strconcat]), ("sub", T![!sub]),
        ("subst", T![!subst]), ("substr", T![!substr]), ("tail", T![!tail]), ("tolower", T![!tolower]), ("toupper", T![!toupper]), ("xor", T![!xor])];
    for (s, k) in bang { v.push((format!("!{s}"), k)); }
    let punct: [(&str, K); 18] = [("-", T![-]), ("+", T![+]), ("[", T!['[']), ("]", T![']']), ("{", T!['{']), ("}", T!['}']), ("(", T!['(']), (")", T![')']), ("<", T![<]), (">", T![>]),
        (":", T![:]), (";", T![;]), (",", T![,]), (".", T![.]), ("=", T![=]), ("?", T![?]), ("#", T![#]), ("...", T![...])];
    for (s, k) in punct { v.push((s.into(), k)); }
    v
}
/// separators with the trivia tokens they consist of
fn separators() -> Vec<(&'static str, Vec<(K, usize)>)> {
    vec![(" ", vec![(K::Whitespace, 1)]), ("\n", vec![(K::Whitespace, 1)]), ("\t \r\n", vec![(K::Whitespace, 4)]),
         ("// c /* \n", vec![(K::LineComment, 8), (K::Whitespace, 1)]), ("/* c */", vec![(K::BlockComment, 7)]), ("/**/", vec![(K::BlockComment, 4)]),
         ("/* a /* b */ c\n */", vec![(K::BlockComment, 18)]), ("/* \"x */", vec![(K::BlockComment, 8)])]
}
fn lex(t: &str) -> Vec<(K, usize, usize)> {
    let mut l = Lexer::new(t);
    let mut v = vec![];
    let mut start = 0;
    for _ in 0..t.len() + 2 {
        let k = l.eat();
        let end = l.cursor();
        v.push((k, start, end));
        if k == K::Eof { break; }
        start = end;
    }
    v
}
fn check(parts: &[(&str, Vec<(K, usize)>)]) -> Result<(), String> {
    let mut text = String::new();
    let mut want = vec![];
    for (s, toks) in parts {
        let mut o = text.len();
        for (k, n) in toks { want.push((*k, o, o + n)); o += n; }
        text.push_str(s);
    }
    want.push((K::Eof, text.len(), text.len()));
    let t2 = text.clone();
    let got = std::panic::catch_unwind(move || lex(&t2)).map_err(|_| format!("the lexer panics on {text:?}"))?;
    if got != want { return Err(format!("input {text:?}: expected tokens {want:?}, the lexer delivers {got:?}")); }
    Ok(())
}
#[test]
fn every_pair_of_token_instances_over_every_separator() {
    let inst = instances();
    let seps = separators();
    for (a, ka) in &inst {
        // a single instance at end of input, and followed by each separator
        if let Err(e) = check(&[(a.as_str(), vec![(*ka, a.len())])]) { panic!("WITNESS {e}"); }
        for (s, st) in &seps {
            if let Err(e) = check(&[(a.as_str(), vec![(*ka, a.len())]), (s, st.clone())]) { panic!("WITNESS {e}"); }
            if let Err(e) = check(&[(s, st.clone()), (a.as_str(), vec![(*ka, a.len())])]) { panic!("WITNESS {e}"); }
            for (b, kb) in &inst {
                if let Err(e) = check(&[(a.as_str(), vec![(*ka, a.len())]), (s, st.clone()), (b.as_str(), vec![(*kb, b.len())])]) { panic!("WITNESS {e}"); }
            }
        }
    }
}
