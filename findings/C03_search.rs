//! Witness search for C03 (used only after a failed proof or when the verifier cannot decide): every prefix of a small corpus of
//! valid programs - the states a user types through - is analysed and queried at every char offset; no query may panic or hang.
use ide::file_system::{FilePosition, FileRange};
use verifharness::{analysis, with_timeout};

const CORPUS: &[&str] = &[
    "class Base<int w, string n = \"x\"> { int width = w; string name = n; bits<4> b = {0, 1, 0, 1}; }\ndef d0 : Base<8>;\ndef d1 : Base<8, \"y\"> { let width = 16; }\n",
    "defvar foo = 1;\ndefvar xs = [foo, 2, 3];\ndefvar ys = !foreach(x, xs, !add(x, 1));\ndefvar zs = !filter(x, xs, !lt(x, 3));\ndefvar s = !foldl(0, xs, acc, x, !add(acc, x));\n",
    "class Inst<list<int> ops, dag d = (ins)> { list<int> o = ops; dag g = d; }\ndef add : Inst<[1, 2], (ins foo:$a, 3:$b)>;\ndefvar c = !cond(!eq(1, 2): \"a\", true: \"b\");\n",
    "multiclass M<int x> { def _a { int v = x; } def _b : Inner<x>; }\nclass Inner<int i>;\ndefm m : M<1>;\ndefset list<Inner> S = { def e : Inner<2>; }\n",
    "foreach i = [1, 2] in { def f#i { int v = i; } }\nforeach j = 0...3 in def g#j;\nif !eq(1, 1) then { def t; } else { def e; }\nlet a = 1, b = \"s\" in { def k { int a = 0; string b = \"\"; } }\n",
    "class A { int x = 1; }\nclass B : A { int y = x; }\ndef u : B { let x = 2; }\ndefvar v = u.x;\ndefvar w = B<>.y;\nassert !eq(v, 2), \"msg\";\ndump \"text\";\n",
];
fn exercise(text: String) -> Result<(), String> {
    let t2 = text.clone();
    let r = with_timeout(20, move || {
        std::panic::catch_unwind(|| {
            let (a, ids) = analysis(&[("/main.td", &t2)]);
            let _ = a.diagnostics();
            let _ = a.document_symbol(ids[0]);
            let _ = a.folding_range(ids[0]);
            let _ = a.document_link(ids[0]);
            let len = t2.len() as u32;
            if len > 0 { let _ = a.inlay_hint(FileRange::new(ids[0], syntax::parser::TextRange::new(0.into(), len.into()))); }
            for off in (0..=t2.len()).filter(|o| t2.is_char_boundary(*o)) {
                let p = FilePosition::new(ids[0], (off as u32).into());
                let _ = a.goto_definition(p);
                let _ = a.references(p);
                let _ = a.hover(p);
                let _ = a.completion(p, None);
            }
        }).is_ok()
    });
    match r {
        Some(true) => Ok(()),
        Some(false) => Err(format!("the analysis panicked on {:?}", text)),
        None => Err(format!("the analysis did not answer within 20 s on {:?}", text)),
    }
}
#[test]
fn every_prefix_of_the_corpus_is_answered() {
    std::panic::set_hook(Box::new(|_| {}));
    for prog in CORPUS {
        // prefixes at token-ish granularity (every char boundary of the last 40 chars of each line would be too slow: step 1 over the whole text is ~500 analyses)
        for end in (0..=prog.len()).filter(|e| prog.is_char_boundary(*e)) {
            if let Err(e) = exercise(prog[..end].to_string()) { let _ = std::panic::take_hook(); panic!("WITNESS {e}"); }
        }
    }
}
