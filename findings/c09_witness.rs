//! C09 witness: a definition / reference that lies in an included file must be expressed in THAT file's line/column
//! coordinates.  Drives the real lsp::server::Server through its tower service interface.
use async_lsp::{AnyNotification, AnyRequest, ClientSocket, LspService};
use serde_json::json;
use std::time::Duration;
use tower::Service;

fn uri(p: &std::path::Path) -> String { format!("file://{}", p.display()) }

async fn run() -> Result<(), String> {
    let dir = std::env::temp_dir().join(format!("c09_witness_{}", std::process::id()));
    let _ = std::fs::remove_dir_all(&dir);
    std::fs::create_dir_all(&dir).unwrap();
    // the included file declares class Base on line 3; the root file is a single long first line
    let inc = dir.join("inc.td");
    std::fs::write(&inc, "// one\n// two\n// three\nclass Base;\nclass Mid : Base;\n").unwrap();
    let root = dir.join("root.td");
    let root_text = "include \"inc.td\"\ndef d : Base;\n";
    std::fs::write(&root, root_text).unwrap();

    let mut router = lsp::server::Server::new_router(ClientSocket::new_closed());
    let open: AnyNotification = serde_json::from_value(json!({"method": "textDocument/didOpen", "params": {"textDocument": {"uri": uri(&root), "languageId": "tablegen", "version": 1, "text": root_text}}})).unwrap();
    let _ = router.notify(open);
    tokio::time::sleep(Duration::from_millis(500)).await;
    // definition of `Base` in `def d : Base;` (line 1, character 8)
    let req: AnyRequest = serde_json::from_value(json!({"id": 1, "method": "textDocument/definition", "params": {"textDocument": {"uri": uri(&root)}, "position": {"line": 1, "character": 8}}})).unwrap();
    let resp = tokio::time::timeout(Duration::from_secs(20), router.call(req)).await.map_err(|_| "definition timed out".to_string())?.map_err(|e| format!("{e:?}"))?;
    // references of class Base, asked from its declaration... from the use in root.td (line 1, character 8): the declaration
    // site in inc.td is not a reference, the use in root.td is; ask from inc.td's point of view instead: open inc.td's symbol
    // through the root (the root file stays root.td).  References of `Base` from the use site:
    let req2: AnyRequest = serde_json::from_value(json!({"id": 2, "method": "textDocument/references", "params": {"textDocument": {"uri": uri(&root)}, "position": {"line": 1, "character": 8}, "context": {"includeDeclaration": false}}})).unwrap();
    let resp2 = tokio::time::timeout(Duration::from_secs(20), router.call(req2)).await.map_err(|_| "references timed out".to_string())?.map_err(|e| format!("{e:?}"))?;
    let _ = std::fs::remove_dir_all(&dir);
    let mut got: Vec<(String, u64, u64)> = resp2.as_array().cloned().unwrap_or_default().iter().map(|loc| {
        let u = loc["uri"].as_str().unwrap_or("").rsplit('/').next().unwrap().to_string();
        (u, loc["range"]["start"]["line"].as_u64().unwrap(), loc["range"]["start"]["character"].as_u64().unwrap())
    }).collect();
    got.sort();
    let want = vec![("inc.td".to_string(), 4, 12), ("root.td".to_string(), 1, 8)];
    if got != want { return Err(format!("references of Base: expected {want:?} (each in its own file's coordinates), got {got:?}")); }
    let target = resp.get("uri").and_then(|u| u.as_str()).unwrap_or("").to_string();
    if !target.ends_with("inc.td") { return Err(format!("definition did not land in inc.td: {resp}")); }
    let start = &resp["range"]["start"];
    // `Base` is at line 3, characters 6..10 of inc.td
    if start["line"] != 3 || start["character"] != 6 {
        return Err(format!("definition in the included file is not in that file's coordinates: expected line 3 character 6, got {resp}"));
    }
    Ok(())
}

#[test]
fn definition_in_included_file_uses_that_files_coordinates() {
    std::thread::spawn(|| { std::thread::sleep(Duration::from_secs(60)); eprintln!("WITNESS the server did not answer within 60 s (blocked main loop)"); std::process::exit(3); });
    let rt = tokio::runtime::Builder::new_multi_thread().enable_all().build().unwrap();
    let r = rt.block_on(run());
    let _ = std::fs::remove_dir_all(std::env::temp_dir().join(format!("c09_witness_{}", std::process::id())));
    if let Err(e) = r { panic!("WITNESS {e}"); }
}
