//! C08 (not claimed by any check: schedules are outside contract-based verification) - the recorded schedule that blocked the real server:
//! a second notification arrives while the diagnostics task spawned by the first one is still running.  Kept as the demonstration for
//! the `fix:` commit that reorders Server::set_file_content; it is not registered in MANIFEST.json.
use async_lsp::{AnyNotification, AnyRequest, ClientSocket, LspService};
use serde_json::json;
use std::time::Duration;
use tower::Service;

fn open(u: &str, text: &str) -> AnyNotification {
    serde_json::from_value(json!({"method": "textDocument/didOpen", "params": {"textDocument": {"uri": u, "languageId": "tablegen", "version": 1, "text": text}}})).unwrap()
}
fn change(u: &str, text: &str, v: i32) -> AnyNotification {
    serde_json::from_value(json!({"method": "textDocument/didChange", "params": {"textDocument": {"uri": u, "version": v}, "contentChanges": [{"text": text}]}})).unwrap()
}
async fn run() -> Result<(), String> {
    let dir = std::env::temp_dir().join(format!("c08_burst_{}", std::process::id()));
    let _ = std::fs::remove_dir_all(&dir);
    std::fs::create_dir_all(&dir).unwrap();
    let root = dir.join("root.td");
    // a root that keeps the diagnostics task busy for a while
    let mut text = String::new();
    for i in 0..3000 { text.push_str(&format!("class C{i}<int a, int b> {{ int x = a; int y = b; }}\ndef d{i} : C{i}<{i}, 2>;\n")); }
    std::fs::write(&root, &text).unwrap();
    let u = format!("file://{}", root.display());
    let mut router = lsp::server::Server::new_router(ClientSocket::new_closed());
    let _ = router.notify(open(&u, &text));
    for v in 2..12 {
        // no pause: the next notification reaches the main loop while the diagnostics task of the previous one holds its snapshot
        let _ = router.notify(change(&u, &format!("{text}class Extra{v};\n"), v));
    }
    let req: AnyRequest = serde_json::from_value(json!({"id": 1, "method": "textDocument/documentSymbol", "params": {"textDocument": {"uri": u}}})).unwrap();
    let r = tokio::time::timeout(Duration::from_secs(60), router.call(req)).await.map_err(|_| "documentSymbol timed out".to_string())?.map_err(|e| format!("{e:?}"))?;
    let _ = std::fs::remove_dir_all(&dir);
    let n = r.as_array().map(|a| a.len()).unwrap_or(0);
    if n != 6000 + 1 { return Err(format!("expected 6001 symbols after the last change, got {n}")); }
    Ok(())
}
#[test]
fn a_burst_of_changes_does_not_block_the_main_loop() {
    std::thread::spawn(|| { std::thread::sleep(Duration::from_secs(90)); eprintln!("WITNESS the server did not answer within 90 s after a burst of 10 didChange notifications (main loop blocked: it holds the file-table write lock and waits for the snapshot of a diagnostics task that waits for the file-table read lock)"); std::process::exit(3); });
    let rt = tokio::runtime::Builder::new_multi_thread().enable_all().build().unwrap();
    if let Err(e) = rt.block_on(run()) { panic!("WITNESS {e}"); }
}
