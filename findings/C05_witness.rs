use ide::file_system::FilePosition;
use verifharness::analysis;

/// `multiclass M { def D : C; }` (no template arguments): the body must be indexed, i.e. the reference to C resolves
#[test]
fn multiclass_without_template_args_is_indexed() {
    let text = "class C;\nmulticlass M { def D : C; }\n";
    let (a, ids) = analysis(&[("/main.td", text)]);
    let off = text.rfind('C').unwrap() as u32;
    let def = a.goto_definition(FilePosition::new(ids[0], off.into()));
    assert!(def.is_some(), "use of C inside the multiclass body does not resolve: body was not indexed");
}
/// the Multiclass scope must not leak: a defm after it must not be treated as part of the multiclass
#[test]
fn multiclass_scope_does_not_leak() {
    let text = "multiclass M { def D; }\nclass Z;\ndef X { int f = undefined_name; }\n";
    let (a, ids) = analysis(&[("/main.td", text)]);
    let d = a.diagnostics();
    let n = d.get(&ids[0]).map(|v| v.len()).unwrap_or(0);
    assert!(n >= 1, "expected a `symbol not found` diagnostic");
}
