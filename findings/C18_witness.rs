//! C18 (folding half) recorded inputs: one folding range per class / def / defset / foreach / if / let / multiclass statement,
//! from the statement's first token to its last non-trivia token; ranges pairwise nested or disjoint.
use verifharness::analysis;

fn folds(text: &str) -> Vec<(usize, usize)> {
    let (a, ids) = analysis(&[("/main.td", text)]);
    let mut v: Vec<(usize, usize)> = a.folding_range(ids[0]).unwrap_or_default().iter().map(|f| (usize::from(f.range.start()), usize::from(f.range.end()))).collect();
    v.sort();
    v
}
fn span(text: &str, from: &str, to_incl: &str) -> (usize, usize) {
    let s = text.find(from).unwrap();
    let e = text[s..].find(to_incl).unwrap() + s + to_incl.len();
    (s, e)
}
#[test]
fn every_block_statement_kind_folds_once() {
    let t = "class C { int a; }   // c\n\ndef d : C;\ndefset list<C> S = { def e : C; }\nforeach i = [1] in { def f#i; }\nif 1 then { def g; } else { def h; }\nlet a = 1 in { def k; }\nmulticlass M { def m; }\ndefm n : M;\ndefvar v = 1;\n";
    let got = folds(t);
    let mut want = vec![
        span(t, "class C", "}"), span(t, "def d", ";"), span(t, "defset", "}"), span(t, "def e", ";"), span(t, "foreach", "}"), span(t, "def f", ";"),
        span(t, "if 1", "{ def h; }"), span(t, "def g", ";"), span(t, "def h", ";"), span(t, "let a", "}"), span(t, "def k", ";"), span(t, "multiclass", "}"), span(t, "def m", ";"),
    ];
    want.sort();
    assert_eq!(got, want, "WITNESS folding ranges of {t:?}");
}
#[test]
fn trailing_trivia_is_excluded_and_ranges_nest() {
    let t = "class A {\n  int x;\n}   /* tail */ // more\n\n\nclass B;\n";
    let got = folds(t);
    assert_eq!(got, vec![span(t, "class A", "}"), span(t, "class B", ";")], "WITNESS folding ranges of {t:?}");
    for (i, a) in got.iter().enumerate() { for b in &got[i + 1..] {
        let nested = (a.0 <= b.0 && b.1 <= a.1) || (b.0 <= a.0 && a.1 <= b.1);
        let disjoint = a.1 <= b.0 || b.1 <= a.0;
        assert!(nested || disjoint, "WITNESS folding ranges {a:?} and {b:?} of {t:?} overlap");
    } }
}
