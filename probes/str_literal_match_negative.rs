use vstd::prelude::*;
use vstd::string::*;
verus!{
#[derive(Clone, Copy, PartialEq, Eq, Structural)]
pub enum K { Add, And, Id, Error }
fn kw2(ident: &str) -> (r: K)
    ensures
        ident == "and" ==> r == K::Add,
{
    match ident {
        "add" => K::Add,
        "and" => K::And,
        _ => K::Id,
    }
}
fn kw4(ident: &str) -> (r: K)
    ensures
        ident == "and" ==> r == K::And,
{
    match ident {
        "add" => K::Add,
        "an" => K::And,
        _ => K::Id,
    }
}
proof fn d2() ensures "add" != "and" {}
proof fn d3() ensures "add" == "and" {}
}
fn main(){}
