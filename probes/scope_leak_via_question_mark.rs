use vstd::prelude::*;
verus!{
#[verifier::external_trait_specification]
pub trait ExDb { type ExternalTraitSpecificationFor: Db; fn q(&self, x: u32) -> u32; }

pub struct Scopes { pub v: Vec<u32> }
impl Scopes {
    pub fn push(&mut self, k: u32) ensures final(self).v@ == old(self).v@.push(k) { self.v.push(k); }
    pub fn pop(&mut self) -> (r: u32)
        requires old(self).v@.len() > 0
        ensures final(self).v@ == old(self).v@.drop_last()
    { self.v.pop().expect("scope is empty") }
}
pub struct IndexCtx<'a> {
    pub db: &'a dyn Db,
    pub scopes: Scopes,
}
pub trait Indexable {
    type Output;
    spec fn pre(&self, ctx: &IndexCtx) -> bool;
    fn index(&self, ctx: &mut IndexCtx) -> (r: Option<Self::Output>)
        requires self.pre(old(ctx))
        ensures final(ctx).scopes.v@ == old(ctx).scopes.v@;
}
pub struct A { pub x: Option<B> }
pub struct B {}
impl Indexable for B {
    type Output = ();
    open spec fn pre(&self, ctx: &IndexCtx) -> bool { ctx.scopes.v@.len() > 0 }
    fn index(&self, ctx: &mut IndexCtx) -> (r: Option<()>) {
        let n = ctx.db.q(3);
        None
    }
}
#[verifier::external_body]
fn get(a: &A) -> Option<&B> { a.x.as_ref() }

impl Indexable for A {
    type Output = ();
    open spec fn pre(&self, ctx: &IndexCtx) -> bool { true }
    fn index(&self, ctx: &mut IndexCtx) -> (r: Option<()>) {
        ctx.scopes.push(1);
        get(self)?.index(ctx);
        ctx.scopes.pop();
        None
    }
}
}
pub trait Db { fn q(&self, x: u32) -> u32; }
fn main(){}
