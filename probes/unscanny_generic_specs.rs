use vstd::prelude::*;
use unscanny::Scanner;
verus!{
#[verifier::external_type_specification]
#[verifier::external_body]
pub struct ExScanner<'a>(Scanner<'a>);

pub uninterp spec fn sc_src(s: &Scanner) -> Seq<char>;
pub uninterp spec fn sc_ci(s: &Scanner) -> nat;
pub uninterp spec fn pat_mlen<T, P>(p: P, rest: Seq<char>) -> Option<nat>;

pub assume_specification<'a, T, P: unscanny::Pattern<T>> [Scanner::<'a>::eat_if::<T>] (s: &mut Scanner<'a>, pat: P) -> (r: bool)
    ensures sc_src(final(s)) == sc_src(old(s)),
        match pat_mlen::<T,P>(pat, sc_src(old(s)).subrange(sc_ci(old(s)) as int, sc_src(old(s)).len() as int)) {
            Some(n) => r && sc_ci(final(s)) == sc_ci(old(s)) + n,
            None => !r && sc_ci(final(s)) == sc_ci(old(s)),
        };

pub assume_specification<'a> [Scanner::<'a>::eat] (s: &mut Scanner<'a>) -> (r: Option<char>)
    ensures sc_src(final(s)) == sc_src(old(s)),
        sc_ci(old(s)) < sc_src(old(s)).len() ==> r == Some(sc_src(old(s))[sc_ci(old(s)) as int]) && sc_ci(final(s)) == sc_ci(old(s)) + 1,
        sc_ci(old(s)) >= sc_src(old(s)).len() ==> r.is_none() && sc_ci(final(s)) == sc_ci(old(s));

pub assume_specification [char::is_ascii_digit] (c: &char) -> (r: bool)
    ensures r == ('0' <= *c && *c <= '9');

fn is_newline(c: char) -> (r: bool) ensures r == (c == '\r' || c == '\n') {
    matches!(c, '\r' | '\n')
}

fn t(s: &mut Scanner) -> (r: bool) {
    let a = s.eat_if('/');
    let b = s.eat_if("*/");
    let c = s.eat_if(is_newline);
    let d = s.eat_if(char::is_ascii_digit);
    let e = s.eat_if(|c| matches!(c, '0' | '1'));
    a
}
broadcast axiom fn ax_pat_char(p: char, rest: Seq<char>)
    ensures #[trigger] pat_mlen::<(), char>(p, rest) == (if rest.len() > 0 && rest[0] == p { Some(1nat) } else { None::<nat> });

fn t2(s: &mut Scanner) -> (r: bool)
    requires sc_ci(old(s)) < sc_src(old(s)).len(), sc_src(old(s))[sc_ci(old(s)) as int] == '/'
    ensures r, sc_ci(final(s)) == sc_ci(old(s)) + 1
{
    broadcast use ax_pat_char;
    assert(sc_src(old(s)).subrange(sc_ci(old(s)) as int, sc_src(old(s)).len() as int)[0] == '/');
    s.eat_if('/')
}
}
fn main(){}
