#![allow(unused_imports)]
#[macro_export]
#[allow(non_snake_case)]
macro_rules! T {
    [-] => {$crate::token_kind::TokenKind::Minus};
    [+] => {$crate::token_kind::TokenKind::Plus};
    ['['] => {$crate::token_kind::TokenKind::LSquare};
    [']'] => {$crate::token_kind::TokenKind::RSquare};
    ['{'] => {$crate::token_kind::TokenKind::LBrace};
    ['}'] => {$crate::token_kind::TokenKind::RBrace};
    ['('] => {$crate::token_kind::TokenKind::LParen};
    [')'] => {$crate::token_kind::TokenKind::RParen};
    [<] => {$crate::token_kind::TokenKind::Less};
    [>] => {$crate::token_kind::TokenKind::Greater};
    [:] => {$crate::token_kind::TokenKind::Colon};
    [;] => {$crate::token_kind::TokenKind::Semi};
    [,] => {$crate::token_kind::TokenKind::Comma};
    [.] => {$crate::token_kind::TokenKind::Dot};
    [=] => {$crate::token_kind::TokenKind::Equal};
    [?] => {$crate::token_kind::TokenKind::Question};
    [#] => {$crate::token_kind::TokenKind::Paste};
    [...] => {$crate::token_kind::TokenKind::DotDotDot};

    [assert] => {$crate::token_kind::TokenKind::Assert};
    [bit] => {$crate::token_kind::TokenKind::Bit};
    [bits] => {$crate::token_kind::TokenKind::Bits};
    [class] => {$crate::token_kind::TokenKind::Class};
    [code] => {$crate::token_kind::TokenKind::Code};
    [dag] => {$crate::token_kind::TokenKind::Dag};
    [def] => {$crate::token_kind::TokenKind::Def};
    [defm] => {$crate::token_kind::TokenKind::Defm};
    [defset] => {$crate::token_kind::TokenKind::Defset};
    [defvar] => {$crate::token_kind::TokenKind::Defvar};
    [dump] => {$crate::token_kind::TokenKind::Dump};
    [else] => {$crate::token_kind::TokenKind::ElseKw};
    [field] => {$crate::token_kind::TokenKind::Field};
    [foreach] => {$crate::token_kind::TokenKind::Foreach};
    [if] => {$crate::token_kind::TokenKind::If};
    [in] => {$crate::token_kind::TokenKind::In};
    [include] => {$crate::token_kind::TokenKind::Include};
    [int] => {$crate::token_kind::TokenKind::Int};
    [let] => {$crate::token_kind::TokenKind::Let};
    [list] => {$crate::token_kind::TokenKind::List};
    [multiclass] => {$crate::token_kind::TokenKind::MultiClass};
    [string] => {$crate::token_kind::TokenKind::String};
    [then] => {$crate::token_kind::TokenKind::Then};

    [!add] => {$crate::token_kind::TokenKind::XAdd};
    [!and] => {$crate::token_kind::TokenKind::XAnd};
    [!cast] => {$crate::token_kind::TokenKind::XCast};
    [!con] => {$crate::token_kind::TokenKind::XCon};
    [!cond] => {$crate::token_kind::TokenKind::XCond};
    [!dag] => {$crate::token_kind::TokenKind::XDag};
    [!div] => {$crate::token_kind::TokenKind::XDiv};
    [!empty] => {$crate::token_kind::TokenKind::XEmpty};
    [!eq] => {$crate::token_kind::TokenKind::XEq};
    [!exists] => {$crate::token_kind::TokenKind::XExists};
    [!filter] => {$crate::token_kind::TokenKind::XFilter};
    [!find] => {$crate::token_kind::TokenKind::XFind};
    [!foldl] => {$crate::token_kind::TokenKind::XFoldl};
    [!foreach] => {$crate::token_kind::TokenKind::XForEach};
    [!ge] => {$crate::token_kind::TokenKind::XGe};
    [!getdagarg] => {$crate::token_kind::TokenKind::XGetDagArg};
    [!getdagname] => {$crate::token_kind::TokenKind::XGetDagName};
    [!getdagop] => {$crate::token_kind::TokenKind::XGetDagOp};
    [!gt] => {$crate::token_kind::TokenKind::XGt};
    [!head] => {$crate::token_kind::TokenKind::XHead};
    [!if] => {$crate::token_kind::TokenKind::XIf};
    [!initialized] => {$crate::token_kind::TokenKind::XInitialized};
    [!interleave] => {$crate::token_kind::TokenKind::XInterleave};
    [!isa] => {$crate::token_kind::TokenKind::XIsA};
    [!le] => {$crate::token_kind::TokenKind::XLe};
    [!listconcat] => {$crate::token_kind::TokenKind::XListConcat};
    [!listflatten] => {$crate::token_kind::TokenKind::XListFlatten};
    [!listremove] => {$crate::token_kind::TokenKind::XListRemove};
    [!listsplat] => {$crate::token_kind::TokenKind::XListSplat};
    [!log2] => {$crate::token_kind::TokenKind::XLog2};
    [!lt] => {$crate::token_kind::TokenKind::XLt};
    [!mul] => {$crate::token_kind::TokenKind::XMul};
    [!ne] => {$crate::token_kind::TokenKind::XNe};
    [!not] => {$crate::token_kind::TokenKind::XNot};
    [!or] => {$crate::token_kind::TokenKind::XOr};
    [!range] => {$crate::token_kind::TokenKind::XRange};
    [!repr] => {$crate::token_kind::TokenKind::XRepr};
    [!setdagarg] => {$crate::token_kind::TokenKind::XSetDagArg};
    [!setdagname] => {$crate::token_kind::TokenKind::XSetDagName};
    [!setdagop] => {$crate::token_kind::TokenKind::XSetDagOp};
    [!shl] => {$crate::token_kind::TokenKind::XShl};
    [!size] => {$crate::token_kind::TokenKind::XSize};
    [!sra] => {$crate::token_kind::TokenKind::XSra};
    [!srl] => {$crate::token_kind::TokenKind::XSrl};
    [!strconcat] => {$crate::token_kind::TokenKind::XStrConcat};
    [!sub] => {$crate::token_kind::TokenKind::XSub};
    [!subst] => {$crate::token_kind::TokenKind::XSubst};
    [!substr] => {$crate::token_kind::TokenKind::XSubstr};
    [!tail] => {$crate::token_kind::TokenKind::XTail};
    [!tolower] => {$crate::token_kind::TokenKind::XToLower};
    [!toupper] => {$crate::token_kind::TokenKind::XToUpper};
    [!xor] => {$crate::token_kind::TokenKind::XXor};

    [true] => {$crate::token_kind::TokenKind::TrueVal};
    [false] => {$crate::token_kind::TokenKind::FalseVal};

    [#ifdef] => {$crate::token_kind::TokenKind::Ifdef};
    [#ifndef] => {$crate::token_kind::TokenKind::Ifndef};
    [#else] => {$crate::token_kind::TokenKind::Else};
    [#endif] => {$crate::token_kind::TokenKind::Endif};
    [#define] => {$crate::token_kind::TokenKind::Define};
}
use vstd::prelude::*;
pub mod prelude {
use vstd::prelude::*;
pub use unscanny::Scanner;
pub use ecow::EcoString;
verus!{
#[verifier::external_type_specification] #[verifier::external_body] pub struct ExEcoString(EcoString);
#[verifier::external_type_specification] #[verifier::external_body] pub struct ExScanner<'a>(Scanner<'a>);

pub uninterp spec fn sc_src(s: &Scanner) -> Seq<char>;
pub uninterp spec fn sc_ci(s: &Scanner) -> nat;
pub uninterp spec fn u8len(c: char) -> nat;
pub uninterp spec fn enc(s: Seq<char>) -> Seq<u8>;
pub broadcast axiom fn ax_u8len(c: char) ensures 1 <= #[trigger] u8len(c) <= 4;

pub open spec fn boff(s: Seq<char>, i: nat) -> nat
    decreases i
{
    if i == 0 || i > s.len() { 0 } else { boff(s, (i - 1) as nat) + u8len(s[i - 1]) }
}
pub open spec fn is_boundary(s: Seq<char>, b: nat) -> bool { exists|j: nat| j <= s.len() && #[trigger] boff(s, j) == b }

pub proof fn lemma_boff_step(s: Seq<char>, i: nat)
    requires i < s.len()
    ensures boff(s, i + 1) == boff(s, i) + u8len(s[i as int]), boff(s, i + 1) > boff(s, i)
{ broadcast use ax_u8len; }

pub proof fn lemma_boff_mono(s: Seq<char>)
    ensures forall|i: nat, j: nat| i <= j <= s.len() ==> #[trigger] boff(s, i) <= #[trigger] boff(s, j),
            forall|i: nat, j: nat| i < j <= s.len() ==> #[trigger] boff(s, i) < #[trigger] boff(s, j),
{
    assert forall|i: nat, j: nat| i <= j <= s.len() implies #[trigger] boff(s, i) <= #[trigger] boff(s, j) by { lemma_mono_ind(s, i, j); }
    assert forall|i: nat, j: nat| i < j <= s.len() implies #[trigger] boff(s, i) < #[trigger] boff(s, j) by { lemma_mono_ind(s, i + 1, j); lemma_boff_step(s, i); }
}
pub proof fn lemma_mono_ind(s: Seq<char>, i: nat, j: nat)
    requires i <= j <= s.len()
    ensures boff(s, i) <= boff(s, j)
    decreases j - i
{
    if i < j { lemma_mono_ind(s, i, (j - 1) as nat); lemma_boff_step(s, (j - 1) as nat); }
}
pub axiom fn lemma_enc_len(s: Seq<char>) ensures enc(s).len() == boff(s, s.len());

// ---- pattern semantics (trusted, one axiom group per pattern type)
pub uninterp spec fn pat_mlen<T, P>(p: P, rest: Seq<char>) -> Option<nat>;
pub uninterp spec fn pat_yes<T, P>(p: P, c: char) -> bool;
pub uninterp spec fn pat_no<T, P>(p: P, c: char) -> bool;

pub broadcast axiom fn ax_pat_char(p: char, rest: Seq<char>)
    ensures #[trigger] pat_mlen::<(), char>(p, rest) == (if rest.len() > 0 && rest[0] == p { Some(1nat) } else { None::<nat> });
pub broadcast axiom fn ax_pat_str(p: &str, rest: Seq<char>)
    ensures #[trigger] pat_mlen::<(), &str>(p, rest) == (if p@.len() <= rest.len() && rest.subrange(0, p@.len() as int) == p@ { Some(p@.len()) } else { None::<nat> });
pub broadcast axiom fn ax_pat_fn<F: FnMut(char) -> bool>(p: F, rest: Seq<char>)
    ensures #[trigger] pat_mlen::<char, F>(p, rest) == (if rest.len() > 0 && p.ensures((rest[0],), true) { Some(1nat) } else { None::<nat> });
pub broadcast axiom fn ax_yes_fn<F: FnMut(char) -> bool>(p: F, c: char)
    ensures #[trigger] pat_yes::<char, F>(p, c) == p.ensures((c,), true);
pub broadcast axiom fn ax_no_fn<F: FnMut(char) -> bool>(p: F, c: char)
    ensures #[trigger] pat_no::<char, F>(p, c) == p.ensures((c,), false);
pub broadcast axiom fn ax_yes_fnref<F: FnMut(&char) -> bool>(p: F, c: char)
    ensures #[trigger] pat_yes::<&char, F>(p, c) == p.ensures((&c,), true);
pub broadcast axiom fn ax_no_fnref<F: FnMut(&char) -> bool>(p: F, c: char)
    ensures #[trigger] pat_no::<&char, F>(p, c) == p.ensures((&c,), false);

pub open spec fn rest(s: &Scanner) -> Seq<char> { sc_src(s).subrange(sc_ci(s) as int, sc_src(s).len() as int) }

pub assume_specification<'a> [Scanner::<'a>::new] (string: &'a str) -> (s: Scanner<'a>)
    ensures sc_src(&s) == string@, sc_ci(&s) == 0;
pub assume_specification<'a> [Scanner::<'a>::cursor] (s: &Scanner<'a>) -> (r: usize)
    ensures r == boff(sc_src(s), sc_ci(s));
pub assume_specification<'a> [Scanner::<'a>::peek] (s: &Scanner<'a>) -> (r: Option<char>)
    ensures sc_ci(s) < sc_src(s).len() ==> r == Some(sc_src(s)[sc_ci(s) as int]),
            sc_ci(s) >= sc_src(s).len() ==> r.is_none();
pub assume_specification<'a> [Scanner::<'a>::eat] (s: &mut Scanner<'a>) -> (r: Option<char>)
    ensures sc_src(final(s)) == sc_src(old(s)),
        sc_ci(old(s)) < sc_src(old(s)).len() ==> r == Some(sc_src(old(s))[sc_ci(old(s)) as int]) && sc_ci(final(s)) == sc_ci(old(s)) + 1,
        sc_ci(old(s)) >= sc_src(old(s)).len() ==> r.is_none() && sc_ci(final(s)) == sc_ci(old(s));
pub assume_specification<'a, T, P: unscanny::Pattern<T>> [Scanner::<'a>::eat_if::<T>] (s: &mut Scanner<'a>, pat: P) -> (r: bool)
    ensures sc_src(final(s)) == sc_src(old(s)),
        match pat_mlen::<T, P>(pat, rest(old(s))) {
            Some(n) => r && sc_ci(final(s)) == sc_ci(old(s)) + n && sc_ci(final(s)) <= sc_src(old(s)).len(),
            None => !r && sc_ci(final(s)) == sc_ci(old(s)),
        };
pub assume_specification<'a, T, P: unscanny::Pattern<T>> [Scanner::<'a>::eat_while::<T>] (s: &mut Scanner<'a>, pat: P) -> (r: &'a str)
    ensures sc_src(final(s)) == sc_src(old(s)),
        sc_ci(old(s)) <= sc_ci(final(s)) <= sc_src(old(s)).len() || sc_ci(old(s)) > sc_src(old(s)).len(),
        forall|k: int| sc_ci(old(s)) <= k < sc_ci(final(s)) ==> pat_yes::<T, P>(pat, #[trigger] sc_src(old(s))[k]),
        sc_ci(final(s)) < sc_src(old(s)).len() ==> pat_no::<T, P>(pat, sc_src(old(s))[sc_ci(final(s)) as int]);
pub assume_specification<'a, T, P: unscanny::Pattern<T>> [Scanner::<'a>::eat_until::<T>] (s: &mut Scanner<'a>, pat: P) -> (r: &'a str)
    ensures sc_src(final(s)) == sc_src(old(s)),
        sc_ci(old(s)) <= sc_ci(final(s)) <= sc_src(old(s)).len() || sc_ci(old(s)) > sc_src(old(s)).len();
pub assume_specification<'a> [Scanner::<'a>::jump] (s: &mut Scanner<'a>, target: usize)
    ensures sc_src(final(s)) == sc_src(old(s)),
        forall|j: nat| j <= sc_src(old(s)).len() && boff(sc_src(old(s)), j) == target ==> sc_ci(final(s)) == j;
pub assume_specification<'a> [Scanner::<'a>::from] (s: &Scanner<'a>, start: usize) -> (r: &'a str)
    ensures forall|j: nat| j <= sc_ci(s) && sc_ci(s) <= sc_src(s).len() && boff(sc_src(s), j) == start ==> r@ == sc_src(s).subrange(j as int, sc_ci(s) as int);
pub assume_specification<'a> [Scanner::<'a>::get] (s: &Scanner<'a>, range: core::ops::Range<usize>) -> (r: &'a str);

pub assume_specification [char::is_ascii_digit] (c: &char) -> (r: bool) ensures r == ('0' <= *c && *c <= '9');
pub assume_specification [char::is_ascii_hexdigit] (c: &char) -> (r: bool);
pub assume_specification [char::is_ascii_alphabetic] (c: &char) -> (r: bool) ensures r == (('a' <= *c && *c <= 'z') || ('A' <= *c && *c <= 'Z'));
pub assume_specification [char::is_ascii_alphanumeric] (c: &char) -> (r: bool) ensures r == (('a' <= *c && *c <= 'z') || ('A' <= *c && *c <= 'Z') || ('0' <= *c && *c <= '9'));
pub assume_specification [char::is_ascii_whitespace] (c: &char) -> (r: bool);
pub assume_specification [char::is_alphabetic] (c: char) -> (r: bool);

// ---- reference token language (C14), sample: identifier characters
pub open spec fn is_ident_start(c: char) -> bool { ('a' <= c && c <= 'z') || ('A' <= c && c <= 'Z') || c == '_' }
pub open spec fn is_ident_cont(c: char) -> bool { is_ident_start(c) || ('0' <= c && c <= '9') }
/// j is where the maximal run of identifier characters starting at i ends
pub open spec fn run_end(s: Seq<char>, i: nat, j: nat) -> bool {
    i <= j <= s.len() && (forall|k: int| i <= k < j ==> is_ident_cont(#[trigger] s[k])) && (j < s.len() ==> !is_ident_cont(s[j as int]))
}
}
}

verus!{
pub mod token_kind {
use vstd::prelude::*;
#[derive(Debug, Clone, Copy, PartialEq, Eq, PartialOrd, Ord, Hash)]
pub enum TokenKind {
    // Markers
    Eof,
    Whitespace,
    LineComment,
    BlockComment,
    Error,
    PreProcessor,

    // Symbols
    Minus,
    Plus,
    LSquare,
    RSquare,
    LBrace,
    RBrace,
    LParen,
    RParen,
    Less,
    Greater,
    Colon,
    Semi,
    Comma,
    Dot,
    Equal,
    Question,
    Paste,
    DotDotDot,

    // Keywords
    Assert,
    Bit,
    Bits,
    Class,
    Code,
    Dag,
    Def,
    Defm,
    Defset,
    Defvar,
    Dump,
    ElseKw,
    Field,
    Foreach,
    If,
    In,
    Include,
    Int,
    Let,
    List,
    MultiClass,
    String,
    Then,

    // Bang operators
    XAdd,
    XAnd,
    XCast,
    XCon,
    XCond,
    XDag,
    XDiv,
    XEmpty,
    XEq,
    XExists,
    XFilter,
    XFind,
    XFoldl,
    XForEach,
    XGe,
    XGetDagArg,
    XGetDagName,
    XGetDagOp,
    XGt,
    XHead,
    XIf,
    XInitialized,
    XInterleave,
    XIsA,
    XLe,
    XListConcat,
    XListFlatten,
    XListRemove,
    XListSplat,
    XLog2,
    XLt,
    XMul,
    XNe,
    XNot,
    XOr,
    XRange,
    XRepr,
    XSetDagArg,
    XSetDagName,
    XSetDagOp,
    XShl,
    XSize,
    XSra,
    XSrl,
    XStrConcat,
    XSub,
    XSubst,
    XSubstr,
    XTail,
    XToLower,
    XToUpper,
    XXor,

    // Literals
    TrueVal,
    FalseVal,

    IntVal,
    BinaryIntVal,

    // Strings
    Id,
    StrVal,
    VarName,
    CodeFragment,

    // Preprocessor tokens
    Ifdef,
    Ifndef,
    Else,
    Endif,
    Define,
}

pub assume_specification [<TokenKind as core::cmp::PartialEq>::eq] (a: &TokenKind, b: &TokenKind) -> (r: bool) ensures r == (*a == *b);

impl TokenKind {
    pub open spec fn spec_is_trivia(&self) -> bool { *self == TokenKind::Whitespace || *self == TokenKind::LineComment || *self == TokenKind::BlockComment || *self == TokenKind::PreProcessor }

    pub fn is_trivia(&self) -> (ret: bool)
        ensures ret == self.spec_is_trivia()
    {
        matches!(
            self,
            Self::Whitespace | Self::LineComment | Self::BlockComment | Self::PreProcessor
        )
    }

    pub fn is_bang_operator(&self) -> bool {
        matches!(
            self,
            Self::XAdd
                | Self::XAnd
                | Self::XCast
                | Self::XCon
                | Self::XDag
                | Self::XDiv
                | Self::XEmpty
                | Self::XEq
                | Self::XExists
                | Self::XFilter
                | Self::XFind
                | Self::XFoldl
                | Self::XForEach
                | Self::XGe
                | Self::XGetDagArg
                | Self::XGetDagName
                | Self::XGetDagOp
                | Self::XGt
                | Self::XHead
                | Self::XIf
                | Self::XInitialized
                | Self::XInterleave
                | Self::XIsA
                | Self::XLe
                | Self::XListConcat
                | Self::XListFlatten
                | Self::XListRemove
                | Self::XListSplat
                | Self::XLog2
                | Self::XLt
                | Self::XMul
                | Self::XNe
                | Self::XNot
                | Self::XOr
                | Self::XRange
                | Self::XRepr
                | Self::XSetDagArg
                | Self::XSetDagName
                | Self::XSetDagOp
                | Self::XShl
                | Self::XSize
                | Self::XSra
                | Self::XSrl
                | Self::XStrConcat
                | Self::XSub
                | Self::XSubst
                | Self::XSubstr
                | Self::XTail
                | Self::XToLower
                | Self::XToUpper
                | Self::XXor
        )
    }

    pub fn is_cond_operator(&self) -> bool {
        matches!(self, Self::XCond)
    }
}



}
pub mod token_stream {
use vstd::prelude::*;
use std::ops::Range;

use ecow::EcoString;

use crate::token_kind::TokenKind;
use crate::prelude::*;

pub trait TokenStream {
    spec fn wf(&self) -> bool;
    spec fn srcb(&self) -> Seq<u8>;
    spec fn pos(&self) -> nat;
    spec fn has_error(&self) -> bool;

    fn eat(&mut self) -> (ret: TokenKind)
        requires old(self).wf()
        ensures final(self).wf(), final(self).srcb() == old(self).srcb(),
            old(self).pos() <= final(self).pos() <= final(self).srcb().len(),
            ret != TokenKind::Eof ==> final(self).pos() > old(self).pos(),
            ret == TokenKind::Eof ==> final(self).pos() == final(self).srcb().len() && old(self).pos() == final(self).pos(),
            ret == TokenKind::Error ==> final(self).has_error();

    fn cursor(&self) -> (ret: usize)
        requires self.wf()
        ensures ret == self.pos(), self.pos() <= self.srcb().len();

    fn text(&self, range: Range<usize>) -> (ret: &str)
        requires self.wf();

    fn take_error(&mut self) -> (ret: Option<EcoString>)
        requires old(self).wf()
        ensures final(self).wf(), final(self).srcb() == old(self).srcb(), final(self).pos() == old(self).pos(), old(self).has_error() ==> ret.is_some();
}

}
pub mod lexer {
use vstd::prelude::*;
use std::ops::Range;

use ecow::EcoString;
use unscanny::Scanner;

use crate::token_stream::TokenStream;
use crate::{token_kind::TokenKind, T};
use crate::prelude::*;
broadcast use {ax_pat_char, ax_pat_str, ax_pat_fn, ax_yes_fn, ax_no_fn, ax_yes_fnref, ax_no_fnref, ax_u8len};

#[derive(Debug)]
pub struct Lexer<'a> {
    s: Scanner<'a>,
    error: Option<EcoString>,
}

impl<'a> Lexer<'a> {
    pub closed spec fn src(&self) -> Seq<char> { sc_src(&self.s) }
    pub closed spec fn ci(&self) -> nat { sc_ci(&self.s) }
    pub closed spec fn err(&self) -> bool { self.error.is_some() }
    pub open spec fn lwf(&self) -> bool { self.ci() <= self.src().len() }
    /// helper contract shared by all token sub-scanners: called after >= 1 char was eaten
    pub open spec fn adv(&self, o: &Self) -> bool {
        self.src() == o.src() && o.ci() <= self.ci() <= self.src().len()
    }
}

impl<'a> TokenStream for Lexer<'a> {
    closed spec fn wf(&self) -> bool { self.lwf() }
    closed spec fn srcb(&self) -> Seq<u8> { enc(self.src()) }
    closed spec fn pos(&self) -> nat { boff(self.src(), self.ci()) }
    closed spec fn has_error(&self) -> bool { self.err() }

    fn eat(&mut self) -> (ret: TokenKind) {
        proof { lemma_boff_mono(self.src()); lemma_enc_len(self.src()); }
        self.next_token()
    }

    fn cursor(&self) -> (ret: usize) {
        proof { lemma_boff_mono(self.src()); lemma_enc_len(self.src()); }
        self.s.cursor()
    }

    #[verifier::external_body]
    fn text(&self, range: Range<usize>) -> (ret: &str) {
        self.s.get(range)
    }

    fn take_error(&mut self) -> (ret: Option<EcoString>) {
        self.error.take()
    }
}

impl<'a> Lexer<'a> {
    pub fn new(text: &'a str) -> (ret: Self)
        ensures ret.src() == text@, ret.ci() == 0, !ret.err()
    {
        Self {
            s: Scanner::new(text),
            error: None,
        }
    }

    fn error(&mut self, msg: impl Into<EcoString>) -> (ret: TokenKind)
        ensures ret == TokenKind::Error, final(self).err(), final(self).s == old(self).s
    {
        self.error = Some(msg.into());
        TokenKind::Error
    }

    fn next_token(&mut self) -> (ret: TokenKind)
        requires old(self).lwf()
        ensures final(self).adv(old(self)),
            ret != TokenKind::Eof ==> final(self).ci() > old(self).ci(),
            ret == TokenKind::Eof ==> final(self).ci() == old(self).ci() && old(self).ci() == old(self).src().len(),
            ret == TokenKind::Error ==> final(self).err(),
            // C14 sample clause: identifiers / keywords are maximal munch of [A-Za-z0-9_]
            old(self).ci() < old(self).src().len() && is_ident_start(old(self).src()[old(self).ci() as int]) ==>
                ret != TokenKind::Error && run_end(old(self).src(), old(self).ci() + 1, final(self).ci()),
    {
        let start = self.s.cursor();
        match self.s.eat() {
            Some(c) if c.is_whitespace() => self.whitespace(),
            Some('/') if self.s.eat_if('/') => self.line_comment(),
            Some('/') if self.s.eat_if('*') => self.block_comment(),

            Some(c) if c.is_ascii_digit() => self.number(start, c),
            Some('-') => self.number(start, '-'),
            Some('+') => self.number(start, '+'),

            Some(c) if is_identifier_start(c) => self.identifier(start),
            Some('"') => self.string(),
            Some('$') => self.var_name(),
            Some('[') if self.s.eat_if('{') => self.code_fragment(),

            Some('!') => self.bangoperator(),
            Some('#') => self.preprocessor(),

            Some('[') => T!['['],
            Some(']') => T![']'],
            Some('{') => T!['{'],
            Some('}') => T!['}'],
            Some('(') => T!['('],
            Some(')') => T![')'],
            Some('<') => T![<],
            Some('>') => T![>],
            Some(':') => T![:],
            Some(';') => T![;],
            Some(',') => T![,],
            Some('=') => T![=],
            Some('?') => T![?],
            Some('.') if self.s.eat_if('.') => {
                if self.s.eat_if('.') {
                    T![...]
                } else {
                    self.error("Invalid '..' punctuation")
                }
            }
            Some('.') => T![.],
            None => TokenKind::Eof,
            _ => self.error("Unexpected character"),
        }
    }

    fn whitespace(&mut self) -> (ret: TokenKind)
        requires old(self).lwf()
        ensures final(self).adv(old(self)), ret != TokenKind::Eof, ret == TokenKind::Whitespace
    {
        self.s.eat_while(char::is_ascii_whitespace);
        TokenKind::Whitespace
    }

    fn line_comment(&mut self) -> (ret: TokenKind)
        requires old(self).lwf()
        ensures final(self).adv(old(self)), ret != TokenKind::Eof, ret == TokenKind::LineComment
    {
        self.s.eat_until(is_newline);
        TokenKind::LineComment
    }

    fn block_comment(&mut self) -> (ret: TokenKind)
        requires old(self).lwf()
        ensures final(self).adv(old(self)), ret != TokenKind::Eof, ret == TokenKind::BlockComment
    {
        self.s.eat_until("*/");
        self.s.eat_if("*/");
        TokenKind::BlockComment
    }

    fn number(&mut self, start: usize, c: char) -> (ret: TokenKind)
        requires old(self).lwf(), is_boundary(old(self).src(), start as nat), start <= boff(old(self).src(), old(self).ci())
        ensures final(self).adv(old(self)), ret != TokenKind::Eof, ret == TokenKind::Error ==> final(self).err()
    {
        match self.s.peek() {
            Some(c2) if !c2.is_ascii_digit() => match c {
                '+' => return TokenKind::Plus,
                '-' => return TokenKind::Minus,
                _ => {}
            },
            _ => {}
        }

        let mut base = 10;
        if c == '0' {
            if self.s.eat_if('b') {
                base = 2;
            } else if self.s.eat_if('x') {
                base = 16;
            }
        }

        match base {
            2 => self.s.eat_while(|c| matches!(c, '0' | '1')),
            10 => self.s.eat_while(char::is_ascii_digit),
            16 => self.s.eat_while(char::is_ascii_hexdigit),
            _ => unreachable!(),
        };

        let number = self.s.get(start..self.s.cursor());
        if interpret_number(number).is_none() {
            match base {
                2 => return self.error("Invalid binary number"),
                10 => return self.error("Invalid number"),
                16 => return self.error("Invalid hexadecimal number"),
                _ => unreachable!(),
            }
        }

        match base {
            2 => TokenKind::BinaryIntVal,
            10 | 16 => TokenKind::IntVal,
            _ => unreachable!(),
        }
    }

    fn identifier(&mut self, start: usize) -> (ret: TokenKind)
        requires old(self).lwf(), is_boundary(old(self).src(), start as nat), start <= boff(old(self).src(), old(self).ci())
        ensures final(self).adv(old(self)), ret != TokenKind::Eof, ret != TokenKind::Error, run_end(old(self).src(), old(self).ci(), final(self).ci())
    {
        proof {
            assert forall|c: char| #[trigger] pat_yes::<char, _>(is_identifier_continue, c) implies is_ident_cont(c) by {
                ax_yes_fn(is_identifier_continue, c);
            }
            assert forall|c: char| #[trigger] pat_no::<char, _>(is_identifier_continue, c) implies !is_ident_cont(c) by {
                ax_no_fn(is_identifier_continue, c);
            }
        }
        self.s.eat_while(is_identifier_continue);
        let ident = self.s.from(start);

        match ident {
            "assert" => T![assert],
            "bit" => T![bit],
            "bits" => T![bits],
            "class" => T![class],
            "code" => T![code],
            "dag" => T![dag],
            "def" => T![def],
            "defm" => T![defm],
            "defset" => T![defset],
            "defvar" => T![defvar],
            "dump" => T![dump],
            "else" => T![else],
            "field" => T![field],
            "foreach" => T![foreach],
            "if" => T![if],
            "in" => T![in],
            "include" => T![include],
            "int" => T![int],
            "let" => T![let],
            "list" => T![list],
            "multiclass" => T![multiclass],
            "string" => T![string],
            "then" => T![then],
            "true" => T![true],
            "false" => T![false],
            _ => TokenKind::Id,
        }
    }

    fn string(&mut self) -> (ret: TokenKind)
        requires old(self).lwf()
        ensures final(self).adv(old(self)), ret != TokenKind::Eof, ret == TokenKind::Error ==> final(self).err()
    {
        let mut escaped = false;
        loop
            invariant self.adv(old(self)),
            decreases self.src().len() - self.ci(),
        {
            match self.s.eat() {
                Some('\\') => escaped = true,
                Some('"') if !escaped => break,
                Some('\r') | Some('\n') => return self.error("End of line in string literal"),
                None => return self.error("End of file in string literal"),
                _ => escaped = false,
            }
        }

        TokenKind::StrVal
    }

    fn var_name(&mut self) -> (ret: TokenKind)
        requires old(self).lwf()
        ensures final(self).adv(old(self)), ret != TokenKind::Eof, ret == TokenKind::Error ==> final(self).err()
    {
        if !self.s.eat_if(is_identifier_start) {
            return self.error("Invalid variable name");
        }
        self.s.eat_while(is_identifier_continue);
        TokenKind::VarName
    }

    fn code_fragment(&mut self) -> (ret: TokenKind)
        requires old(self).lwf()
        ensures final(self).adv(old(self)), ret != TokenKind::Eof, ret == TokenKind::Error ==> final(self).err()
    {
        self.s.eat_until("}]");
        if self.s.eat_if("}]") {
            TokenKind::CodeFragment
        } else {
            self.error("Unterminated code block")
        }
    }

    fn bangoperator(&mut self) -> (ret: TokenKind)
        requires old(self).lwf()
        ensures final(self).adv(old(self)), ret != TokenKind::Eof, ret == TokenKind::Error ==> final(self).err()
    {
        let start = self.s.cursor();
        self.s.eat_while(char::is_ascii_alphabetic);
        let ident = self.s.from(start);

        match ident {
            "add" => T![!add],
            "and" => T![!and],
            "cast" => T![!cast],
            "con" => T![!con],
            "cond" => T![!cond],
            "dag" => T![!dag],
            "div" => T![!div],
            "empty" => T![!empty],
            "eq" => T![!eq],
            "exists" => T![!exists],
            "filter" => T![!filter],
            "find" => T![!find],
            "foldl" => T![!foldl],
            "foreach" => T![!foreach],
            "ge" => T![!ge],
            "getdagarg" => T![!getdagarg],
            "getdagname" => T![!getdagname],
            "getdagop" => T![!getdagop],
            "gt" => T![!gt],
            "head" => T![!head],
            "if" => T![!if],
            "initialized" => T![!initialized],
            "interleave" => T![!interleave],
            "isa" => T![!isa],
            "le" => T![!le],
            "listconcat" => T![!listconcat],
            "listflatten" => T![!listflatten],
            "listremove" => T![!listremove],
            "listsplat" => T![!listsplat],
            "logtwo" => T![!log2],
            "lt" => T![!lt],
            "mul" => T![!mul],
            "ne" => T![!ne],
            "not" => T![!not],
            "or" => T![!or],
            "range" => T![!range],
            "repr" => T![!repr],
            "setdagarg" => T![!setdagarg],
            "setdagname" => T![!setdagname],
            "setdagop" => T![!setdagop],
            "shl" => T![!shl],
            "size" => T![!size],
            "sra" => T![!sra],
            "srl" => T![!srl],
            "strconcat" => T![!strconcat],
            "sub" => T![!sub],
            "subst" => T![!subst],
            "substr" => T![!substr],
            "tail" => T![!tail],
            "tolower" => T![!tolower],
            "toupper" => T![!toupper],
            "xor" => T![!xor],
            _ => self.error("Unknown operator"),
        }
    }

    fn preprocessor(&mut self) -> (ret: TokenKind)
        requires old(self).lwf()
        ensures final(self).adv(old(self)), ret != TokenKind::Eof, ret != TokenKind::Error
    {
        let ident_start = self.s.cursor();

        self.s.eat_while(char::is_alphabetic);
        let ident = self.s.from(ident_start);

        match ident {
            "ifdef" => T![#ifdef],
            "ifndef" => T![#ifndef],
            "else" => T![#else],
            "endif" => T![#endif],
            "define" => T![#define],
            _ => {
                self.s.jump(ident_start);
                T![#]
            }
        }
    }
}

fn is_identifier_start(c: char) -> (ret: bool)
    ensures ret == is_ident_start(c)
    {
    c.is_ascii_alphabetic() || c == '_'
}

fn is_identifier_continue(c: char) -> (ret: bool)
    ensures ret == is_ident_cont(c)
    {
    c.is_ascii_alphanumeric() || c == '_'
}

fn is_newline(c: char) -> (ret: bool)
    ensures ret == (c == '\r' || c == '\n')
    {
    matches!(c, '\r' | '\n')
}

#[verifier::external_body]
pub fn interpret_number(text: &str) -> Option<i64> {
    if let Some(rest) = text.strip_prefix("0x") {
        u64::from_str_radix(rest, 16).ok().map(|i| i as i64)
    } else if let Some(rest) = text.strip_prefix("0b") {
        u64::from_str_radix(rest, 2).ok().map(|i| i as i64)
    } else if text.starts_with('-') {
        text.parse::<i64>().ok()
    } else {
        text.parse::<u64>().ok().map(|i| i as i64)
    }
}


}
}
fn main(){}
