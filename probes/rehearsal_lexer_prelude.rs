pub mod prelude {
use vstd::prelude::*;
pub use unscanny::Scanner;
pub use ecow::EcoString;
verus!{
#[verifier::external_type_specification] #[verifier::external_body] pub struct ExEcoString(EcoString);
#[verifier::external_type_specification] #[verifier::external_body] pub struct ExScanner<'a>(Scanner<'a>);

pub uninterp spec fn sc_src(s: &Scanner) -> Seq<char>;
pub uninterp spec fn sc_ci(s: &Scanner) -> nat;
pub uninterp spec fn u8len(c: char) -> nat;
pub uninterp spec fn enc(s: Seq<char>) -> Seq<u8>;
pub broadcast axiom fn ax_u8len(c: char) ensures 1 <= #[trigger] u8len(c) <= 4;

pub open spec fn boff(s: Seq<char>, i: nat) -> nat
    decreases i
{
    if i == 0 || i > s.len() { 0 } else { boff(s, (i - 1) as nat) + u8len(s[i - 1]) }
}
pub open spec fn is_boundary(s: Seq<char>, b: nat) -> bool { exists|j: nat| j <= s.len() && #[trigger] boff(s, j) == b }

pub proof fn lemma_boff_step(s: Seq<char>, i: nat)
    requires i < s.len()
    ensures boff(s, i + 1) == boff(s, i) + u8len(s[i as int]), boff(s, i + 1) > boff(s, i)
{ broadcast use ax_u8len; }

pub proof fn lemma_boff_mono(s: Seq<char>)
    ensures forall|i: nat, j: nat| i <= j <= s.len() ==> #[trigger] boff(s, i) <= #[trigger] boff(s, j),
            forall|i: nat, j: nat| i < j <= s.len() ==> #[trigger] boff(s, i) < #[trigger] boff(s, j),
{
    assert forall|i: nat, j: nat| i <= j <= s.len() implies #[trigger] boff(s, i) <= #[trigger] boff(s, j) by { lemma_mono_ind(s, i, j); }
    assert forall|i: nat, j: nat| i < j <= s.len() implies #[trigger] boff(s, i) < #[trigger] boff(s, j) by { lemma_mono_ind(s, i + 1, j); lemma_boff_step(s, i); }
}
pub proof fn lemma_mono_ind(s: Seq<char>, i: nat, j: nat)
    requires i <= j <= s.len()
    ensures boff(s, i) <= boff(s, j)
    decreases j - i
{
    if i < j { lemma_mono_ind(s, i, (j - 1) as nat); lemma_boff_step(s, (j - 1) as nat); }
}
pub axiom fn lemma_enc_len(s: Seq<char>) ensures enc(s).len() == boff(s, s.len());

// ---- pattern semantics (trusted, one axiom group per pattern type)
pub uninterp spec fn pat_mlen<T, P>(p: P, rest: Seq<char>) -> Option<nat>;
pub uninterp spec fn pat_yes<T, P>(p: P, c: char) -> bool;
pub uninterp spec fn pat_no<T, P>(p: P, c: char) -> bool;

pub broadcast axiom fn ax_pat_char(p: char, rest: Seq<char>)
    ensures #[trigger] pat_mlen::<(), char>(p, rest) == (if rest.len() > 0 && rest[0] == p { Some(1nat) } else { None::<nat> });
pub broadcast axiom fn ax_pat_str(p: &str, rest: Seq<char>)
    ensures #[trigger] pat_mlen::<(), &str>(p, rest) == (if p@.len() <= rest.len() && rest.subrange(0, p@.len() as int) == p@ { Some(p@.len()) } else { None::<nat> });
pub broadcast axiom fn ax_pat_fn<F: FnMut(char) -> bool>(p: F, rest: Seq<char>)
    ensures #[trigger] pat_mlen::<char, F>(p, rest) == (if rest.len() > 0 && p.ensures((rest[0],), true) { Some(1nat) } else { None::<nat> });
pub broadcast axiom fn ax_yes_fn<F: FnMut(char) -> bool>(p: F, c: char)
    ensures #[trigger] pat_yes::<char, F>(p, c) == p.ensures((c,), true);
pub broadcast axiom fn ax_no_fn<F: FnMut(char) -> bool>(p: F, c: char)
    ensures #[trigger] pat_no::<char, F>(p, c) == p.ensures((c,), false);
pub broadcast axiom fn ax_yes_fnref<F: FnMut(&char) -> bool>(p: F, c: char)
    ensures #[trigger] pat_yes::<&char, F>(p, c) == p.ensures((&c,), true);
pub broadcast axiom fn ax_no_fnref<F: FnMut(&char) -> bool>(p: F, c: char)
    ensures #[trigger] pat_no::<&char, F>(p, c) == p.ensures((&c,), false);

pub open spec fn rest(s: &Scanner) -> Seq<char> { sc_src(s).subrange(sc_ci(s) as int, sc_src(s).len() as int) }

pub assume_specification<'a> [Scanner::<'a>::new] (string: &'a str) -> (s: Scanner<'a>)
    ensures sc_src(&s) == string@, sc_ci(&s) == 0;
pub assume_specification<'a> [Scanner::<'a>::cursor] (s: &Scanner<'a>) -> (r: usize)
    ensures r == boff(sc_src(s), sc_ci(s));
pub assume_specification<'a> [Scanner::<'a>::peek] (s: &Scanner<'a>) -> (r: Option<char>)
    ensures sc_ci(s) < sc_src(s).len() ==> r == Some(sc_src(s)[sc_ci(s) as int]),
            sc_ci(s) >= sc_src(s).len() ==> r.is_none();
pub assume_specification<'a> [Scanner::<'a>::eat] (s: &mut Scanner<'a>) -> (r: Option<char>)
    ensures sc_src(final(s)) == sc_src(old(s)),
        sc_ci(old(s)) < sc_src(old(s)).len() ==> r == Some(sc_src(old(s))[sc_ci(old(s)) as int]) && sc_ci(final(s)) == sc_ci(old(s)) + 1,
        sc_ci(old(s)) >= sc_src(old(s)).len() ==> r.is_none() && sc_ci(final(s)) == sc_ci(old(s));
pub assume_specification<'a, T, P: unscanny::Pattern<T>> [Scanner::<'a>::eat_if::<T>] (s: &mut Scanner<'a>, pat: P) -> (r: bool)
    ensures sc_src(final(s)) == sc_src(old(s)),
        match pat_mlen::<T, P>(pat, rest(old(s))) {
            Some(n) => r && sc_ci(final(s)) == sc_ci(old(s)) + n && sc_ci(final(s)) <= sc_src(old(s)).len(),
            None => !r && sc_ci(final(s)) == sc_ci(old(s)),
        };
pub assume_specification<'a, T, P: unscanny::Pattern<T>> [Scanner::<'a>::eat_while::<T>] (s: &mut Scanner<'a>, pat: P) -> (r: &'a str)
    ensures sc_src(final(s)) == sc_src(old(s)),
        sc_ci(old(s)) <= sc_ci(final(s)) <= sc_src(old(s)).len() || sc_ci(old(s)) > sc_src(old(s)).len(),
        forall|k: int| sc_ci(old(s)) <= k < sc_ci(final(s)) ==> pat_yes::<T, P>(pat, #[trigger] sc_src(old(s))[k]),
        sc_ci(final(s)) < sc_src(old(s)).len() ==> pat_no::<T, P>(pat, sc_src(old(s))[sc_ci(final(s)) as int]);
pub assume_specification<'a, T, P: unscanny::Pattern<T>> [Scanner::<'a>::eat_until::<T>] (s: &mut Scanner<'a>, pat: P) -> (r: &'a str)
    ensures sc_src(final(s)) == sc_src(old(s)),
        sc_ci(old(s)) <= sc_ci(final(s)) <= sc_src(old(s)).len() || sc_ci(old(s)) > sc_src(old(s)).len();
pub assume_specification<'a> [Scanner::<'a>::jump] (s: &mut Scanner<'a>, target: usize)
    ensures sc_src(final(s)) == sc_src(old(s)),
        forall|j: nat| j <= sc_src(old(s)).len() && boff(sc_src(old(s)), j) == target ==> sc_ci(final(s)) == j;
pub assume_specification<'a> [Scanner::<'a>::from] (s: &Scanner<'a>, start: usize) -> (r: &'a str)
    ensures forall|j: nat| j <= sc_ci(s) && sc_ci(s) <= sc_src(s).len() && boff(sc_src(s), j) == start ==> r@ == sc_src(s).subrange(j as int, sc_ci(s) as int);
pub assume_specification<'a> [Scanner::<'a>::get] (s: &Scanner<'a>, range: core::ops::Range<usize>) -> (r: &'a str);

pub assume_specification [char::is_ascii_digit] (c: &char) -> (r: bool) ensures r == ('0' <= *c && *c <= '9');
pub assume_specification [char::is_ascii_hexdigit] (c: &char) -> (r: bool);
pub assume_specification [char::is_ascii_alphabetic] (c: &char) -> (r: bool) ensures r == (('a' <= *c && *c <= 'z') || ('A' <= *c && *c <= 'Z'));
pub assume_specification [char::is_ascii_alphanumeric] (c: &char) -> (r: bool) ensures r == (('a' <= *c && *c <= 'z') || ('A' <= *c && *c <= 'Z') || ('0' <= *c && *c <= '9'));
pub assume_specification [char::is_ascii_whitespace] (c: &char) -> (r: bool);
pub assume_specification [char::is_alphabetic] (c: char) -> (r: bool);

// ---- reference token language (C14), sample: identifier characters
pub open spec fn is_ident_start(c: char) -> bool { ('a' <= c && c <= 'z') || ('A' <= c && c <= 'Z') || c == '_' }
pub open spec fn is_ident_cont(c: char) -> bool { is_ident_start(c) || ('0' <= c && c <= '9') }
/// j is where the maximal run of identifier characters starting at i ends
pub open spec fn run_end(s: Seq<char>, i: nat, j: nat) -> bool {
    i <= j <= s.len() && (forall|k: int| i <= k < j ==> is_ident_cont(#[trigger] s[k])) && (j < s.len() ==> !is_ident_cont(s[j as int]))
}
}
}
