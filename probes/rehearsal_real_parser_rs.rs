#![allow(unused_imports)]
#[macro_export]
#[allow(non_snake_case)]
macro_rules! T {
    [-] => {$crate::token_kind::TokenKind::Minus};
    [+] => {$crate::token_kind::TokenKind::Plus};
    ['['] => {$crate::token_kind::TokenKind::LSquare};
    [']'] => {$crate::token_kind::TokenKind::RSquare};
    ['{'] => {$crate::token_kind::TokenKind::LBrace};
    ['}'] => {$crate::token_kind::TokenKind::RBrace};
    ['('] => {$crate::token_kind::TokenKind::LParen};
    [')'] => {$crate::token_kind::TokenKind::RParen};
    [<] => {$crate::token_kind::TokenKind::Less};
    [>] => {$crate::token_kind::TokenKind::Greater};
    [:] => {$crate::token_kind::TokenKind::Colon};
    [;] => {$crate::token_kind::TokenKind::Semi};
    [,] => {$crate::token_kind::TokenKind::Comma};
    [.] => {$crate::token_kind::TokenKind::Dot};
    [=] => {$crate::token_kind::TokenKind::Equal};
    [?] => {$crate::token_kind::TokenKind::Question};
    [#] => {$crate::token_kind::TokenKind::Paste};
    [...] => {$crate::token_kind::TokenKind::DotDotDot};

    [assert] => {$crate::token_kind::TokenKind::Assert};
    [bit] => {$crate::token_kind::TokenKind::Bit};
    [bits] => {$crate::token_kind::TokenKind::Bits};
    [class] => {$crate::token_kind::TokenKind::Class};
    [code] => {$crate::token_kind::TokenKind::Code};
    [dag] => {$crate::token_kind::TokenKind::Dag};
    [def] => {$crate::token_kind::TokenKind::Def};
    [defm] => {$crate::token_kind::TokenKind::Defm};
    [defset] => {$crate::token_kind::TokenKind::Defset};
    [defvar] => {$crate::token_kind::TokenKind::Defvar};
    [dump] => {$crate::token_kind::TokenKind::Dump};
    [else] => {$crate::token_kind::TokenKind::ElseKw};
    [field] => {$crate::token_kind::TokenKind::Field};
    [foreach] => {$crate::token_kind::TokenKind::Foreach};
    [if] => {$crate::token_kind::TokenKind::If};
    [in] => {$crate::token_kind::TokenKind::In};
    [include] => {$crate::token_kind::TokenKind::Include};
    [int] => {$crate::token_kind::TokenKind::Int};
    [let] => {$crate::token_kind::TokenKind::Let};
    [list] => {$crate::token_kind::TokenKind::List};
    [multiclass] => {$crate::token_kind::TokenKind::MultiClass};
    [string] => {$crate::token_kind::TokenKind::String};
    [then] => {$crate::token_kind::TokenKind::Then};

    [!add] => {$crate::token_kind::TokenKind::XAdd};
    [!and] => {$crate::token_kind::TokenKind::XAnd};
    [!cast] => {$crate::token_kind::TokenKind::XCast};
    [!con] => {$crate::token_kind::TokenKind::XCon};
    [!cond] => {$crate::token_kind::TokenKind::XCond};
    [!dag] => {$crate::token_kind::TokenKind::XDag};
    [!div] => {$crate::token_kind::TokenKind::XDiv};
    [!empty] => {$crate::token_kind::TokenKind::XEmpty};
    [!eq] => {$crate::token_kind::TokenKind::XEq};
    [!exists] => {$crate::token_kind::TokenKind::XExists};
    [!filter] => {$crate::token_kind::TokenKind::XFilter};
    [!find] => {$crate::token_kind::TokenKind::XFind};
    [!foldl] => {$crate::token_kind::TokenKind::XFoldl};
    [!foreach] => {$crate::token_kind::TokenKind::XForEach};
    [!ge] => {$crate::token_kind::TokenKind::XGe};
    [!getdagarg] => {$crate::token_kind::TokenKind::XGetDagArg};
    [!getdagname] => {$crate::token_kind::TokenKind::XGetDagName};
    [!getdagop] => {$crate::token_kind::TokenKind::XGetDagOp};
    [!gt] => {$crate::token_kind::TokenKind::XGt};
    [!head] => {$crate::token_kind::TokenKind::XHead};
    [!if] => {$crate::token_kind::TokenKind::XIf};
    [!initialized] => {$crate::token_kind::TokenKind::XInitialized};
    [!interleave] => {$crate::token_kind::TokenKind::XInterleave};
    [!isa] => {$crate::token_kind::TokenKind::XIsA};
    [!le] => {$crate::token_kind::TokenKind::XLe};
    [!listconcat] => {$crate::token_kind::TokenKind::XListConcat};
    [!listflatten] => {$crate::token_kind::TokenKind::XListFlatten};
    [!listremove] => {$crate::token_kind::TokenKind::XListRemove};
    [!listsplat] => {$crate::token_kind::TokenKind::XListSplat};
    [!log2] => {$crate::token_kind::TokenKind::XLog2};
    [!lt] => {$crate::token_kind::TokenKind::XLt};
    [!mul] => {$crate::token_kind::TokenKind::XMul};
    [!ne] => {$crate::token_kind::TokenKind::XNe};
    [!not] => {$crate::token_kind::TokenKind::XNot};
    [!or] => {$crate::token_kind::TokenKind::XOr};
    [!range] => {$crate::token_kind::TokenKind::XRange};
    [!repr] => {$crate::token_kind::TokenKind::XRepr};
    [!setdagarg] => {$crate::token_kind::TokenKind::XSetDagArg};
    [!setdagname] => {$crate::token_kind::TokenKind::XSetDagName};
    [!setdagop] => {$crate::token_kind::TokenKind::XSetDagOp};
    [!shl] => {$crate::token_kind::TokenKind::XShl};
    [!size] => {$crate::token_kind::TokenKind::XSize};
    [!sra] => {$crate::token_kind::TokenKind::XSra};
    [!srl] => {$crate::token_kind::TokenKind::XSrl};
    [!strconcat] => {$crate::token_kind::TokenKind::XStrConcat};
    [!sub] => {$crate::token_kind::TokenKind::XSub};
    [!subst] => {$crate::token_kind::TokenKind::XSubst};
    [!substr] => {$crate::token_kind::TokenKind::XSubstr};
    [!tail] => {$crate::token_kind::TokenKind::XTail};
    [!tolower] => {$crate::token_kind::TokenKind::XToLower};
    [!toupper] => {$crate::token_kind::TokenKind::XToUpper};
    [!xor] => {$crate::token_kind::TokenKind::XXor};

    [true] => {$crate::token_kind::TokenKind::TrueVal};
    [false] => {$crate::token_kind::TokenKind::FalseVal};

    [#ifdef] => {$crate::token_kind::TokenKind::Ifdef};
    [#ifndef] => {$crate::token_kind::TokenKind::Ifndef};
    [#else] => {$crate::token_kind::TokenKind::Else};
    [#endif] => {$crate::token_kind::TokenKind::Endif};
    [#define] => {$crate::token_kind::TokenKind::Define};
}
use vstd::prelude::*;

pub mod prelude {
use vstd::prelude::*;
pub use rowan::{GreenNodeBuilder, GreenNode, Checkpoint, TextRange, TextSize};
pub use ecow::EcoString;
verus!{
#[verifier::external_type_specification] #[verifier::external_body] pub struct ExEcoString(EcoString);
#[verifier::external_type_specification] #[verifier::external_body] pub struct ExBuilder<'a>(GreenNodeBuilder<'a>);
#[verifier::external_type_specification] #[verifier::external_body] pub struct ExGreenNode(GreenNode);
#[verifier::external_type_specification] #[verifier::external_body] pub struct ExCheckpoint(Checkpoint);
#[verifier::external_type_specification] #[verifier::external_body] pub struct ExTextRange(TextRange);
#[verifier::external_type_specification] #[verifier::external_body] pub struct ExTextSize(TextSize);
#[verifier::external_type_specification] pub struct ExRSK(rowan::SyntaxKind);

pub struct BuilderView { pub parents: Seq<nat>, pub n: nat, pub text: Seq<u8> }
pub uninterp spec fn builder_view<'c>(b: &GreenNodeBuilder<'c>) -> BuilderView;
pub uninterp spec fn str_bytes(s: &str) -> Seq<u8>;

pub assume_specification<'c> [GreenNodeBuilder::<'c>::new] () -> (b: GreenNodeBuilder<'static>)
    ensures builder_view(&b) == (BuilderView { parents: Seq::empty(), n: 0, text: Seq::empty() });
pub assume_specification<'c> [GreenNodeBuilder::<'c>::start_node] (b: &mut GreenNodeBuilder<'c>, kind: rowan::SyntaxKind)
    ensures builder_view(final(b)) == (BuilderView { parents: builder_view(old(b)).parents.push(builder_view(old(b)).n), ..builder_view(old(b)) });
pub assume_specification<'c> [GreenNodeBuilder::<'c>::token] (b: &mut GreenNodeBuilder<'c>, kind: rowan::SyntaxKind, text: &str)
    ensures builder_view(final(b)) == (BuilderView { n: builder_view(old(b)).n + 1, text: builder_view(old(b)).text + str_bytes(text), ..builder_view(old(b)) });
pub assume_specification<'c> [GreenNodeBuilder::<'c>::finish_node] (b: &mut GreenNodeBuilder<'c>)
    requires builder_view(old(b)).parents.len() > 0, builder_view(old(b)).parents.last() <= builder_view(old(b)).n
    ensures builder_view(final(b)) == (BuilderView { parents: builder_view(old(b)).parents.drop_last(), n: builder_view(old(b)).parents.last() + 1, ..builder_view(old(b)) });

pub assume_specification [TextRange::new] (start: TextSize, end: TextSize) -> TextRange
    requires ts_val(start) <= ts_val(end);
pub assume_specification<Idx: Clone> [<core::ops::Range<Idx> as Clone>::clone] (r: &core::ops::Range<Idx>) -> (c: core::ops::Range<Idx>) ensures c == *r;
pub uninterp spec fn ts_val(t: TextSize) -> nat;

#[verifier::external_body] pub fn opaque_eco_string() -> EcoString { unimplemented!() }
pub assume_specification<T: core::cmp::PartialEq> [<[T]>::contains] (s: &[T], x: &T) -> (r: bool) ensures r == s@.contains(*x);
}
}

verus!{
pub mod token_kind {
use vstd::prelude::*;
#[derive(Debug, Clone, Copy, PartialEq, Eq, PartialOrd, Ord, Hash)]
pub enum TokenKind {
    // Markers
    Eof,
    Whitespace,
    LineComment,
    BlockComment,
    Error,
    PreProcessor,

    // Symbols
    Minus,
    Plus,
    LSquare,
    RSquare,
    LBrace,
    RBrace,
    LParen,
    RParen,
    Less,
    Greater,
    Colon,
    Semi,
    Comma,
    Dot,
    Equal,
    Question,
    Paste,
    DotDotDot,

    // Keywords
    Assert,
    Bit,
    Bits,
    Class,
    Code,
    Dag,
    Def,
    Defm,
    Defset,
    Defvar,
    Dump,
    ElseKw,
    Field,
    Foreach,
    If,
    In,
    Include,
    Int,
    Let,
    List,
    MultiClass,
    String,
    Then,

    // Bang operators
    XAdd,
    XAnd,
    XCast,
    XCon,
    XCond,
    XDag,
    XDiv,
    XEmpty,
    XEq,
    XExists,
    XFilter,
    XFind,
    XFoldl,
    XForEach,
    XGe,
    XGetDagArg,
    XGetDagName,
    XGetDagOp,
    XGt,
    XHead,
    XIf,
    XInitialized,
    XInterleave,
    XIsA,
    XLe,
    XListConcat,
    XListFlatten,
    XListRemove,
    XListSplat,
    XLog2,
    XLt,
    XMul,
    XNe,
    XNot,
    XOr,
    XRange,
    XRepr,
    XSetDagArg,
    XSetDagName,
    XSetDagOp,
    XShl,
    XSize,
    XSra,
    XSrl,
    XStrConcat,
    XSub,
    XSubst,
    XSubstr,
    XTail,
    XToLower,
    XToUpper,
    XXor,

    // Literals
    TrueVal,
    FalseVal,

    IntVal,
    BinaryIntVal,

    // Strings
    Id,
    StrVal,
    VarName,
    CodeFragment,

    // Preprocessor tokens
    Ifdef,
    Ifndef,
    Else,
    Endif,
    Define,
}

pub assume_specification [<TokenKind as core::cmp::PartialEq>::eq] (a: &TokenKind, b: &TokenKind) -> (r: bool) ensures r == (*a == *b);

impl TokenKind {
    pub open spec fn spec_is_trivia(&self) -> bool { *self == TokenKind::Whitespace || *self == TokenKind::LineComment || *self == TokenKind::BlockComment || *self == TokenKind::PreProcessor }

    pub fn is_trivia(&self) -> (ret: bool)
        ensures ret == self.spec_is_trivia()
    {
        matches!(
            self,
            Self::Whitespace | Self::LineComment | Self::BlockComment | Self::PreProcessor
        )
    }

    pub fn is_bang_operator(&self) -> bool {
        matches!(
            self,
            Self::XAdd
                | Self::XAnd
                | Self::XCast
                | Self::XCon
                | Self::XDag
                | Self::XDiv
                | Self::XEmpty
                | Self::XEq
                | Self::XExists
                | Self::XFilter
                | Self::XFind
                | Self::XFoldl
                | Self::XForEach
                | Self::XGe
                | Self::XGetDagArg
                | Self::XGetDagName
                | Self::XGetDagOp
                | Self::XGt
                | Self::XHead
                | Self::XIf
                | Self::XInitialized
                | Self::XInterleave
                | Self::XIsA
                | Self::XLe
                | Self::XListConcat
                | Self::XListFlatten
                | Self::XListRemove
                | Self::XListSplat
                | Self::XLog2
                | Self::XLt
                | Self::XMul
                | Self::XNe
                | Self::XNot
                | Self::XOr
                | Self::XRange
                | Self::XRepr
                | Self::XSetDagArg
                | Self::XSetDagName
                | Self::XSetDagOp
                | Self::XShl
                | Self::XSize
                | Self::XSra
                | Self::XSrl
                | Self::XStrConcat
                | Self::XSub
                | Self::XSubst
                | Self::XSubstr
                | Self::XTail
                | Self::XToLower
                | Self::XToUpper
                | Self::XXor
        )
    }

    pub fn is_cond_operator(&self) -> bool {
        matches!(self, Self::XCond)
    }
}



}
pub mod syntax_kind {
use vstd::prelude::*;
use crate::token_kind::TokenKind;

#[derive(Debug, Clone, Copy, PartialEq, Eq, PartialOrd, Ord, Hash)]
#[repr(u16)]
pub enum SyntaxKind {
    // --- marker ---
    Error,

    // --- syntax ---
    SourceFile,
    StatementList,
    Include,
    Class,
    Def,
    Let,
    LetList,
    LetItem,
    MultiClass,
    Defm,
    Defset,
    Defvar,
    Dump,
    Foreach,
    ForeachIterator,
    If,
    Assert,
    TemplateArgList,
    TemplateArgDecl,
    RecordBody,
    ParentClassList,
    ClassRef,
    ArgValueList,
    ArgValue,
    PositionalArgValue,
    NamedArgValue,
    Body,
    BodyItem,
    FieldDef,
    CodeType,
    FieldLet,
    BitType,
    IntType,
    StringType,
    DagType,
    BitsType,
    ListType,
    ClassId,
    Value,
    InnerValue,
    RangeSuffix,
    RangeList,
    RangePiece,
    SliceSuffix,
    SliceElements,
    SliceElement,
    FieldSuffix,
    Integer,
    String,
    Code,
    Boolean,
    Uninitialized,
    Bits,
    ValueList,
    List,
    Dag,
    DagArgList,
    DagArg,
    VarName,
    Identifier,
    ClassValue,
    BangOperator,
    CondOperator,
    CondClause,

    // --- token ---
    // Markers
    Eof,
    Whitespace,
    LineComment,
    BlockComment,

    // Symbols
    Minus,
    Plus,
    LSquare,
    RSquare,
    LBrace,
    RBrace,
    LParen,
    RParen,
    Less,
    Greater,
    Colon,
    Semi,
    Comma,
    Dot,
    Equal,
    Question,
    Paste,
    DotDotDot,

    // Keywords
    AssertKw,
    Bit,
    BitsKw,
    ClassKw,
    CodeKw,
    DagKw,
    DefKw,
    DefmKw,
    DefsetKw,
    DefvarKw,
    ElseKw,
    Field,
    ForeachKw,
    IfKw,
    In,
    IncludeKw,
    Int,
    LetKw,
    ListKw,
    MultiClassKw,
    StringKw,
    Then,

    // Bang operators
    XAdd,
    XAnd,
    XCast,
    XCon,
    XCond,
    XDag,
    XDiv,
    XEmpty,
    XEq,
    XExists,
    XFilter,
    XFind,
    XFoldl,
    XForEach,
    XGe,
    XGetDagArg,
    XGetDagName,
    XGetDagOp,
    XGt,
    XHead,
    XIf,
    XInitialized,
    XInterleave,
    XIsA,
    XLe,
    XListConcat,
    XListFlatten,
    XListRemove,
    XListSplat,
    XLog2,
    XLt,
    XMul,
    XNe,
    XNot,
    XOr,
    XRange,
    XRepr,
    XSetDagArg,
    XSetDagName,
    XSetDagOp,
    XShl,
    XSize,
    XSra,
    XSrl,
    XStrConcat,
    XSub,
    XSubst,
    XSubstr,
    XTail,
    XToLower,
    XToUpper,
    XXor,

    // Literals
    TrueVal,
    FalseVal,

    IntVal,
    BinaryIntVal,

    // Strings
    Id,
    StrVal,
    VarNameKw,
    CodeFragment,

    // Preprocessor tokens
    PreProcessor,

    __LAST,
}

impl SyntaxKind {
    pub fn is_trivia(&self) -> bool {
        matches!(
            self,
            Self::Whitespace | Self::LineComment | Self::BlockComment | Self::PreProcessor
        )
    }
}

impl From<SyntaxKind> for rowan::SyntaxKind {
    #[verifier::external_body]
    fn from(kind: SyntaxKind) -> Self {
        Self(kind as u16)
    }
}

impl From<TokenKind> for rowan::SyntaxKind {
    #[verifier::external_body]
    fn from(kind: TokenKind) -> Self {
        let kind = match kind {
            TokenKind::Eof => SyntaxKind::Eof,
            TokenKind::Whitespace => SyntaxKind::Whitespace,
            TokenKind::LineComment => SyntaxKind::LineComment,
            TokenKind::BlockComment => SyntaxKind::BlockComment,
            TokenKind::Error => SyntaxKind::Error,
            TokenKind::PreProcessor => SyntaxKind::PreProcessor,

            TokenKind::Minus => SyntaxKind::Minus,
            TokenKind::Plus => SyntaxKind::Plus,
            TokenKind::LSquare => SyntaxKind::LSquare,
            TokenKind::RSquare => SyntaxKind::RSquare,
            TokenKind::LBrace => SyntaxKind::LBrace,
            TokenKind::RBrace => SyntaxKind::RBrace,
            TokenKind::LParen => SyntaxKind::LParen,
            TokenKind::RParen => SyntaxKind::RParen,
            TokenKind::Less => SyntaxKind::Less,
            TokenKind::Greater => SyntaxKind::Greater,
            TokenKind::Colon => SyntaxKind::Colon,
            TokenKind::Semi => SyntaxKind::Semi,
            TokenKind::Comma => SyntaxKind::Comma,
            TokenKind::Dot => SyntaxKind::Dot,
            TokenKind::Equal => SyntaxKind::Equal,
            TokenKind::Question => SyntaxKind::Question,
            TokenKind::Paste => SyntaxKind::Paste,
            TokenKind::DotDotDot => SyntaxKind::DotDotDot,

            TokenKind::Assert => SyntaxKind::AssertKw,
            TokenKind::Bit => SyntaxKind::Bit,
            TokenKind::Bits => SyntaxKind::BitsKw,
            TokenKind::Class => SyntaxKind::ClassKw,
            TokenKind::Code => SyntaxKind::CodeKw,
            TokenKind::Dag => SyntaxKind::DagKw,
            TokenKind::Def => SyntaxKind::DefKw,
            TokenKind::Defm => SyntaxKind::DefmKw,
            TokenKind::Defset => SyntaxKind::DefsetKw,
            TokenKind::Defvar => SyntaxKind::DefvarKw,
            TokenKind::Dump => SyntaxKind::Dump,
            TokenKind::ElseKw => SyntaxKind::ElseKw,
            TokenKind::Field => SyntaxKind::Field,
            TokenKind::Foreach => SyntaxKind::ForeachKw,
            TokenKind::If => SyntaxKind::IfKw,
            TokenKind::In => SyntaxKind::In,
            TokenKind::Include => SyntaxKind::IncludeKw,
            TokenKind::Int => SyntaxKind::Int,
            TokenKind::Let => SyntaxKind::LetKw,
            TokenKind::List => SyntaxKind::ListKw,
            TokenKind::MultiClass => SyntaxKind::MultiClassKw,
            TokenKind::String => SyntaxKind::StringKw,
            TokenKind::Then => SyntaxKind::Then,

            TokenKind::XAdd => SyntaxKind::XAdd,
            TokenKind::XAnd => SyntaxKind::XAnd,
            TokenKind::XCast => SyntaxKind::XCast,
            TokenKind::XCon => SyntaxKind::XCon,
            TokenKind::XCond => SyntaxKind::XCond,
            TokenKind::XDag => SyntaxKind::XDag,
            TokenKind::XDiv => SyntaxKind::XDiv,
            TokenKind::XEmpty => SyntaxKind::XEmpty,
            TokenKind::XEq => SyntaxKind::XEq,
            TokenKind::XExists => SyntaxKind::XExists,
            TokenKind::XFilter => SyntaxKind::XFilter,
            TokenKind::XFind => SyntaxKind::XFind,
            TokenKind::XFoldl => SyntaxKind::XFoldl,
            TokenKind::XForEach => SyntaxKind::XForEach,
            TokenKind::XGe => SyntaxKind::XGe,
            TokenKind::XGetDagArg => SyntaxKind::XGetDagArg,
            TokenKind::XGetDagName => SyntaxKind::XGetDagName,
            TokenKind::XGetDagOp => SyntaxKind::XGetDagOp,
            TokenKind::XGt => SyntaxKind::XGt,
            TokenKind::XHead => SyntaxKind::XHead,
            TokenKind::XIf => SyntaxKind::XIf,
            TokenKind::XInitialized => SyntaxKind::XInitialized,
            TokenKind::XInterleave => SyntaxKind::XInterleave,
            TokenKind::XIsA => SyntaxKind::XIsA,
            TokenKind::XLe => SyntaxKind::XLe,
            TokenKind::XListConcat => SyntaxKind::XListConcat,
            TokenKind::XListFlatten => SyntaxKind::XListFlatten,
            TokenKind::XListRemove => SyntaxKind::XListRemove,
            TokenKind::XListSplat => SyntaxKind::XListSplat,
            TokenKind::XLog2 => SyntaxKind::XLog2,
            TokenKind::XLt => SyntaxKind::XLt,
            TokenKind::XMul => SyntaxKind::XMul,
            TokenKind::XNe => SyntaxKind::XNe,
            TokenKind::XNot => SyntaxKind::XNot,
            TokenKind::XOr => SyntaxKind::XOr,
            TokenKind::XRange => SyntaxKind::XRange,
            TokenKind::XRepr => SyntaxKind::XRepr,
            TokenKind::XSetDagArg => SyntaxKind::XSetDagArg,
            TokenKind::XSetDagName => SyntaxKind::XSetDagName,
            TokenKind::XSetDagOp => SyntaxKind::XSetDagOp,
            TokenKind::XShl => SyntaxKind::XShl,
            TokenKind::XSize => SyntaxKind::XSize,
            TokenKind::XSra => SyntaxKind::XSra,
            TokenKind::XSrl => SyntaxKind::XSrl,
            TokenKind::XStrConcat => SyntaxKind::XStrConcat,
            TokenKind::XSub => SyntaxKind::XSub,
            TokenKind::XSubst => SyntaxKind::XSubst,
            TokenKind::XSubstr => SyntaxKind::XSubstr,
            TokenKind::XTail => SyntaxKind::XTail,
            TokenKind::XToLower => SyntaxKind::XToLower,
            TokenKind::XToUpper => SyntaxKind::XToUpper,
            TokenKind::XXor => SyntaxKind::XXor,

            TokenKind::TrueVal => SyntaxKind::TrueVal,
            TokenKind::FalseVal => SyntaxKind::FalseVal,
            TokenKind::IntVal => SyntaxKind::IntVal,
            TokenKind::BinaryIntVal => SyntaxKind::BinaryIntVal,

            TokenKind::Id => SyntaxKind::Id,
            TokenKind::StrVal => SyntaxKind::StrVal,
            TokenKind::VarName => SyntaxKind::VarNameKw,
            TokenKind::CodeFragment => SyntaxKind::CodeFragment,

            TokenKind::Ifdef => SyntaxKind::PreProcessor,
            TokenKind::Ifndef => SyntaxKind::PreProcessor,
            TokenKind::Else => SyntaxKind::PreProcessor,
            TokenKind::Endif => SyntaxKind::PreProcessor,
            TokenKind::Define => SyntaxKind::PreProcessor,
        };
        kind.into()
    }
}

}
pub mod error {
use vstd::prelude::*;
use std::fmt;

use rowan::TextRange;

#[derive(Debug, Clone, Eq, PartialEq)]
pub struct SyntaxError {
    pub range: TextRange,
    pub message: String,
}

impl SyntaxError {
    pub fn new(range: TextRange, message: impl Into<String>) -> Self {
        Self {
            range,
            message: message.into(),
        }
    }
}

#[verifier::external]
impl fmt::Display for SyntaxError {
    fn fmt(&self, f: &mut fmt::Formatter<'_>) -> fmt::Result {
        write!(f, "{:?}:{}", self.range, self.message)
    }
}

}
pub mod token_stream {
use vstd::prelude::*;
use std::ops::Range;

use ecow::EcoString;

use crate::token_kind::TokenKind;
use crate::prelude::*;

pub trait TokenStream {
    spec fn wf(&self) -> bool;
    spec fn src(&self) -> Seq<u8>;
    spec fn pos(&self) -> nat;
    spec fn has_error(&self) -> bool;
    proof fn lemma_wf(&self) requires self.wf() ensures self.pos() <= self.src().len(), self.src().len() <= u32::MAX;

    fn eat(&mut self) -> (ret: TokenKind)
        requires old(self).wf()
        ensures final(self).wf(), final(self).src() == old(self).src(),
            old(self).pos() <= final(self).pos() <= final(self).src().len() <= u32::MAX,
            ret != TokenKind::Eof ==> final(self).pos() > old(self).pos(),
            ret == TokenKind::Eof ==> final(self).pos() == final(self).src().len() && old(self).pos() == final(self).pos(),
            ret == TokenKind::Error ==> final(self).has_error();

    fn cursor(&self) -> (ret: usize)
        requires self.wf()
        ensures ret == self.pos(), self.pos() <= self.src().len() <= u32::MAX;

    fn text(&self, range: Range<usize>) -> (ret: &str)
        requires self.wf(), range.start <= range.end <= self.src().len()
        ensures str_bytes(ret) == self.src().subrange(range.start as int, range.end as int);

    fn take_error(&mut self) -> (ret: Option<EcoString>)
        requires old(self).wf()
        ensures final(self).wf(), final(self).src() == old(self).src(), final(self).pos() == old(self).pos(), old(self).has_error() ==> ret.is_some();
}

}
pub mod parser {
use vstd::prelude::*;
use std::ops::Range;

use ecow::eco_format;
use rowan::{Checkpoint, GreenNode, GreenNodeBuilder};
pub use rowan::{TextRange, TextSize};

pub(crate) const RECOVER_TOKENS: [TokenKind; 5] = [crate::T![include], crate::T![class], crate::T![def], crate::T![let], crate::T![;]];
use crate::prelude::*;
use crate::token_stream::TokenStream;
use crate::{error::SyntaxError, syntax_kind::SyntaxKind, token_kind::TokenKind};

#[derive(Debug)]
pub(crate) enum CompletedMarker {
    Success,
    Fail,
}

impl CompletedMarker {
    pub(crate) fn is_success(&self) -> bool {
        matches!(self, Self::Success)
    }

}



#[derive(Debug)]
pub(crate) struct ParserBase<T: TokenStream> {
    token_stream: T,
    current: TokenKind,
    current_range: Range<usize>,
    builder: GreenNodeBuilder<'static>,

    errors: Vec<SyntaxError>,
    is_after_error: bool,
}


impl<T: TokenStream> ParserBase<T> {
    pub closed spec fn cur(&self) -> TokenKind { self.current }
    pub closed spec fn ra(&self) -> nat { self.current_range.start as nat }
    pub closed spec fn rb(&self) -> nat { self.current_range.end as nat }
    pub closed spec fn bv(&self) -> BuilderView { builder_view(&self.builder) }
    pub closed spec fn srcv(&self) -> Seq<u8> { self.token_stream.src() }
    pub closed spec fn after_err(&self) -> bool { self.is_after_error }
    pub closed spec fn same_but_errors(&self, o: &Self) -> bool { self.token_stream == o.token_stream && self.current == o.current && self.current_range == o.current_range && self.builder == o.builder }
    pub closed spec fn nerr(&self) -> nat { self.errors@.len() }
    pub closed spec fn fuel(&self) -> nat {
        (self.token_stream.src().len() - self.token_stream.pos()) as nat + if self.current != TokenKind::Eof { 1nat } else { 0nat }
    }
    /// invariant, parametrised by whether the look-ahead token has been pushed to the builder
    pub closed spec fn inv(&self, saved: bool) -> bool {
        &&& self.token_stream.wf()
        &&& self.rb() == self.token_stream.pos()
        &&& self.ra() <= self.rb() <= self.srcv().len() <= u32::MAX
        &&& self.bv().text =~= self.srcv().subrange(0, if saved { self.rb() as int } else { self.ra() as int })
        &&& (self.current == TokenKind::Error && !saved ==> self.token_stream.has_error())
        &&& (self.current == TokenKind::Eof ==> self.ra() == self.rb() && self.rb() == self.srcv().len())
        &&& self.bv().parents.len() > 0
        &&& self.bv().parents.last() <= self.bv().n
        &&& (forall|i: int, j: int| 0 <= i <= j < self.bv().parents.len() ==> self.bv().parents[i] <= self.bv().parents[j])
    }
    pub open spec fn same_shape(&self, o: &Self) -> bool {
        self.bv().parents =~= o.bv().parents && self.bv().n >= o.bv().n && self.srcv() == o.srcv()
    }
}

impl<T: TokenStream> ParserBase<T> {
    pub(crate) fn new(mut token_stream: T) -> (ret: Self)
        requires token_stream.wf(), token_stream.pos() == 0
        ensures ret.srcv() == token_stream.src(), ret.bv() == (BuilderView { parents: Seq::empty(), n: 0, text: Seq::empty() })
    {
        let start = token_stream.cursor();
        let current = token_stream.eat();
        let end = token_stream.cursor();

        Self {
            token_stream,
            current,
            current_range: start..end,
            builder: GreenNodeBuilder::new(),

            errors: Vec::new(),
            is_after_error: false,
        }
    }

    #[verifier::external_body]
    pub(crate) fn finish(self) -> (GreenNode, Vec<SyntaxError>) {
        (self.builder.finish(), self.errors)
    }

    #[verifier::external_body]
    pub(crate) fn builder(&mut self) -> &mut GreenNodeBuilder<'static> {
        &mut self.builder
    }

    #[inline]
    pub(crate) fn start_node(&mut self, kind: SyntaxKind)
        requires old(self).inv(false)
        ensures final(self).inv(false), final(self).bv().parents == old(self).bv().parents.push(old(self).bv().n), final(self).bv().n == old(self).bv().n, final(self).fuel() == old(self).fuel(), final(self).cur() == old(self).cur()
    {
        self.builder.start_node(kind.into());
    }

    #[verifier::external_body]
    pub(crate) fn start_node_at(&mut self, checkpoint: Checkpoint, kind: SyntaxKind) {
        self.builder.start_node_at(checkpoint, kind.into());
    }

    #[inline]
    pub(crate) fn finish_node(&mut self)
        requires old(self).inv(false), old(self).bv().parents.len() > 1
        ensures final(self).inv(false), final(self).bv().parents == old(self).bv().parents.drop_last(), final(self).bv().n == old(self).bv().parents.last() + 1, final(self).fuel() == old(self).fuel(), final(self).cur() == old(self).cur()
    {
        self.builder.finish_node();
    }

    #[verifier::external_body]
    pub(crate) fn checkpoint(&self) -> Checkpoint {
        self.builder.checkpoint()
    }

    #[inline]
    pub(crate) fn peek(&self) -> (ret: TokenKind)
        ensures ret == self.cur()
    {
        self.current
    }

    #[inline]
    pub(crate) fn at(&self, kind: TokenKind) -> (ret: bool)
        ensures ret == (self.cur() == kind)
    {
        self.peek() == kind
    }

    #[inline]
    pub(crate) fn at_set(&self, set: &[TokenKind]) -> (ret: bool)
        ensures ret == set@.contains(self.cur())
    {
        set.contains(&self.peek())
    }

    #[inline]
    pub(crate) fn eof(&self) -> (ret: bool)
        ensures ret == (self.cur() == TokenKind::Eof)
    {
        self.at(TokenKind::Eof)
    }

    #[verifier::external_body]
    pub(crate) fn error(&mut self, message: impl Into<String>)
        requires old(self).ra() <= old(self).rb() <= u32::MAX
        ensures final(self).nerr() == old(self).nerr() + 1, final(self).after_err(), final(self).same_but_errors(old(self))
    {
        let range = TextRange::new(
            self.current_range
                .start
                .try_into()
                .expect("start is to large"),
            self.current_range.end.try_into().expect("end is to large"),
        );
        self.errors.push(SyntaxError::new(range, message));
        self.is_after_error = true;
    }

    pub(crate) fn error_and_eat(&mut self, message: impl Into<String>)
        requires old(self).inv(false)
        ensures final(self).inv(false), final(self).same_shape(old(self)), old(self).cur() != TokenKind::Eof ==> final(self).fuel() < old(self).fuel(), final(self).fuel() <= old(self).fuel()
    {
        self.error(message);

        self.builder.start_node(SyntaxKind::Error.into());
        self.eat();
        self.builder.finish_node();
    }

    pub(crate) fn error_and_recover(&mut self, message: impl Into<String>)
        requires old(self).inv(false)
        ensures final(self).inv(false), final(self).same_shape(old(self)), final(self).fuel() <= old(self).fuel()
    {
        self.error(message);

        if !self.at_set(&RECOVER_TOKENS) && !self.eof() {
            self.builder.start_node(SyntaxKind::Error.into());
            self.eat();
            self.builder.finish_node();
        }
    }

    #[inline]
    pub(crate) fn assert(&mut self, kind: TokenKind)
        requires old(self).inv(false), old(self).cur() == kind
        ensures final(self).inv(false), final(self).same_shape(old(self)), kind != TokenKind::Eof ==> final(self).fuel() < old(self).fuel(), final(self).fuel() <= old(self).fuel()
    {
        assert!(self.eat_if(kind));
    }

    #[inline]
    pub(crate) fn expect(&mut self, kind: TokenKind)
        requires old(self).inv(false)
        ensures final(self).inv(false), final(self).same_shape(old(self)), final(self).fuel() <= old(self).fuel()
    {
        self.expect_with_msg(kind, opaque_eco_string())
    }

    pub(crate) fn expect_with_msg(&mut self, kind: TokenKind, message: impl Into<String>)
        requires old(self).inv(false)
        ensures final(self).inv(false), final(self).same_shape(old(self)), final(self).fuel() <= old(self).fuel(),
            old(self).cur() != kind && !old(self).after_err() ==> final(self).nerr() == old(self).nerr() + 1
    {
        if !self.eat_if(kind) && !self.is_after_error {
            self.error(message);
        }
    }

    pub(crate) fn eat(&mut self)
        requires old(self).inv(false)
        ensures final(self).inv(false), !final(self).cur().spec_is_trivia(), final(self).same_shape(old(self)),
            old(self).cur() != TokenKind::Eof ==> final(self).fuel() < old(self).fuel(), final(self).fuel() <= old(self).fuel()
    {
        self.save();
        self.lex();
        self.skip();
    }

    pub(crate) fn eat_if(&mut self, kind: TokenKind) -> (ret: bool)
        requires old(self).inv(false)
        ensures final(self).inv(false), ret == (old(self).cur() == kind), final(self).same_shape(old(self)),
            ret && kind != TokenKind::Eof ==> final(self).fuel() < old(self).fuel(), final(self).fuel() <= old(self).fuel(),
            !ret ==> *final(self) == *old(self)
    {
        if self.at(kind) {
            self.eat();
            true
        } else {
            false
        }
    }

    pub fn save(&mut self)
        requires old(self).inv(false)
        ensures final(self).inv(true), final(self).cur() == old(self).cur(), final(self).fuel() == old(self).fuel(), final(self).bv().parents == old(self).bv().parents, final(self).bv().n == old(self).bv().n + 1, final(self).srcv() == old(self).srcv()
    {
        let text = self.token_stream.text(self.current_range.clone());
        self.builder.token(self.peek().into(), text);

        if self.at(TokenKind::Error) {
            let message = self
                .token_stream
                .take_error()
                .expect("error token without message");
            self.error(message);
        } else {
            self.is_after_error = false;
        }
    }

    pub fn lex(&mut self)
        requires old(self).inv(true)
        ensures final(self).inv(false), final(self).bv() == old(self).bv(), final(self).srcv() == old(self).srcv(),
            old(self).cur() != TokenKind::Eof ==> final(self).fuel() < old(self).fuel(),
            final(self).fuel() <= old(self).fuel()
    {
        let start = self.token_stream.cursor();
        self.current = self.token_stream.eat();
        let end = self.token_stream.cursor();
        self.current_range = start..end;
    }

    pub fn skip(&mut self)
        requires old(self).inv(false)
        ensures final(self).inv(false), !final(self).cur().spec_is_trivia(), final(self).fuel() <= old(self).fuel(), final(self).same_shape(old(self))
    {
        while self.current.is_trivia()
            invariant self.inv(false), self.fuel() <= old(self).fuel(), self.same_shape(old(self)),
            decreases self.fuel(),
        {
            self.save();
            self.lex();
        }
    }
}

}
}
fn main(){}
