#![allow(unused_imports, unused_variables, dead_code)]
use vstd::prelude::*;
use ecow::EcoString;
use syntax::ast::{self, AstNode};
use syntax::parser::TextRange;
use syntax::SyntaxNodePtr;
use ide::index::context::IndexCtx;
use ide::index::scope::{ScopeKind, Scopes};
use ide::file_system::{FileRange, FileId, IncludeId};
use ide::symbol_map::{
    defm::Defm, defset::Defset,
    multiclass::{Multiclass, MulticlassId},
    record::{Record, RecordId, RecordKind},
    record_field::RecordField, symbol::Symbol,
    template_arg::TemplateArgument, typ::Type,
    variable::{Variable, VariableId, VariableKind},
    SymbolMap,
};
use ide::handlers::diagnostics::Diagnostic;

verus!{

// ---------- external types (real crates) ----------
#[verifier::external_type_specification] #[verifier::external_body] pub struct ExEcoString(EcoString);
#[verifier::external_type_specification] #[verifier::external_body] pub struct ExTextRange(TextRange);
#[verifier::external_type_specification] #[verifier::external_body] pub struct ExSymbolMap(SymbolMap);
#[verifier::external_type_specification] #[verifier::external_body] pub struct ExScopes(Scopes);
#[verifier::external_type_specification] #[verifier::external_body] pub struct ExScopeKind(ScopeKind);
#[verifier::external_type_specification] #[verifier::external_body] pub struct ExDiagnostic(Diagnostic);
#[verifier::external_type_specification] #[verifier::external_body] pub struct ExRecord(Record);
#[verifier::external_type_specification] #[verifier::external_body] pub struct ExMulticlass(Multiclass);
#[verifier::external_type_specification] #[verifier::external_body] pub struct ExDefm(Defm);
#[verifier::external_type_specification] #[verifier::external_body] pub struct ExTemplateArgument(TemplateArgument);
#[verifier::external_type_specification] #[verifier::external_body] pub struct ExType(Type);
#[verifier::external_type_specification] pub struct ExRecordKind(RecordKind);
#[verifier::external_type_specification] pub struct ExFileId(FileId);
#[verifier::external_type_specification] #[verifier::external_body] pub struct ExFileRange(FileRange);
#[verifier::external_type_specification] #[verifier::external_body] #[verifier::reject_recursive_types(T)] pub struct ExId<T>(id_arena::Id<T>);
#[verifier::external_trait_specification] pub trait ExQueryGroup: Sized { type ExternalTraitSpecificationFor: salsa::plumbing::QueryGroup; }
#[verifier::external_trait_specification] pub trait ExDatabaseOps { type ExternalTraitSpecificationFor: salsa::plumbing::DatabaseOps; }
#[verifier::external_trait_specification] pub trait ExSalsaDatabase: salsa::plumbing::DatabaseOps { type ExternalTraitSpecificationFor: salsa::Database; }
#[verifier::external_trait_specification] pub trait ExHasQueryGroup<G: salsa::plumbing::QueryGroup>: salsa::Database { type ExternalTraitSpecificationFor: salsa::plumbing::HasQueryGroup<G>; }
#[verifier::external_trait_specification] pub trait ExSourceDatabase: salsa::Database + salsa::plumbing::HasQueryGroup<ide::db::SourceDatabaseStorage> { type ExternalTraitSpecificationFor: ide::db::SourceDatabase; }
#[verifier::external_trait_specification] pub trait ExIndexDatabase: salsa::Database + salsa::plumbing::HasQueryGroup<ide::index::IndexDatabaseStorage> + ide::db::SourceDatabase { type ExternalTraitSpecificationFor: ide::index::IndexDatabase; }
#[verifier::external_type_specification] #[verifier::external_body] pub struct ExIDS(ide::index::IndexDatabaseStorage);
#[verifier::external_type_specification] #[verifier::external_body] pub struct ExSDS(ide::db::SourceDatabaseStorage);
#[verifier::external_type_specification] pub struct ExIndexCtx<'a>(IndexCtx<'a>);
#[verifier::external_type_specification] #[verifier::external_body] pub struct ExAstAssert(ast::Assert);
#[verifier::external_type_specification] #[verifier::external_body] pub struct ExAstBody(ast::Body);
#[verifier::external_type_specification] pub struct ExAstBodyItem(ast::BodyItem);
#[verifier::external_type_specification] #[verifier::external_body] pub struct ExAstClass(ast::Class);
#[verifier::external_type_specification] #[verifier::external_body] pub struct ExAstClassRef(ast::ClassRef);
#[verifier::external_type_specification] #[verifier::external_body] pub struct ExAstDef(ast::Def);
#[verifier::external_type_specification] #[verifier::external_body] pub struct ExAstDefm(ast::Defm);
#[verifier::external_type_specification] #[verifier::external_body] pub struct ExAstDefset(ast::Defset);
#[verifier::external_type_specification] #[verifier::external_body] pub struct ExAstDefvar(ast::Defvar);
#[verifier::external_type_specification] #[verifier::external_body] pub struct ExAstDump(ast::Dump);
#[verifier::external_type_specification] #[verifier::external_body] pub struct ExAstFieldDef(ast::FieldDef);
#[verifier::external_type_specification] #[verifier::external_body] pub struct ExAstFieldLet(ast::FieldLet);
#[verifier::external_type_specification] #[verifier::external_body] pub struct ExAstForeach(ast::Foreach);
#[verifier::external_type_specification] #[verifier::external_body] pub struct ExAstIdentifier(ast::Identifier);
#[verifier::external_type_specification] #[verifier::external_body] pub struct ExAstIf(ast::If);
#[verifier::external_type_specification] #[verifier::external_body] pub struct ExAstInclude(ast::Include);
#[verifier::external_type_specification] #[verifier::external_body] pub struct ExAstLet(ast::Let);
#[verifier::external_type_specification] #[verifier::external_body] pub struct ExAstMultiClass(ast::MultiClass);
#[verifier::external_type_specification] #[verifier::external_body] pub struct ExAstParentClassList(ast::ParentClassList);
#[verifier::external_type_specification] #[verifier::external_body] pub struct ExAstRecordBody(ast::RecordBody);
#[verifier::external_type_specification] pub struct ExAstSimpleValue(ast::SimpleValue);
#[verifier::external_type_specification] #[verifier::external_body] pub struct ExAstSourceFile(ast::SourceFile);
#[verifier::external_type_specification] pub struct ExAstStatement(ast::Statement);
#[verifier::external_type_specification] #[verifier::external_body] pub struct ExAstStatementList(ast::StatementList);
#[verifier::external_type_specification] #[verifier::external_body] pub struct ExAstTemplateArgDecl(ast::TemplateArgDecl);
#[verifier::external_type_specification] #[verifier::external_body] pub struct ExAstTemplateArgList(ast::TemplateArgList);
#[verifier::external_type_specification] #[verifier::external_body] pub struct ExAstValue(ast::Value);
#[verifier::external_type_specification] #[verifier::external_body] pub struct ExAstType(ast::Type);

#[verifier::external_type_specification] #[verifier::external_body] pub struct ExAstForeachIterator(ast::ForeachIterator);
#[verifier::external_type_specification] #[verifier::external_body] pub struct ExAstForeachIteratorInit(ast::ForeachIteratorInit);
#[verifier::external_type_specification] #[verifier::external_body] pub struct ExAstLetList(ast::LetList);
#[verifier::external_type_specification] #[verifier::external_body] pub struct ExAstLetItem(ast::LetItem);
#[verifier::external_type_specification] #[verifier::external_body] pub struct ExAstArgValueList(ast::ArgValueList);
#[verifier::external_type_specification] #[verifier::external_body] pub struct ExAstArgValue(ast::ArgValue);
#[verifier::external_type_specification] #[verifier::external_body] pub struct ExAstInnerValue(ast::InnerValue);
#[verifier::external_type_specification] #[verifier::external_body] pub struct ExAstInteger(ast::Integer);
#[verifier::external_type_specification] #[verifier::external_body] pub struct ExAstBangOperator(ast::BangOperator);
#[verifier::external_type_specification] #[verifier::external_body] pub struct ExVariable(Variable);
#[verifier::external_type_specification] #[verifier::external_body] pub struct ExBits(syntax::ast::Bits);
#[verifier::external_type_specification] #[verifier::external_body] pub struct ExBoolean(syntax::ast::Boolean);
#[verifier::external_type_specification] #[verifier::external_body] pub struct ExClassValue(syntax::ast::ClassValue);
#[verifier::external_type_specification] #[verifier::external_body] pub struct ExCode(syntax::ast::Code);
#[verifier::external_type_specification] #[verifier::external_body] pub struct ExCondOperator(syntax::ast::CondOperator);
#[verifier::external_type_specification] #[verifier::external_body] pub struct ExDag(syntax::ast::Dag);
#[verifier::external_type_specification] #[verifier::external_body] pub struct ExLanguage(syntax::Language);
#[verifier::external_type_specification] #[verifier::external_body] pub struct ExList(syntax::ast::List);
#[verifier::external_type_specification] #[verifier::external_body] pub struct ExString(syntax::ast::String);
#[verifier::external_type_specification] #[verifier::external_body] pub struct ExTextSize(syntax::parser::TextSize);
#[verifier::external_type_specification] #[verifier::external_body] pub struct ExUninitialized(syntax::ast::Uninitialized);
pub assume_specification [ide::file_system::FileRange::new] (_0: ide::file_system::FileId, _1: syntax::parser::TextRange) -> ide::file_system::FileRange;
pub assume_specification [ide::symbol_map::SymbolMap::defm_mut] (_0: &mut ide::symbol_map::SymbolMap, _1: id_arena::Id<ide::symbol_map::defm::Defm>) -> &mut ide::symbol_map::defm::Defm;
pub assume_specification [ide::symbol_map::SymbolMap::multiclass_mut] (_0: &mut ide::symbol_map::SymbolMap, _1: id_arena::Id<ide::symbol_map::multiclass::Multiclass>) -> &mut ide::symbol_map::multiclass::Multiclass;
pub assume_specification [ide::symbol_map::SymbolMap::record_mut] (_0: &mut ide::symbol_map::SymbolMap, _1: id_arena::Id<ide::symbol_map::record::Record>) -> &mut ide::symbol_map::record::Record;
pub assume_specification [ide::symbol_map::defm::Defm::add_parent] (_0: &mut ide::symbol_map::defm::Defm, _1: id_arena::Id<ide::symbol_map::multiclass::Multiclass>);
pub assume_specification [ide::symbol_map::multiclass::Multiclass::add_parent] (_0: &mut ide::symbol_map::multiclass::Multiclass, _1: id_arena::Id<ide::symbol_map::multiclass::Multiclass>);
pub assume_specification [ide::symbol_map::multiclass::Multiclass::add_template_arg] (_0: &mut ide::symbol_map::multiclass::Multiclass, _1: ecow::EcoString, _2: id_arena::Id<ide::symbol_map::template_arg::TemplateArgument>);
pub assume_specification [ide::symbol_map::record::Record::add_parent] (_0: &mut ide::symbol_map::record::Record, _1: id_arena::Id<ide::symbol_map::record::Record>);
pub assume_specification [ide::symbol_map::record::Record::add_template_arg] (_0: &mut ide::symbol_map::record::Record, _1: ecow::EcoString, _2: id_arena::Id<ide::symbol_map::template_arg::TemplateArgument>);
pub assume_specification [syntax::parser::TextRange::start] (_0: syntax::parser::TextRange) -> syntax::parser::TextSize;
// ---------- ghost views ----------
pub enum Fk { Root, Record, Foreach, Defset, Multiclass, Defm, Other }
pub uninterp spec fn scopes_view(s: &Scopes) -> Seq<Fk>;
pub uninterp spec fn kind_view(k: &ScopeKind) -> Fk;
pub open spec fn frames(ctx: &IndexCtx) -> Seq<Fk> { scopes_view(&ctx.scopes) }
pub open spec fn cwf(ctx: &IndexCtx) -> bool { frames(ctx).len() > 0 && ctx.file_trace@.len() > 0 }
pub open spec fn has(ctx: &IndexCtx, k: Fk) -> bool { frames(ctx).contains(k) }
pub open spec fn has_record(ctx: &IndexCtx) -> bool { has(ctx, Fk::Record) }
pub open spec fn has_multiclass(ctx: &IndexCtx) -> bool { has(ctx, Fk::Multiclass) }
pub open spec fn has_defm(ctx: &IndexCtx) -> bool { has(ctx, Fk::Defm) }

// ---------- assumed contracts: ide::index::scope / context ----------
pub assume_specification [Scopes::push] (s: &mut Scopes, kind: ScopeKind)
    ensures scopes_view(final(s)) == scopes_view(old(s)).push(kind_view(&kind)),
        scopes_view(final(s)).contains(kind_view(&kind)),
        forall|k: Fk| scopes_view(old(s)).contains(k) ==> #[trigger] scopes_view(final(s)).contains(k);
pub assume_specification [Scopes::pop] (s: &mut Scopes) -> ide::index::scope::Scope
    requires scopes_view(old(s)).len() > 0
    ensures scopes_view(final(s)) == scopes_view(old(s)).drop_last();
#[verifier::external_type_specification] #[verifier::external_body] pub struct ExScope(ide::index::scope::Scope);
pub assume_specification [Scopes::current_record_id] (s: &Scopes) -> (r: Option<RecordId>)
    ensures r.is_some() == scopes_view(s).contains(Fk::Record);
pub assume_specification [Scopes::current_multiclass_id] (s: &Scopes) -> (r: Option<MulticlassId>)
    ensures r.is_some() == scopes_view(s).contains(Fk::Multiclass);
pub assume_specification [Scopes::current_defm_id] (s: &Scopes) -> (r: Option<ide::symbol_map::defm::DefmId>)
    ensures r.is_some() == scopes_view(s).contains(Fk::Defm);
pub assume_specification<'a> [IndexCtx::<'a>::current_file_id] (c: &IndexCtx<'a>) -> FileId
    requires c.file_trace@.len() > 0;
pub assume_specification<'a, M: Into<String>> [IndexCtx::<'a>::error] (c: &mut IndexCtx<'a>, range: TextRange, message: M)
    requires old(c).file_trace@.len() > 0
    ensures final(c).scopes == old(c).scopes, final(c).file_trace == old(c).file_trace;

// ScopeKind constructors are enum variants of an opaque external type: wrap as assumed functions
#[verifier::external_body] pub fn sk_record(id: RecordId) -> (k: ScopeKind) ensures kind_view(&k) == Fk::Record { ScopeKind::Record(id) }
#[verifier::external_body] pub fn sk_multiclass(id: MulticlassId) -> (k: ScopeKind) ensures kind_view(&k) == Fk::Multiclass { ScopeKind::Multiclass(id) }

// ---------- assumed contracts: symbol map (no functional content needed for the frame property) ----------
pub assume_specification [SymbolMap::add_record] (m: &mut SymbolMap, record: Record, is_global: bool) -> RecordId;
pub assume_specification [SymbolMap::add_multiclass] (m: &mut SymbolMap, mc: Multiclass) -> MulticlassId;
pub assume_specification [SymbolMap::add_template_argument] (m: &mut SymbolMap, t: TemplateArgument) -> ide::symbol_map::template_arg::TemplateArgumentId;
pub assume_specification [Record::new] (name: EcoString, kind: RecordKind, define_loc: FileRange) -> Record;
pub assume_specification [Multiclass::new] (name: EcoString, define_loc: FileRange) -> Multiclass;
pub assume_specification [TemplateArgument::new] (name: EcoString, typ: Type, has_default_value: bool, define_loc: FileRange) -> TemplateArgument;
pub assume_specification [<EcoString as Clone>::clone] (s: &EcoString) -> EcoString;

pub assume_specification [ast::SourceFile::statement_list] (s: &ast::SourceFile) -> Option<ast::StatementList>;
pub assume_specification [ast::StatementList::statements] (s: &ast::StatementList) -> impl Iterator<Item = ast::Statement>;
pub assume_specification [ast::Class::name] (s: &ast::Class) -> Option<ast::Identifier>;
pub assume_specification [ast::Class::template_arg_list] (s: &ast::Class) -> Option<ast::TemplateArgList>;
pub assume_specification [ast::Class::record_body] (s: &ast::Class) -> Option<ast::RecordBody>;
pub assume_specification [ast::MultiClass::name] (s: &ast::MultiClass) -> Option<ast::Identifier>;
pub assume_specification [ast::MultiClass::template_arg_list] (s: &ast::MultiClass) -> Option<ast::TemplateArgList>;
pub assume_specification [ast::MultiClass::parent_class_list] (s: &ast::MultiClass) -> Option<ast::ParentClassList>;
pub assume_specification [ast::MultiClass::statement_list] (s: &ast::MultiClass) -> Option<ast::StatementList>;
pub assume_specification [ast::RecordBody::parent_class_list] (s: &ast::RecordBody) -> Option<ast::ParentClassList>;
pub assume_specification [ast::RecordBody::body] (s: &ast::RecordBody) -> Option<ast::Body>;
pub assume_specification [ast::ParentClassList::classes] (s: &ast::ParentClassList) -> impl Iterator<Item = ast::ClassRef>;
pub assume_specification [ast::TemplateArgList::args] (s: &ast::TemplateArgList) -> impl Iterator<Item = ast::TemplateArgDecl>;
pub assume_specification [ast::TemplateArgDecl::name] (s: &ast::TemplateArgDecl) -> Option<ast::Identifier>;
pub assume_specification [ast::TemplateArgDecl::r#type] (s: &ast::TemplateArgDecl) -> Option<ast::Type>;
pub assume_specification [ast::TemplateArgDecl::value] (s: &ast::TemplateArgDecl) -> Option<ast::Value>;
pub assume_specification [ast::Body::items] (s: &ast::Body) -> impl Iterator<Item = ast::BodyItem>;
pub assume_specification [ast::Identifier::value] (s: &ast::Identifier) -> Option<EcoString>;
pub assume_specification [ast::Identifier::range] (s: &ast::Identifier) -> Option<TextRange>;

pub trait Indexable {
    type Output;
    spec fn pre(&self, ctx: &IndexCtx) -> bool;
    fn index(&self, ctx: &mut IndexCtx) -> (ret: Option<Self::Output>)
        requires cwf(old(ctx)), self.pre(old(ctx))
        ensures cwf(final(ctx)), frames(final(ctx)) =~= frames(old(ctx)), final(ctx).file_trace@ =~= old(ctx).file_trace@;
}

impl Indexable for ast::SourceFile {
    type Output = ();
    open spec fn pre(&self, ctx: &IndexCtx) -> bool { true }
    #[verifier::exec_allows_no_decreases_clause]
    fn index(&self, ctx: &mut IndexCtx) -> (ret: Option<Self::Output>) {
        self.statement_list()?.index(ctx);
        None
    }
}

impl Indexable for ast::StatementList {
    type Output = ();
    open spec fn pre(&self, ctx: &IndexCtx) -> bool { true }
    #[verifier::exec_allows_no_decreases_clause]
    fn index(&self, ctx: &mut IndexCtx) -> (ret: Option<Self::Output>) {
        let mut __it = IntoIterator::into_iter(self.statements());
        loop
            invariant cwf(ctx), frames(ctx) =~= frames(old(ctx)), ctx.file_trace@ =~= old(ctx).file_trace@, true,
        {
            let Some(statement) = __it.next() else { break; };
            statement.index(ctx);
        }
        None
    }
}

impl Indexable for ast::Statement {
    type Output = ();
    open spec fn pre(&self, ctx: &IndexCtx) -> bool { true }
    #[verifier::exec_allows_no_decreases_clause]
    fn index(&self, ctx: &mut IndexCtx) -> (ret: Option<Self::Output>) {
        match self {
            ast::Statement::Include(include) => include.index(ctx),
            ast::Statement::Assert(assert_) => assert_.index(ctx),
            ast::Statement::Class(class) => class.index(ctx),
            ast::Statement::Def(def) => def.index(ctx),
            ast::Statement::Defm(defm) => defm.index(ctx),
            ast::Statement::Defset(defset) => defset.index(ctx),
            ast::Statement::Defvar(defvar) => defvar.index(ctx),
            ast::Statement::Dump(dump) => dump.index(ctx),
            ast::Statement::Foreach(foreach) => foreach.index(ctx),
            ast::Statement::If(if_) => if_.index(ctx),
            ast::Statement::Let(let_) => let_.index(ctx),
            ast::Statement::MultiClass(multiclass) => multiclass.index(ctx),
        }
    }
}

impl Indexable for ast::Class {
    type Output = ();
    open spec fn pre(&self, ctx: &IndexCtx) -> bool { true }
    #[verifier::exec_allows_no_decreases_clause]
    fn index(&self, ctx: &mut IndexCtx) -> (ret: Option<Self::Output>) {
        let (name, define_loc) = utils::identifier(&self.name()?, ctx)?;
        let record = Record::new(name, RecordKind::Class, define_loc);
        let record_id = ctx.symbol_map.add_record(record, true);

        ctx.scopes.push(sk_record(record_id));
        if let Some(list) = self.template_arg_list() {
            list.index(ctx);
        }
        if let Some(body) = self.record_body() {
            body.index(ctx);
        }
        ctx.scopes.pop();

        None
    }
}

impl Indexable for ast::MultiClass {
    type Output = ();
    open spec fn pre(&self, ctx: &IndexCtx) -> bool { true }
    #[verifier::exec_allows_no_decreases_clause]
    fn index(&self, ctx: &mut IndexCtx) -> (ret: Option<Self::Output>) {
        let (name, define_loc) = utils::identifier(&self.name()?, ctx)?;
        let multiclass = Multiclass::new(name, define_loc);
        let multiclass_id = ctx.symbol_map.add_multiclass(multiclass);

        ctx.scopes.push(sk_multiclass(multiclass_id));
        self.template_arg_list()?.index(ctx);
        self.parent_class_list()?.index(ctx);
        self.statement_list()?.index(ctx);
        ctx.scopes.pop();

        None
    }
}

impl Indexable for ast::RecordBody {
    type Output = ();
    open spec fn pre(&self, ctx: &IndexCtx) -> bool { has_record(ctx) }
    #[verifier::exec_allows_no_decreases_clause]
    fn index(&self, ctx: &mut IndexCtx) -> (ret: Option<Self::Output>) {
        self.parent_class_list()?.index(ctx);
        self.body()?.index(ctx);
        None
    }
}

impl Indexable for ast::ParentClassList {
    type Output = ();
    open spec fn pre(&self, ctx: &IndexCtx) -> bool { has_record(ctx) || has_multiclass(ctx) || has_defm(ctx) }
    #[verifier::exec_allows_no_decreases_clause]
    fn index(&self, ctx: &mut IndexCtx) -> (ret: Option<Self::Output>) {
        if let Some(record_id) = ctx.scopes.current_record_id() {
            let mut __it = IntoIterator::into_iter(self.classes());
            loop
                invariant cwf(ctx), frames(ctx) =~= frames(old(ctx)), ctx.file_trace@ =~= old(ctx).file_trace@, has_record(ctx) || has_multiclass(ctx) || has_defm(ctx),
            {
                let Some(class_ref) = __it.next() else { break; };
                if let Some(class_id) = resolve_class_ref_as_class(&class_ref, ctx) {
                    let record = ctx.symbol_map.record_mut(record_id);
                    record.add_parent(class_id);
                }
            }
        } else if let Some(multiclass_id) = ctx.scopes.current_multiclass_id() {
            let mut __it = IntoIterator::into_iter(self.classes());
            loop
                invariant cwf(ctx), frames(ctx) =~= frames(old(ctx)), ctx.file_trace@ =~= old(ctx).file_trace@, has_record(ctx) || has_multiclass(ctx) || has_defm(ctx),
            {
                let Some(class_ref) = __it.next() else { break; };
                if let Some(parent_multiclass_id) = resolve_class_ref_as_multiclass(&class_ref, ctx)
                {
                    let multiclass = ctx.symbol_map.multiclass_mut(multiclass_id);
                    multiclass.add_parent(parent_multiclass_id);
                }
            }
        } else if let Some(defm_id) = ctx.scopes.current_defm_id() {
            let mut __it = IntoIterator::into_iter(self.classes());
            loop
                invariant cwf(ctx), frames(ctx) =~= frames(old(ctx)), ctx.file_trace@ =~= old(ctx).file_trace@, has_record(ctx) || has_multiclass(ctx) || has_defm(ctx),
            {
                let Some(class_ref) = __it.next() else { break; };
                if let Some(parent_multiclass_id) = resolve_class_ref_as_multiclass(&class_ref, ctx)
                {
                    let defm = ctx.symbol_map.defm_mut(defm_id);
                    defm.add_parent(parent_multiclass_id);
                }
            }
        } else {
            panic!("parent class list outside of record or multiclass");
        }
        None
    }
}

impl Indexable for ast::TemplateArgList {
    type Output = ();
    open spec fn pre(&self, ctx: &IndexCtx) -> bool { has_record(ctx) || has_multiclass(ctx) }
    #[verifier::exec_allows_no_decreases_clause]
    fn index(&self, ctx: &mut IndexCtx) -> (ret: Option<Self::Output>) {
        let mut __it = IntoIterator::into_iter(self.args());
        loop
            invariant cwf(ctx), frames(ctx) =~= frames(old(ctx)), ctx.file_trace@ =~= old(ctx).file_trace@, has_record(ctx) || has_multiclass(ctx),
        {
            let Some(template_arg) = __it.next() else { break; };
            template_arg.index(ctx);
        }
        None
    }
}

impl Indexable for ast::TemplateArgDecl {
    type Output = ();
    open spec fn pre(&self, ctx: &IndexCtx) -> bool { has_record(ctx) || has_multiclass(ctx) }
    #[verifier::exec_allows_no_decreases_clause]
    fn index(&self, ctx: &mut IndexCtx) -> (ret: Option<Self::Output>) {
        let (name, define_loc) = utils::identifier(&self.name()?, ctx)?;
        let typ = self.r#type()?.index(ctx)?;
        let has_default_value = self.value().is_some();
        let template_arg = TemplateArgument::new(name.clone(), typ, has_default_value, define_loc);
        let template_arg_id = ctx.symbol_map.add_template_argument(template_arg);

        if let Some(record_id) = ctx.scopes.current_record_id() {
            let record = ctx.symbol_map.record_mut(record_id);
            record.add_template_arg(name, template_arg_id);
        } else if let Some(multiclass_id) = ctx.scopes.current_multiclass_id() {
            let multiclass = ctx.symbol_map.multiclass_mut(multiclass_id);
            multiclass.add_template_arg(name, template_arg_id);
        } else {
            panic!("template arg decl outside of record or multiclass");
        }

        if let Some(value) = self.value() {
            value.index(ctx);
        }

        None
    }
}

impl Indexable for ast::Body {
    type Output = ();
    open spec fn pre(&self, ctx: &IndexCtx) -> bool { has_record(ctx) }
    #[verifier::exec_allows_no_decreases_clause]
    fn index(&self, ctx: &mut IndexCtx) -> (ret: Option<Self::Output>) {
        let mut __it = IntoIterator::into_iter(self.items());
        loop
            invariant cwf(ctx), frames(ctx) =~= frames(old(ctx)), ctx.file_trace@ =~= old(ctx).file_trace@, has_record(ctx),
        {
            let Some(item) = __it.next() else { break; };
            item.index(ctx);
        }
        None
    }
}

impl Indexable for ast::BodyItem {
    type Output = ();
    open spec fn pre(&self, ctx: &IndexCtx) -> bool { has_record(ctx) }
    #[verifier::exec_allows_no_decreases_clause]
    fn index(&self, ctx: &mut IndexCtx) -> (ret: Option<Self::Output>) {
        match self {
            ast::BodyItem::FieldDef(field_def) => field_def.index(ctx),
            ast::BodyItem::FieldLet(field_let) => field_let.index(ctx),
            ast::BodyItem::Assert(assert_) => assert_.index(ctx),
            ast::BodyItem::Defvar(defvar) => defvar.index(ctx),
            ast::BodyItem::Dump(dump) => dump.index(ctx),
        }
    }
}

impl Indexable for ast::Include {
    type Output = ();
    open spec fn pre(&self, ctx: &IndexCtx) -> bool { true }
    #[verifier::external_body]
    fn index(&self, ctx: &mut IndexCtx) -> (ret: Option<Self::Output>) {
        let file_id = ctx.current_file_id();
        let include_map = ctx.db.resolved_include_map(file_id);

        let include_id = IncludeId(SyntaxNodePtr::new(self.syntax()));
        let Some(include_file_id) = include_map.get(&include_id).copied() else {
            let path = self.path().map(|it| it.value()).unwrap_or_default();
            ctx.error(
                self.syntax().text_range(),
                format!("include file not found: {path}"),
            );
            return None;
        };

        let parse = ctx.db.parse(include_file_id);
        let source_file = ast::SourceFile::cast(parse.syntax_node())?;

        ctx.push_file(include_file_id);
        source_file.index(ctx);
        ctx.pop_file();

        None
    }
}

impl Indexable for ast::Assert {
    type Output = ();
    open spec fn pre(&self, ctx: &IndexCtx) -> bool { true }
    #[verifier::external_body]
    fn index(&self, ctx: &mut IndexCtx) -> (ret: Option<Self::Output>) {
        self.message()?.index(ctx);
        self.condition()?.index(ctx);
        None
    }
}

impl Indexable for ast::Def {
    type Output = ();
    open spec fn pre(&self, ctx: &IndexCtx) -> bool { true }
    #[verifier::external_body]
    fn index(&self, ctx: &mut IndexCtx) -> (ret: Option<Self::Output>) {
        let defset_id = ctx.scopes.current_defset_id();

        let def_id = match self.name() {
            Some(name_value) => {
                let (name, define_loc) = index_name_value(name_value, ctx)?;
                let def = Record::new(name, RecordKind::Def, define_loc);
                ctx.symbol_map.add_record(def, defset_id.is_none())
            }
            None => {
                let name = ctx.next_anonymous_def_name();
                let def = Record::new(
                    name,
                    RecordKind::Def,
                    FileRange::new(ctx.current_file_id(), self.syntax().text_range()),
                );
                ctx.symbol_map.add_anonymous_def(def)
            }
        };

        if let Some(defset_id) = defset_id {
            let defset = ctx.symbol_map.defset_mut(defset_id);
            defset.add_def(def_id);
        }

        ctx.scopes.push(ScopeKind::Record(def_id));
        self.record_body()?.index(ctx);
        ctx.scopes.pop();

        None
    }
}

impl Indexable for ast::Defm {
    type Output = ();
    open spec fn pre(&self, ctx: &IndexCtx) -> bool { true }
    #[verifier::external_body]
    fn index(&self, ctx: &mut IndexCtx) -> (ret: Option<Self::Output>) {
        let defset_id = ctx.scopes.current_defset_id();

        let defm_id = match self.name() {
            Some(name_value) => {
                let (name, define_loc) = index_name_value(name_value, ctx)?;
                let defm = Defm::new(name, define_loc);
                ctx.symbol_map.add_defm(defm, defset_id.is_none())
            }
            None => {
                let name = ctx.next_anonymous_def_name();
                let defm = Defm::new(
                    name,
                    FileRange::new(ctx.current_file_id(), self.syntax().text_range()),
                );
                ctx.symbol_map.add_anonymous_defm(defm)
            }
        };

        ctx.scopes.push(ScopeKind::Defm(defm_id));
        self.parent_class_list()?.index(ctx);
        ctx.scopes.pop();

        None
    }
}

impl Indexable for ast::Defset {
    type Output = ();
    open spec fn pre(&self, ctx: &IndexCtx) -> bool { true }
    #[verifier::external_body]
    fn index(&self, ctx: &mut IndexCtx) -> (ret: Option<Self::Output>) {
        let (name, define_loc) = utils::identifier(&self.name()?, ctx)?;
        let typ = self.r#type()?.index(ctx)?;
        let defset = Defset::new(name, typ, define_loc);
        let defset_id = ctx.symbol_map.add_defset(defset);

        ctx.scopes.push(ScopeKind::Defset(defset_id));
        self.statement_list()?.index(ctx);
        ctx.scopes.pop();

        None
    }
}

impl Indexable for ast::Defvar {
    type Output = ();
    open spec fn pre(&self, ctx: &IndexCtx) -> bool { true }
    #[verifier::external_body]
    fn index(&self, ctx: &mut IndexCtx) -> (ret: Option<Self::Output>) {
        let (name, define_loc) = utils::identifier(&self.name()?, ctx)?;
        let typ = self.value()?.index(ctx)?;
        let variable = Variable::new(name, typ, VariableKind::Defvar, define_loc);
        ctx.scopes.add_variable(&mut ctx.symbol_map, variable);
        None
    }
}

impl Indexable for ast::Dump {
    type Output = ();
    open spec fn pre(&self, ctx: &IndexCtx) -> bool { true }
    #[verifier::external_body]
    fn index(&self, ctx: &mut IndexCtx) -> (ret: Option<Self::Output>) {
        self.value()?.index(ctx);
        None
    }
}

impl Indexable for ast::Foreach {
    type Output = ();
    open spec fn pre(&self, ctx: &IndexCtx) -> bool { true }
    #[verifier::external_body]
    fn index(&self, ctx: &mut IndexCtx) -> (ret: Option<Self::Output>) {
        let (name, variable_id) = self.iterator()?.index(ctx)?;
        ctx.scopes.push(ScopeKind::Foreach(name, variable_id));
        self.body()?.index(ctx);
        ctx.scopes.pop();
        None
    }
}

impl Indexable for ast::If {
    type Output = ();
    open spec fn pre(&self, ctx: &IndexCtx) -> bool { true }
    #[verifier::external_body]
    fn index(&self, ctx: &mut IndexCtx) -> (ret: Option<Self::Output>) {
        self.condition()?.index(ctx);
        self.then_body()?.index(ctx);
        self.else_body()?.index(ctx);
        None
    }
}

impl Indexable for ast::Let {
    type Output = ();
    open spec fn pre(&self, ctx: &IndexCtx) -> bool { true }
    #[verifier::external_body]
    fn index(&self, ctx: &mut IndexCtx) -> (ret: Option<Self::Output>) {
        self.let_list()?.index(ctx);
        self.statement_list()?.index(ctx);
        None
    }
}

impl Indexable for ast::FieldDef {
    type Output = ();
    open spec fn pre(&self, ctx: &IndexCtx) -> bool { has_record(ctx) }
    #[verifier::external_body]
    fn index(&self, ctx: &mut IndexCtx) -> (ret: Option<Self::Output>) {
        let record_id = ctx
            .scopes
            .current_record_id()
            .expect("field def outside of record");

        let (name, define_loc) = utils::identifier(&self.name()?, ctx)?;
        let typ = self.r#type()?.index(ctx)?;
        let field = RecordField::new(name.clone(), typ.clone(), record_id, define_loc);
        let field_id = ctx.symbol_map.add_record_field(field);

        let record = ctx.symbol_map.record_mut(record_id);
        record.add_record_field(name.clone(), field_id);

        let value_typ = self.value()?.index(ctx)?;
        if !value_typ.can_be_casted_to(&ctx.symbol_map, &typ) {
            ctx.error(
                self.value()?.syntax().text_range(),
                format!("field '{name}' of type '{typ}' is incompatible with type '{value_typ}'",),
            );
        }

        None
    }
}

impl Indexable for ast::FieldLet {
    type Output = ();
    open spec fn pre(&self, ctx: &IndexCtx) -> bool { has_record(ctx) }
    #[verifier::external_body]
    fn index(&self, ctx: &mut IndexCtx) -> (ret: Option<Self::Output>) {
        let (name, reference_loc) = utils::identifier(&self.name()?, ctx)?;

        let record_id = ctx
            .scopes
            .current_record_id()
            .expect("field let outside of record");
        let record = ctx.symbol_map.record(record_id);

        let field_id = record.find_field(&ctx.symbol_map, &name)?;
        let field = ctx.symbol_map.record_field(field_id);
        let field_typ = field.typ.clone();

        let new_field = RecordField::new(name.clone(), field_typ.clone(), record_id, reference_loc);
        let new_field_id = ctx.symbol_map.add_record_field(new_field);

        let record = ctx.symbol_map.record_mut(record_id);
        record.add_record_field(name.clone(), new_field_id);
        ctx.symbol_map.add_reference(field_id, reference_loc);

        let value_typ = self.value()?.index(ctx)?;
        if !value_typ.can_be_casted_to(&ctx.symbol_map, &field_typ) {
            ctx.error(
                self.value()?.syntax().text_range(),
                format!(
                    "field '{name}' of type '{field_typ}' is incompatible with type '{value_typ}'",
                ),
            );
        }

        None
    }
}

#[verifier::external_body]
fn index_name_value(value: ast::Value, ctx: &mut IndexCtx) -> (ret: Option<(EcoString, FileRange)>)
    requires cwf(old(ctx))
    ensures cwf(final(ctx)), frames(final(ctx)) =~= frames(old(ctx)), final(ctx).file_trace@ =~= old(ctx).file_trace@
{
    let name = value.inner_values().next()?;
    match name.simple_value()? {
        ast::SimpleValue::Identifier(id) => utils::identifier(&id, ctx),
        _ => None,
    }
}

#[verifier::external_body]
fn resolve_class_ref_as_class(class_ref: &ast::ClassRef, ctx: &mut IndexCtx) -> (ret: Option<RecordId>)
    requires cwf(old(ctx))
    ensures cwf(final(ctx)), frames(final(ctx)) =~= frames(old(ctx)), final(ctx).file_trace@ =~= old(ctx).file_trace@
{ unimplemented!() }

#[verifier::external_body]
fn resolve_class_ref_as_multiclass(
    class_ref: &ast::ClassRef,
    ctx: &mut IndexCtx,
) -> (ret: Option<MulticlassId>)
    requires cwf(old(ctx))
    ensures cwf(final(ctx)), frames(final(ctx)) =~= frames(old(ctx)), final(ctx).file_trace@ =~= old(ctx).file_trace@
{ unimplemented!() }

mod utils {
    use super::*;
    use ecow::EcoString;
    use syntax::ast;

    pub(super) fn identifier(
        identifier_: &ast::Identifier,
        ctx: &mut IndexCtx,
    ) -> (ret: Option<(EcoString, FileRange)>)
        requires cwf(old(ctx))
        ensures cwf(final(ctx)), frames(final(ctx)) =~= frames(old(ctx)), final(ctx).file_trace@ =~= old(ctx).file_trace@
    {
        let name = identifier_.value()?;
        let loc = FileRange::new(ctx.current_file_id(), identifier_.range()?);
        Some((name, loc))
    }
}
impl Indexable for ast::ForeachIterator {
    type Output = (EcoString, VariableId);
    open spec fn pre(&self, ctx: &IndexCtx) -> bool { true }
    #[verifier::external_body]
    fn index(&self, ctx: &mut IndexCtx) -> (ret: Option<Self::Output>) { unimplemented!() }
}

impl Indexable for ast::ForeachIteratorInit {
    type Output = Type;
    open spec fn pre(&self, ctx: &IndexCtx) -> bool { true }
    #[verifier::external_body]
    fn index(&self, ctx: &mut IndexCtx) -> (ret: Option<Self::Output>) { unimplemented!() }
}

impl Indexable for ast::LetList {
    type Output = ();
    open spec fn pre(&self, ctx: &IndexCtx) -> bool { true }
    #[verifier::external_body]
    fn index(&self, ctx: &mut IndexCtx) -> (ret: Option<Self::Output>) { unimplemented!() }
}

impl Indexable for ast::LetItem {
    type Output = ();
    open spec fn pre(&self, ctx: &IndexCtx) -> bool { true }
    #[verifier::external_body]
    fn index(&self, ctx: &mut IndexCtx) -> (ret: Option<Self::Output>) { unimplemented!() }
}

impl Indexable for ast::ArgValueList {
    type Output = Vec<Option<(Option<EcoString>, Type, TextRange)>>;
    open spec fn pre(&self, ctx: &IndexCtx) -> bool { true }
    #[verifier::external_body]
    fn index(&self, ctx: &mut IndexCtx) -> (ret: Option<Self::Output>) { unimplemented!() }
}

impl Indexable for ast::ArgValue {
    type Output = (Option<EcoString>, Type, TextRange);
    open spec fn pre(&self, ctx: &IndexCtx) -> bool { true }
    #[verifier::external_body]
    fn index(&self, ctx: &mut IndexCtx) -> (ret: Option<Self::Output>) { unimplemented!() }
}

impl Indexable for ast::Value {
    type Output = Type;
    open spec fn pre(&self, ctx: &IndexCtx) -> bool { true }
    #[verifier::external_body]
    fn index(&self, ctx: &mut IndexCtx) -> (ret: Option<Self::Output>) { unimplemented!() }
}

impl Indexable for ast::InnerValue {
    type Output = Type;
    open spec fn pre(&self, ctx: &IndexCtx) -> bool { true }
    #[verifier::external_body]
    fn index(&self, ctx: &mut IndexCtx) -> (ret: Option<Self::Output>) { unimplemented!() }
}

impl Indexable for ast::SimpleValue {
    type Output = Type;
    open spec fn pre(&self, ctx: &IndexCtx) -> bool { true }
    #[verifier::external_body]
    fn index(&self, ctx: &mut IndexCtx) -> (ret: Option<Self::Output>) { unimplemented!() }
}

impl Indexable for ast::Type {
    type Output = Type;
    open spec fn pre(&self, ctx: &IndexCtx) -> bool { true }
    #[verifier::external_body]
    fn index(&self, ctx: &mut IndexCtx) -> (ret: Option<Self::Output>) { unimplemented!() }
}

impl Indexable for ast::Integer {
    type Output = i64;
    open spec fn pre(&self, ctx: &IndexCtx) -> bool { true }
    #[verifier::external_body]
    fn index(&self, ctx: &mut IndexCtx) -> (ret: Option<Self::Output>) { unimplemented!() }
}

impl Indexable for ast::BangOperator {
    type Output = Type;
    open spec fn pre(&self, ctx: &IndexCtx) -> bool { true }
    #[verifier::external_body]
    fn index(&self, ctx: &mut IndexCtx) -> (ret: Option<Self::Output>) { unimplemented!() }
}

}
fn main(){}