use vstd::prelude::*;

macro_rules! T {
    [;] => {TokenKind::Semi};
    [class] => {TokenKind::Class};
    [,] => {TokenKind::Comma};
    ['{'] => {TokenKind::LBrace};
}

verus! {

#[derive(Debug, Clone, Copy, PartialEq, Eq, Structural)]
pub enum TokenKind { Eof, Whitespace, Error, Semi, Class, Comma, LBrace, Id, XAdd }

impl TokenKind {
    pub fn is_trivia(&self) -> (r: bool)
        ensures r == (*self == TokenKind::Whitespace)
    {
        matches!(self, Self::Whitespace)
    }
    pub fn is_bang(&self) -> bool { matches!(self, Self::XAdd) }
}

pub trait TokenStream {
    spec fn remaining(&self) -> nat;
    fn eat(&mut self) -> (r: TokenKind)
        ensures
            r != TokenKind::Eof ==> final(self).remaining() < old(self).remaining(),
            r == TokenKind::Eof ==> final(self).remaining() == 0 && old(self).remaining() == 0;
    fn cursor(&self) -> usize;
}

pub struct ParserBase<T: TokenStream> {
    token_stream: T,
    current: TokenKind,
    is_after_error: bool,
}

impl<T: TokenStream> ParserBase<T> {
    pub closed spec fn fuel(&self) -> nat {
        self.token_stream.remaining() + if self.current != TokenKind::Eof { 1nat } else { 0nat }
    }
    pub closed spec fn srem(&self) -> nat { self.token_stream.remaining() }
    pub closed spec fn cur(&self) -> TokenKind { self.current }

    #[inline]
    pub(crate) fn peek(&self) -> (r: TokenKind)
        ensures r == self.cur()
    {
        self.current
    }

    #[inline]
    pub(crate) fn at(&self, kind: TokenKind) -> (r: bool)
        ensures r == (self.cur() == kind)
    {
        self.peek() == kind
    }

    pub(crate) fn eof(&self) -> (r: bool)
        ensures r == (self.cur() == TokenKind::Eof)
    {
        self.at(TokenKind::Eof)
    }

    pub fn lex(&mut self)
        ensures
            final(self).cur() != TokenKind::Eof ==> final(self).srem() < old(self).srem(),
            final(self).srem() <= old(self).srem(),
    {
        self.current = self.token_stream.eat();
    }

    pub fn skip(&mut self)
        ensures final(self).fuel() <= old(self).fuel(),
            !final(self).cur().is_trivia_spec(),
    {
        while self.current.is_trivia()
            invariant self.fuel() <= old(self).fuel(),
            decreases self.fuel(),
        {
            self.lex();
        }
    }

    pub(crate) fn eat(&mut self)
        ensures
            old(self).cur() != TokenKind::Eof ==> final(self).fuel() < old(self).fuel(),
            final(self).fuel() <= old(self).fuel(),
    {
        self.lex();
        self.skip();
    }

    pub(crate) fn eat_if(&mut self, kind: TokenKind) -> (r: bool)
        ensures
            r == (old(self).cur() == kind),
            r && kind != TokenKind::Eof ==> final(self).fuel() < old(self).fuel(),
            final(self).fuel() <= old(self).fuel(),
            !r ==> *final(self) == *old(self),
    {
        if self.at(kind) {
            self.eat();
            true
        } else {
            false
        }
    }

    #[inline]
    pub(crate) fn assert(&mut self, kind: TokenKind)
        requires old(self).cur() == kind
        ensures kind != TokenKind::Eof ==> final(self).fuel() < old(self).fuel(),
            final(self).fuel() <= old(self).fuel(),
    {
        assert!(self.eat_if(kind));
    }
}

impl TokenKind {
    pub open spec fn is_trivia_spec(&self) -> bool { *self == TokenKind::Whitespace }
}


pub assume_specification<T: core::cmp::PartialEq> [<[T]>::contains] (s: &[T], x: &T) -> (r: bool)
    ensures r == s@.contains(*x);

pub(crate) type Parser = ParserBase<Lx>;
pub struct Lx { r: usize }
impl TokenStream for Lx {
    closed spec fn remaining(&self) -> nat { self.r as nat }
    #[verifier::external_body]
    fn eat(&mut self) -> (r: TokenKind) { unimplemented!() }
    #[verifier::external_body]
    fn cursor(&self) -> usize { 0 }
}

#[derive(Debug)]
pub(crate) enum CompletedMarker { Success, Fail }

impl CompletedMarker {
    pub(crate) fn is_success(&self) -> bool {
        matches!(self, Self::Success)
    }
    pub(crate) fn or_error(self, parser: &mut Parser, message: impl Into<String>)
        ensures final(parser).fuel() == old(parser).fuel(), final(parser).cur() == old(parser).cur()
    {
        if !self.is_success() {
            parser.error(message);
        }
    }
}

impl<T: TokenStream> ParserBase<T> {
    #[verifier::external_body]
    pub(crate) fn error(&mut self, message: impl Into<String>)
        ensures final(self).fuel() == old(self).fuel(), final(self).cur() == old(self).cur()
    { unimplemented!() }

    #[verifier::external_body]
    pub(crate) fn start_node(&mut self, kind: u16)
        ensures final(self).fuel() == old(self).fuel(), final(self).cur() == old(self).cur()
    { unimplemented!() }
    #[verifier::external_body]
    pub(crate) fn finish_node(&mut self)
        ensures final(self).fuel() == old(self).fuel(), final(self).cur() == old(self).cur()
    { unimplemented!() }

    pub(crate) fn at_set(&self, set: &[TokenKind]) -> (r: bool)
        ensures r == set@.contains(self.cur())
    {
        set.contains(&self.peek())
    }
    pub(crate) fn error_and_eat(&mut self, message: impl Into<String>)
        ensures
            old(self).cur() != TokenKind::Eof ==> final(self).fuel() < old(self).fuel(),
            final(self).fuel() <= old(self).fuel(),
    {
        self.error(message);
        self.start_node(0);
        self.eat();
        self.finish_node();
    }
}

pub(crate) fn identifier(p: &mut Parser) -> (r: CompletedMarker)
    ensures final(p).fuel() <= old(p).fuel(),
{
    p.start_node(1);
    if p.eat_if(TokenKind::Id) {
        p.finish_node();
        CompletedMarker::Success
    } else {
        p.finish_node();
        CompletedMarker::Fail
    }
}

pub(crate) fn statement(p: &mut Parser)
    requires old(p).cur() != TokenKind::Eof
    ensures final(p).fuel() < old(p).fuel(),
    decreases old(p).fuel(), 2nat
{
    match p.peek() {
        T![class] => class(p),
        kind if kind.is_bang() => p.error_and_eat("bang"),
        _ => p.error_and_eat("expected class, def"),
    }
}

pub(crate) fn class(p: &mut Parser)
    requires old(p).cur() == TokenKind::Class
    ensures final(p).fuel() < old(p).fuel(),
    decreases old(p).fuel(), 0nat
{
    p.start_node(2);
    p.assert(T![class]);
    identifier(p).or_error(p, "expected class name after 'class' keyword");
    if p.at_set(&[T![,], T!['{']]) {
        p.eat();
    }
    if p.eat_if(T!['{']) {
        statement_list(p);
    }
    p.finish_node();
}

pub(crate) fn statement_list(p: &mut Parser)
    ensures final(p).fuel() <= old(p).fuel(),
    decreases old(p).fuel(), 3nat
{
    p.start_node(3);
    p.skip();
    while !p.eof()
        invariant p.fuel() <= old(p).fuel(),
        decreases p.fuel(),
    {
        statement(p);
    }
    p.finish_node();
}

fn delimited<F>(p: &mut Parser, bra: TokenKind, ket: TokenKind, delim: TokenKind, mut parser: F)
where
    F: FnMut(&mut Parser),
    requires delim != TokenKind::Eof, bra != TokenKind::Eof,
        old(p).cur() == bra,
        forall|q: &mut Parser| (*q).fuel() < old(p).fuel() ==> #[trigger] parser.requires((q,)),
        forall|q: &mut Parser, r: ()| #[trigger] parser.ensures((q,), r) ==> final(q).fuel() <= (*q).fuel(),
    ensures final(p).fuel() <= old(p).fuel(),
{
    p.eat_if(bra);
    while !p.at(ket) && !p.eof()
        invariant p.fuel() <= old(p).fuel(), delim != TokenKind::Eof,
            p.fuel() < old(p).fuel(),
            forall|q: &mut Parser| (*q).fuel() < old(p).fuel() ==> #[trigger] parser.requires((q,)),
            forall|q: &mut Parser, r: ()| #[trigger] parser.ensures((q,), r) ==> final(q).fuel() <= (*q).fuel(),
        decreases p.fuel(),
    {
        parser(p);

        if !p.eat_if(delim) {
            break;
        }
    }
    p.eat_if(ket);
}


pub(crate) fn value(p: &mut Parser)
    ensures final(p).fuel() <= old(p).fuel(),
    decreases old(p).fuel(), 5nat
{
    if p.at(T!['{']) {
        value_list(p);
    } else {
        identifier(p);
    }
}
pub(crate) fn value_list(p: &mut Parser)
    requires old(p).cur() == TokenKind::LBrace
    ensures final(p).fuel() <= old(p).fuel(),
    decreases old(p).fuel(), 4nat
{
    let ghost f0 = p.fuel();
    delimited(p, T!['{'], T![;], T![,], |p: &mut Parser| requires old(p).fuel() < f0 ensures final(p).fuel() <= old(p).fuel() {
        value(p);
    });
}
} // verus!
fn main() {}
