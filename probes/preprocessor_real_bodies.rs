#![feature(allocator_api)]
use vstd::prelude::*;
use std::collections::HashSet;
use std::ops::Range;
use ecow::EcoString;

macro_rules! T {
    [#ifdef] => {TokenKind::Ifdef};
    [#ifndef] => {TokenKind::Ifndef};
    [#else] => {TokenKind::Else};
    [#endif] => {TokenKind::Endif};
    [#define] => {TokenKind::Define};
}

verus! {

// ---- prelude (trusted stubs) ----
#[verifier::external_type_specification]
#[verifier::external_body]
pub struct ExEcoString(ecow::EcoString);


#[derive(Debug, Clone, Copy, PartialEq, Eq, Structural)]
pub enum TokenKind { Eof, Whitespace, LineComment, BlockComment, Error, PreProcessor, Id, Ifdef, Ifndef, Else, Endif, Define, Semi }

impl TokenKind {
    pub open spec fn is_trivia_spec(&self) -> bool {
        *self == TokenKind::Whitespace || *self == TokenKind::LineComment || *self == TokenKind::BlockComment || *self == TokenKind::PreProcessor
    }
    pub fn is_trivia(&self) -> (r: bool) ensures r == self.is_trivia_spec()
    {
        matches!(
            self,
            Self::Whitespace | Self::LineComment | Self::BlockComment | Self::PreProcessor
        )
    }
}

pub trait TokenStream {
    spec fn len(&self) -> nat;
    spec fn pos(&self) -> nat;
    spec fn has_error(&self) -> bool;
    spec fn wf(&self) -> bool;

    fn eat(&mut self) -> (r: TokenKind)
        requires old(self).wf()
        ensures
            final(self).wf(),
            final(self).len() == old(self).len(),
            old(self).pos() <= final(self).pos() <= final(self).len(),
            r != TokenKind::Eof ==> final(self).pos() > old(self).pos(),
            r == TokenKind::Eof ==> final(self).pos() == final(self).len(),
            r == TokenKind::Error ==> final(self).has_error();

    fn cursor(&self) -> (r: usize)
        requires self.wf()
        ensures r == self.pos();

    fn text(&self, range: Range<usize>) -> &str;

    fn take_error(&mut self) -> (r: Option<EcoString>)
        requires old(self).wf()
        ensures final(self).wf(), final(self).pos() == old(self).pos(), final(self).len() == old(self).len(),
            old(self).has_error() ==> r.is_some();
}

// ---- extracted: preprocessor.rs (verbatim bodies) ----
#[derive(Debug)]
pub struct PreProcessor<T: TokenStream> {
    token_stream: T,
    macros: HashSet<EcoString>,
    error: Option<EcoString>,
}

impl<T: TokenStream> TokenStream for PreProcessor<T> {
    closed spec fn len(&self) -> nat { self.token_stream.len() }
    closed spec fn pos(&self) -> nat { self.token_stream.pos() }
    closed spec fn has_error(&self) -> bool { self.error.is_some() || self.token_stream.has_error() }
    closed spec fn wf(&self) -> bool { self.token_stream.wf() }

    fn eat(&mut self) -> (r: TokenKind) {
        self.next_token()
    }

    fn cursor(&self) -> (r: usize) {
        self.token_stream.cursor()
    }

    #[verifier::external_body]
    fn text(&self, range: Range<usize>) -> &str {
        self.token_stream.text(range)
    }

    fn take_error(&mut self) -> (r: Option<EcoString>) {
        if self.error.is_some() {
            self.error.take()
        } else {
            self.token_stream.take_error()
        }
    }
}

enum IfKind {
    Defined,
    NotDefined,
}

impl<T: TokenStream> PreProcessor<T> {
    fn next_token(&mut self) -> (r: TokenKind)
        requires old(self).wf()
        ensures
            final(self).wf(),
            final(self).len() == old(self).len(),
            old(self).pos() <= final(self).pos() <= final(self).len(),
            r != TokenKind::Eof ==> final(self).pos() > old(self).pos(),
            r == TokenKind::Eof ==> final(self).pos() == final(self).len(),
            r == TokenKind::Error ==> final(self).has_error(),
    {
        match self.token_stream.eat() {
            T![#ifdef] => self.process_if(IfKind::Defined),
            T![#ifndef] => self.process_if(IfKind::NotDefined),
            T![#else] => self.process_else(),
            T![#endif] => self.process_endif(),
            T![#define] => self.process_define(),
            kind => kind,
        }
    }

    #[verifier::external_body]
    fn error(&mut self, message: impl Into<EcoString>) -> (r: TokenKind)
        ensures r == TokenKind::Error, final(self).error.is_some(), final(self).token_stream == old(self).token_stream,
    {
        self.error = Some(message.into());
        TokenKind::Error
    }

    fn process_else(&mut self) -> (r: TokenKind)
        requires old(self).wf()
        ensures final(self).wf(), final(self).len() == old(self).len(),
            old(self).pos() <= final(self).pos() <= final(self).len(),
            r == TokenKind::PreProcessor,
    {
        self.eat_until_else_or_endif();
        TokenKind::PreProcessor
    }

    fn process_endif(&mut self) -> (r: TokenKind)
        ensures *final(self) == *old(self), r == TokenKind::PreProcessor
    {
        TokenKind::PreProcessor
    }

    fn process_if(&mut self, if_kind: IfKind) -> (r: TokenKind)
        requires old(self).wf()
        ensures final(self).wf(), final(self).len() == old(self).len(),
            old(self).pos() <= final(self).pos() <= final(self).len(),
            r == TokenKind::PreProcessor || r == TokenKind::Error,
            r == TokenKind::Error ==> final(self).has_error(),
    {
        match self.next_not_trivia() {
            (start, TokenKind::Id) => {
                let end = self.token_stream.cursor();
                let macro_name = self.token_stream.text(start..end);
                let macro_defined = self.macros.contains(macro_name);

                if let (IfKind::Defined, false) | (IfKind::NotDefined, true) =
                    (if_kind, macro_defined)
                {
                    self.eat_until_else_or_endif();
                }
                TokenKind::PreProcessor
            }
            _ => match if_kind {
                IfKind::Defined => self.error("expected macro name after #ifdef"),
                IfKind::NotDefined => self.error("expected macro name after #ifndef"),
            },
        }
    }

    fn process_define(&mut self) -> (r: TokenKind)
        requires old(self).wf()
        ensures final(self).wf(), final(self).len() == old(self).len(),
            old(self).pos() <= final(self).pos() <= final(self).len(),
            r == TokenKind::PreProcessor || r == TokenKind::Error,
            r == TokenKind::Error ==> final(self).has_error(),
    {
        match self.next_not_trivia() {
            (start, TokenKind::Id) => {
                let end = self.token_stream.cursor();
                let macro_name = self.token_stream.text(start..end);
                self.define_macro(macro_name.into());
                TokenKind::PreProcessor
            }
            _ => self.error("expected macro name after #define"),
        }
    }

    #[verifier::external_body]
    fn define_macro(&mut self, macro_name: EcoString)
        ensures final(self).token_stream == old(self).token_stream, final(self).error == old(self).error
    {
        self.macros.insert(macro_name);
    }

    fn next_not_trivia(&mut self) -> (r: (usize, TokenKind))
        requires old(self).wf()
        ensures final(self).wf(), final(self).len() == old(self).len(),
            old(self).pos() <= final(self).pos() <= final(self).len(),
            final(self).error == old(self).error,
    {
        loop
            invariant self.wf(), self.len() == old(self).len(), old(self).pos() <= self.pos() <= self.len(), self.error == old(self).error,
            decreases self.len() - self.pos(),
        {
            let start = self.token_stream.cursor();
            let kind = self.token_stream.eat();
            if !kind.is_trivia() {
                return (start, kind);
            }
        }
    }

    fn eat_until_else_or_endif(&mut self)
        requires old(self).wf()
        ensures final(self).wf(), final(self).len() == old(self).len(),
            old(self).pos() <= final(self).pos() <= final(self).len(),
    {
        let mut depth = 1;
        loop
            invariant self.wf(), self.len() == old(self).len(), old(self).pos() <= self.pos() <= self.len(), depth >= 1,
            decreases self.len() - self.pos(),
        {
            match self.token_stream.eat() {
                T![#ifdef] | T![#ifndef] => {
                    depth += 1;
                }
                T![#endif] if depth >= 2 => {
                    depth -= 1;
                }
                T![#else] if depth == 1 => {
                    break;
                }
                T![#endif] if depth == 1 => {
                    break;
                }
                TokenKind::Eof => {
                    self.error("reached EOF without matching #endif");
                    break;
                }
                _ => {}
            }
        }
    }
}

} // verus!
fn main() {}
